"""C01 — generated random fields reproduce the model covariance (PARTIAL by design).

stages: known-finding corpus (MCMC divergence cells, deterministic seeds; started first, collected last) ;
        translate summator.pyx -> Gallina ; theorems props/C01.v ; extraction + driver ;
        correspondence: generator __call__ formulas / SRF pipeline / reset_seed sampling maps vs the extracted model ;
        probes = seeded STATISTICS of the implementation (the only coverage of the hypotheses H2-H4 of the theorems):
          spectral cells (class x dim x sampling path x mode_no): mean_j cos<k_j,h> vs rho(h),
          ensembles over seeds through SRF.__call__ (mean, covariance, pointwise variance, anisotropy/rotation),
          Fourier Riemann sum vs model covariance decreasing with mode_no."""
import json
import math
import multiprocessing
import os
import time

import numpy as np

import common as C

CLASSES = ["Gaussian", "Exponential", "Matern", "Integral", "Stable", "Rational", "Cubic", "Linear", "Circular",
           "Spherical", "HyperSpherical", "SuperSpherical", "JBessel", "TPLGaussian", "TPLExponential", "TPLStable",
           "TPLSimple"]
MODE_NOS = (1000, 20000)
LEN_SCALE = 2.0          # the spectral cells are measured at len_scale 2 (the value of the design-phase measurement)
EPS = 2.0 ** -52


def kf_key(cls, dim, path, n):
    return "spectral-sampling:%s:dim=%d:sampling=%s:mode_no=%d" % (cls, dim, path, n)


# ----------------------------------------------------------------------------------------- spectral cells
def _lags(dim, ls, seed):
    """8 separations: |h| / len_scale in {0.25, 0.5, 1, 2}, two random directions each"""
    g = np.random.default_rng([dim, seed, 77])
    out = []
    for r in (0.25, 0.5, 1.0, 2.0):
        for _ in range(2):
            v = g.normal(size=dim)
            v /= np.linalg.norm(v)
            out.append(v * r * ls)
    return np.array(out)


def spectral_cell(job):
    """one cell: build RandMeth(model, mode_no, seed, sampling) and compare mean_j cos<k_j,h> with rho(|h|).
    Threshold 8 batch-means standard errors (20 batches) + 0.02 absolute.  Runs in a worker process."""
    cls, dim, path, n, seed, ls = job[:6]
    hist = job[6] if len(job) > 6 else None
    import warnings
    warnings.filterwarnings("ignore")
    import gstools as gs
    from gstools.field.generator import RandMeth
    t0 = time.time()
    res = dict(cls=cls, dim=dim, path=path, N=n, seed=seed, len_scale=ls)
    if hist:
        res["history"] = list(hist)
    try:
        m = build_by_history(cls, dim, ls, hist)
        g = RandMeth(m, mode_no=n, seed=seed, sampling={"ppf": "inversion", "cdf": "inversion", "pdfinv": "inversion", "auto": "auto"}.get(path, "mcmc"))
        k = np.asarray(g._cov_sample, dtype=float)
        if k.shape != (dim, n):
            res.update(error="cov_sample shape %s" % (k.shape,))
            return res
        H = _lags(dim, float(m.len_scale), seed)
        c = np.cos(H @ k)
        est = c.mean(axis=1)
        rho = np.asarray(m.correlation(np.linalg.norm(H, axis=1)), dtype=float)
        nb = 20
        bm = c[:, : (n // nb) * nb].reshape(len(H), nb, -1).mean(axis=2)
        se = bm.std(axis=1, ddof=1) / math.sqrt(nb)
        dev = np.abs(est - rho)
        thr = 8.0 * se + 0.02
        kn = np.linalg.norm(k, axis=0)
        w = int(np.argmax(dev / thr))
        res.update(ratio=float((dev / thr).max()), worst=dict(h=[float(x) for x in H[w]], est=float(est[w]),
                   rho=float(rho[w]), se=float(se[w]), sigmas=float(dev[w] / max(se[w], 1e-300))),
                   median_k=float(np.median(kn)), max_k=float(kn.max()), nonfinite=int((~np.isfinite(k)).sum()),
                   z_mean=float(np.mean(np.concatenate([g._z_1, g._z_2]))),
                   z_var=float(np.var(np.concatenate([g._z_1, g._z_2]))))
        iid = path in ("ppf", "cdf", "pdfinv") or (path == "auto" and m.has_ppf)
        if cls in ANALYTIC and (iid or n >= 20000):
            # (short MCMC chains under-sample heavy spectral tails — TPLExponential at 1000 modes is off by 0.06-0.13 — so the Kolmogorov
            #  bound for nearly independent draws is applied to the inversion paths and to the long chains only)
            # distribution of the drawn radii against the integral of the model's radial spectral pdf (independent of cdf / ppf)
            rg = np.geomspace(1e-5, 1e5, 4001) / float(m.len_rescaled)
            pdf = np.asarray(m.spectral_rad_pdf(rg), dtype=float)
            F = np.concatenate([[0.0], np.cumsum(0.5 * (pdf[1:] + pdf[:-1]) * np.diff(rg))]) + 0.5 * pdf[0] * rg[0]
            if abs(F[-1] - 1.0) < 0.01:
                Fe = np.searchsorted(np.sort(kn), rg, side="right") / float(n)
                D = np.abs(Fe - F)
                i = int(np.argmax(D))
                # Kolmogorov: P(D > l / sqrt(N)) ~ 2 exp(-2 l^2) = 2.6e-9 at l = 3.2; + quadrature 0.01
                # MCMC: the n modes are drawn from a chain of 10 n correlated states; integrated autocorrelation times up to ~100 steps for
                # heavy-tailed densities (TPLExponential: D = 0.03 at 20000 modes on the unchanged tree) -> effective sample size >= n / 10
                res.update(ks=float(D[i]), ks_thr=float(3.2 * math.sqrt((2.0 if iid else 10.0) / n) + 0.01), ks_at=float(rg[i]), ks_emp=float(Fe[i]), ks_ref=float(F[i]))
    except Exception as e:  # an exception of the implementation is a finding with its input
        res.update(error="%s: %s" % (type(e).__name__, str(e)[:200]))
    res["t"] = round(time.time() - t0, 2)
    return res


def build_by_history(cls, dim, ls, hist):
    """the model of a spectral cell: constructed directly (hist None) or brought to (dim, len_scale) through the
    public setters: ("dim", d0) construct at dimension d0 then `m.dim = dim`; ("copydim", d0) the same on a deepcopy
    (the idiom of /repo's tests); ("len", l0) construct with len_scale l0 then `m.len_scale = ls`;
    ("rescale", r0) construct with rescale r0 then set the class default back"""
    import copy
    import gstools as gs
    cl = getattr(gs, cls)
    if not hist:
        return cl(dim=dim, var=1.0, len_scale=ls)
    kind, arg = hist
    if kind == "dim":
        m = cl(dim=int(arg), var=1.0, len_scale=ls)
        m.dim = dim
    elif kind == "copydim":
        m = copy.deepcopy(cl(dim=int(arg), var=1.0, len_scale=ls))
        m.dim = dim
    elif kind == "len":
        m = cl(dim=dim, var=1.0, len_scale=float(arg))
        m.len_scale = ls
    elif kind == "rescale":
        m = cl(dim=dim, var=1.0, len_scale=ls, rescale=float(arg))
        m.rescale = cl(dim=dim).rescale
    elif kind == "opts":
        # option cell: non-default constructor options together, arg = sorted tuple of (name, value)
        kw = dict(dim=dim, var=1.0, len_scale=ls)
        kw.update(dict(arg))
        m = cl(**kw)
    else:
        raise ValueError("unknown history %r" % (hist,))
    return m


def hist_tag(hist):
    if not hist:
        return "constructor"
    if hist[0] == "opts":
        return "opts:" + ",".join("%s=%g" % (k, v) for k, v in hist[1])
    return "%s:%s" % (hist[0], hist[1])


def all_cells():
    import gstools as gs
    cells = []
    for cls in CLASSES:
        for dim in (1, 2, 3):
            m = getattr(gs, cls)(dim=dim)
            if not m.check_dim(dim):
                continue        # Linear d>=2, Circular d=3: not positive definite there, outside the property
            for n in MODE_NOS:
                if m.has_ppf:
                    cells.append((cls, dim, "ppf", n))
                cells.append((cls, dim, "mcmc", n))
    return cells


def judge_cell(ctx, r, stage):
    key = kf_key(r["cls"], r["dim"], r["path"], r["N"])
    if r.get("history"):
        key += ":history=" + hist_tag(r["history"])
    if r.get("len_scale", LEN_SCALE) != LEN_SCALE:
        key += ":len_scale=%g" % r["len_scale"]
    if "error" in r:
        if r["path"] == "pdfinv" and r["dim"] == 1 and "item assignment" in r["error"]:
            # class independent: spectral_rad_pdf(<python scalar>) fails for every 1-D model, scipy's generic inversion calls it with scalars
            key = "spectral-sampling:pdfinv:dim=1:spectral_rad_pdf(scalar):TypeError"
        else:
            key += ":error"
        ctx.violation(stage, "RandMeth(%s(dim=%d), mode_no=%d, sampling=%r) failed: %s" % (
            r["cls"], r["dim"], r["N"], {"ppf": "inversion", "cdf": "inversion", "pdfinv": "inversion", "auto": "auto"}.get(r["path"], "mcmc"), r["error"]), r, key=key)
        return False
    bad = r["ratio"] > 1.0 or r["nonfinite"] > 0
    # amplitudes: 2N iid standard normals  (mean 0 +- 8/sqrt(2N), variance 1 +- 8 sqrt(2/2N))
    n2 = 2.0 * r["N"]
    if abs(r["z_mean"]) > 8.0 / math.sqrt(n2) or abs(r["z_var"] - 1.0) > 8.0 * math.sqrt(2.0 / n2):
        ctx.violation(stage, "amplitudes z_1, z_2 are not standard normal (mean %.4f, var %.4f)" % (r["z_mean"], r["z_var"]),
                      r, key="amplitudes:%s:dim=%d" % (r["cls"], r["dim"]))
    if r.get("ks", 0.0) > r.get("ks_thr", 1.0):
        bad = True
        ctx.violation(stage, "%s dim=%d sampling=%s mode_no=%d seed=%d (model built by %s): the drawn wave numbers do not follow the model's radial spectral "
                      "distribution: empirical cdf of |k| at %.4g is %.4f, integral of spectral_rad_pdf %.4f (KS distance %.4f > %.4f)" % (
                          r["cls"], r["dim"], r["path"], r["N"], r["seed"], hist_tag(r.get("history")), r["ks_at"], r["ks_emp"], r["ks_ref"], r["ks"], r["ks_thr"]),
                      r, key=key + ":ks")
    if bad and r["ratio"] > 1.0 or r["nonfinite"] > 0:
        w = r["worst"]
        ctx.violation(stage, "%s dim=%d sampling=%s mode_no=%d seed=%d (model built by %s): mean cos<k,h> = %.4f but rho(h) = %.4f "
                      "(%.0f standard errors; median |k| = %.3g, max |k| = %.3g)" % (
                          r["cls"], r["dim"], r["path"], r["N"], r["seed"], hist_tag(r.get("history")), w["est"], w["rho"], w["sigmas"],
                          r["median_k"], r["max_k"]), r, key=key)
    return not bad


# ----------------------------------------------------------------------------------------- correspondence
def _arr(x):
    return np.ascontiguousarray(np.asarray(x, dtype=float))


def _master_state(gen):
    """state of the master RandomState that seeds every `rng.random` stream of the generator"""
    return gen._rng._master_rng._master_rng_fct.get_state()


def _replay_noise(gen, state, shape):
    """the standard normal draws get_nugget made in the call that started from `state` (rewinds the master
    stream, draws again: the stream ends where the call left it)"""
    gen._rng._master_rng._master_rng_fct.set_state(state)
    return gen._rng.random.normal(size=shape)


def _model_for(rng, dim, kind):
    import gstools as gs
    var = float(rng.uniform(0.2, 3.0))
    ls = float(rng.uniform(0.5, 4.0))
    anis = [float(x) for x in rng.uniform(0.3, 1.5, size=max(dim - 1, 0))]
    nang = dim * (dim - 1) // 2
    angles = [float(x) for x in rng.uniform(-math.pi, math.pi, size=nang)]
    nugget = float(rng.choice([0.0, 0.0, rng.uniform(0.05, 0.8)]))
    kw = dict(dim=dim, var=var, len_scale=ls, nugget=nugget)
    if dim > 1:
        kw.update(anis=anis, angles=angles)
    m = getattr(gs, kind)(**kw)
    return m, dict(cls=kind, dim=dim, var=var, len_scale=ls, anis=anis, angles=angles, nugget=nugget)


def _cond_tol(amp, z1, z2, ks, iso, extra=0.0):
    """error bound of the field value at each point: |z|-weighted sum of the phase rounding errors
    (a few ulp of sum_d |k_dj| |x_di|, numpy's matmul and the model's fold may sum in different orders) plus a
    few ulp of the accumulated terms — the '4 ulp * cond' rule of DESIGN 3.4 with a factor for cos/sin"""
    w = np.abs(z1) + np.abs(z2)                       # (N,)
    ph = np.abs(ks).T @ np.abs(iso)                   # (N, n): bound of |<k_j, x_i>| terms
    return 64 * EPS * (amp * (w @ (1.0 + ph)) + extra) + 1e-300


def corr_randmeth(ctx, drv, rng, n_cases, broken):
    import gstools as gs
    kinds = ["Gaussian", "Exponential", "Gaussian", "Exponential", "Matern", "Stable", "Spherical"]
    for it in range(n_cases):
        dim = int(rng.integers(1, 4))
        kind = kinds[it % len(kinds)]
        m, meta = _model_for(rng, dim, kind)
        n_modes = int(rng.choice([1, 2, 7, 30, 64]))
        seed = int(rng.integers(0, 2 ** 31 - 1))
        mean = float(rng.choice([0.0, rng.normal() * 3]))
        srf = gs.SRF(m, mean=mean, mode_no=n_modes, seed=seed)
        structured = bool(it % 3 == 2)
        if structured:
            axes = [np.sort(rng.uniform(-20, 20, size=int(rng.integers(1, 5)))) for _ in range(dim)]
            pos = gs.tools.geometric.generate_grid(axes)
            arg, mt = axes, "structured"
        else:
            npt = int(rng.choice([1, 2, dim, dim + 1, 5, 17]))
            pos = rng.uniform(-20, 20, size=(dim, npt))
            lay = it % 4          # the same positions as list of rows / Fortran-ordered 2-D array / transposed view / strided view
            if lay == 1:
                arg = np.asfortranarray(pos)
            elif lay == 2:
                arg = np.ascontiguousarray(pos.T).T
            elif lay == 3:
                big = np.zeros((dim, 2 * npt)); big[:, ::2] = pos; arg = big[:, ::2]
            else:
                arg = [pos[d] for d in range(dim)]
            mt = "unstructured"
        gen = srf.generator
        st = _master_state(gen)
        field = np.asarray(srf(arg, mesh_type=mt), dtype=float).reshape(-1)
        noise = _replay_noise(gen, st, pos.shape[1]) if m.nugget > 0 else np.zeros(pos.shape[1])
        ks, z1, z2 = _arr(gen._cov_sample), _arr(gen._z_1), _arr(gen._z_2)
        case = dict(meta, generator="RandMeth", mode_no=n_modes, seed=seed, mean=mean, mesh_type=mt,
                    pos=[[C.fhex(v) for v in row] for row in pos])
        ctx.count(("corr", "RandMeth", kind, dim, n_modes, mt, m.nugget > 0) if n_modes >= 2 and pos.shape[1] >= 2 else None,
                  hist=dict(corr_generator="RandMeth", corr_dim=dim, corr_modes=n_modes, corr_mesh=mt, corr_class=kind))
        if gen._mode_no != n_modes or ks.shape != (dim, n_modes) or z1.shape != (n_modes,):
            broken.append(("RandMeth state shapes", case))
            continue
        out = drv.call("srf_randmeth", ("n", dim), _arr(m.angles), _arr(m.anis), mean, float(m.var), ("z", n_modes),
                       float(m.nugget), ks, z1, z2, _arr(pos), _arr(noise))
        iso = np.asarray(m.isometrize(pos), dtype=float)
        amp = math.sqrt(m.var / n_modes)
        tol = _cond_tol(amp, z1, z2, ks, iso, extra=abs(mean) + math.sqrt(m.nugget) * np.abs(noise))
        out = np.asarray(out, dtype=float)
        if out.shape != field.shape or not np.all(np.abs(out - field) <= tol):
            broken.append(("SRF.__call__ (RandMeth, %s) vs model srf_randmeth" % mt,
                           dict(case, impl=[C.fhex(v) for v in field], model=[C.fhex(v) for v in out.reshape(-1)],
                                tol=[float(t) for t in np.atleast_1d(tol)])))
        # generator level, same isometrized positions: only the kernel + amplitude + nugget
        st = _master_state(gen)
        g_impl = np.asarray(gen(iso), dtype=float)
        noise2 = _replay_noise(gen, st, pos.shape[1]) if m.nugget > 0 else np.zeros(pos.shape[1])
        g_mod = np.asarray(drv.call("randmeth_call", float(m.var), ("z", n_modes), float(m.nugget), ks, z1, z2, _arr(iso), _arr(noise2)))
        scale = amp * (np.abs(z1) + np.abs(z2)).sum() + math.sqrt(m.nugget) * np.abs(noise2) + 1e-300
        if g_mod.shape != g_impl.shape or not np.all(np.abs(g_mod - g_impl) <= 1e-12 * scale):
            broken.append(("RandMeth.__call__ vs model randmeth_call", dict(case, impl=[C.fhex(v) for v in g_impl],
                                                                           model=[C.fhex(v) for v in g_mod])))
        a_mod = drv.call("randmeth_amp", float(m.var), ("z", n_modes))
        if not C.close(a_mod, amp, rtol=1e-15):
            broken.append(("amplitude sqrt(var/mode_no)", dict(case, model=a_mod, impl=amp)))
        if it < 2:
            ctx.sample(dict(generator="RandMeth", meta=meta, mode_no=n_modes, mesh=mt, n_points=int(pos.shape[1])))


def corr_fourier(ctx, drv, rng, n_cases, broken):
    import gstools as gs
    kinds = ["Gaussian", "Exponential", "Matern", "Stable"]
    for it in range(n_cases):
        dim = int(rng.integers(1, 4))
        kind = kinds[it % len(kinds)]
        m, meta = _model_for(rng, dim, kind)
        mode_no = [int(rng.choice([2, 4, 6])) for _ in range(dim)]
        period = [float(rng.uniform(5, 40)) for _ in range(dim)]
        seed = int(rng.integers(0, 2 ** 31 - 1))
        mean = float(rng.choice([0.0, rng.normal()]))
        srf = gs.SRF(m, mean=mean, generator="Fourier", period=period, mode_no=mode_no, seed=seed)
        gen = srf.generator
        npt = int(rng.choice([1, 3, 9]))
        pos = rng.uniform(-30, 30, size=(dim, npt))
        st = _master_state(gen)
        field = np.asarray(srf([pos[d] for d in range(dim)]), dtype=float).reshape(-1)
        noise = _replay_noise(gen, st, npt) if m.nugget > 0 else np.zeros(npt)
        modes, z1, z2, sf = _arr(gen._modes), _arr(gen._z_1), _arr(gen._z_2), _arr(gen._spectrum_factor)
        case = dict(meta, generator="Fourier", mode_no=mode_no, period=period, seed=seed, mean=mean,
                    pos=[[C.fhex(v) for v in row] for row in pos])
        ctx.count(("corr", "Fourier", kind, dim, tuple(mode_no), m.nugget > 0) if npt >= 2 else None,
                  hist=dict(corr_generator="Fourier", corr_dim=dim, corr_class=kind))
        kn_mod = np.asarray(drv.call("fourier_k_norm", modes))
        kn = np.linalg.norm(modes, axis=0)
        if kn_mod.shape != kn.shape or not C.close(kn_mod, kn, rtol=1e-14, atol=1e-300):
            broken.append(("Fourier k_norm", case))
        spec = _arr(m.spectrum(kn))
        sf_mod = np.asarray(drv.call("fourier_spectrum_factor", spec, _arr(gen._delta_k)))
        if sf_mod.shape != sf.shape or not C.close(sf_mod, sf, rtol=1e-14, atol=1e-300):
            broken.append(("Fourier spectrum factor sqrt(spectrum * prod(delta_k))", dict(case, impl=[C.fhex(v) for v in sf],
                                                                                        model=[C.fhex(v) for v in sf_mod])))
        out = np.asarray(drv.call("srf_fourier", ("n", dim), _arr(m.angles), _arr(m.anis), mean, float(m.nugget), sf, modes,
                                  z1, z2, _arr(pos), _arr(noise)), dtype=float)
        iso = np.asarray(m.isometrize(pos), dtype=float)
        w = sf * (np.abs(z1) + np.abs(z2))
        ph = np.abs(modes).T @ np.abs(iso)
        tol = 64 * EPS * (w @ (1.0 + ph) + abs(mean) + math.sqrt(m.nugget) * np.abs(noise)) + 1e-300
        if out.shape != field.shape or not np.all(np.abs(out - field) <= tol):
            broken.append(("SRF.__call__ (Fourier) vs model srf_fourier", dict(case, impl=[C.fhex(v) for v in field],
                                                                             model=[C.fhex(v) for v in out])))
        if it < 1:
            ctx.sample(dict(generator="Fourier", meta=meta, mode_no=mode_no, period=period, n_points=npt))


def corr_incompr(ctx, drv, rng, n_cases, broken):
    import gstools as gs
    for it in range(n_cases):
        dim = int(rng.integers(2, 4))
        kind = ["Gaussian", "Exponential"][it % 2]
        m, meta = _model_for(rng, dim, kind)
        n_modes = int(rng.choice([1, 3, 20]))
        seed = int(rng.integers(0, 2 ** 31 - 1))
        mu = float(rng.choice([1.0, rng.uniform(0.2, 3.0)]))
        srf = gs.SRF(m, generator="VectorField", mean_velocity=mu, mode_no=n_modes, seed=seed)
        gen = srf.generator
        npt = int(rng.choice([1, 4, 9]))
        pos = rng.uniform(-10, 10, size=(dim, npt))
        st = _master_state(gen)
        field = np.asarray(srf([pos[d] for d in range(dim)]), dtype=float)
        noise = _replay_noise(gen, st, (dim, npt)) if m.nugget > 0 else np.zeros((dim, npt))
        ks, z1, z2 = _arr(gen._cov_sample), _arr(gen._z_1), _arr(gen._z_2)
        case = dict(meta, generator="IncomprRandMeth", mode_no=n_modes, seed=seed, mean_velocity=mu,
                    pos=[[C.fhex(v) for v in row] for row in pos])
        ctx.count(("corr", "IncomprRandMeth", kind, dim, n_modes, m.nugget > 0) if npt >= 2 and n_modes >= 2 else None,
                  hist=dict(corr_generator="IncomprRandMeth", corr_dim=dim, corr_class=kind))
        iso = np.asarray(drv.call("isometrize", ("n", dim), _arr(m.angles), _arr(m.anis), _arr(pos)), dtype=float).reshape(dim, npt)
        out = np.asarray(drv.call("incompr_call", float(m.var), ("z", n_modes), float(m.nugget), mu, ks, z1, z2, _arr(iso),
                                  _arr(noise)), dtype=float).reshape(dim, npt)
        amp = mu * math.sqrt(m.var / n_modes)
        tol = _cond_tol(amp, z1, z2, ks, np.abs(iso), extra=abs(mu) + math.sqrt(m.nugget) * np.abs(noise).max())
        if field.shape != out.shape or not np.all(np.abs(out - field) <= 2 * tol[None, :]):
            broken.append(("SRF.__call__ (IncomprRandMeth) vs model incompr_call", dict(case, impl=[C.fhex(v) for v in field.ravel()],
                                                                                      model=[C.fhex(v) for v in out.ravel()])))


def corr_sampling(ctx, drv, rng, n_cases, broken):
    """reset_seed on the inversion path, re-enacted with the same RNG streams: normal amplitudes, sample_sphere from its
    uniform draws, radii = ppf(U), cov_sample = rad * sphere"""
    import gstools as gs
    from gstools.random.rng import RNG
    from gstools.field.generator import RandMeth
    for it in range(n_cases):
        kind, dim = [("Gaussian", 1), ("Gaussian", 2), ("Exponential", 1), ("Exponential", 2)][it % 4]
        ls = float(rng.uniform(0.3, 5.0))
        m = getattr(gs, kind)(dim=dim, len_scale=ls)
        n = int(rng.choice([1, 5, 40]))
        seed = int(rng.integers(0, 2 ** 31 - 1))
        g = RandMeth(m, mode_no=n, seed=seed)
        r2 = RNG(seed)
        z1 = r2.random.normal(size=n)
        z2 = r2.random.normal(size=n)
        if dim == 1:
            sph = np.empty((1, n))
            sph[0] = r2.random.choice([-1, 1], size=n)
        else:
            ang1 = r2.random.uniform(0.0, 2 * np.pi, n)
            sph = np.asarray(drv.call("sphere2", _arr(ang1)), dtype=float).reshape(2, n)
        u = r2.random.uniform(size=n)
        lr = float(m.len_rescaled)
        fn = {("Gaussian", 1): "gau1_ppf", ("Gaussian", 2): "gau2_ppf", ("Exponential", 1): "exp1_ppf", ("Exponential", 2): "exp2_ppf"}[(kind, dim)]
        rad = np.array([drv.call(fn, lr, float(x)) for x in u])
        cs = np.asarray(drv.call("cov_sample", _arr(rad), _arr(sph)), dtype=float).reshape(dim, n)
        case = dict(cls=kind, dim=dim, len_scale=ls, mode_no=n, seed=seed)
        ctx.count(("corr", "reset_seed", kind, dim, n) if n >= 2 else None, hist=dict(corr_generator="reset_seed(inversion)", corr_dim=dim, corr_class=kind))
        if not (C.bit_equal(z1, g._z_1) and C.bit_equal(z2, g._z_2)):
            broken.append(("reset_seed amplitude streams", case))
        if not C.close(cs, np.asarray(g._cov_sample), rtol=1e-11, atol=1e-300):
            broken.append(("reset_seed: cov_sample = ppf(U) * sample_sphere", dict(case, impl=[C.fhex(v) for v in np.ravel(g._cov_sample)],
                                                                               model=[C.fhex(v) for v in cs.ravel()])))
        # the cdf / ppf formulas themselves
        for x in rng.uniform(1e-3, 1 - 1e-3, size=4):
            x = float(x)
            if not C.close(drv.call(fn, lr, x), float(m.spectral_rad_ppf(x)), rtol=1e-11):
                broken.append(("%s.spectral_rad_ppf dim %d" % (kind, dim), dict(case, u=x)))
            r = float(m.spectral_rad_ppf(x))
            if fn != "gau1_ppf" and not C.close(drv.call(fn.replace("ppf", "cdf"), lr, r), float(m.spectral_rad_cdf(r)), rtol=1e-11, atol=1e-15):
                broken.append(("%s.spectral_rad_cdf dim %d" % (kind, dim), dict(case, r=r)))
    # sample_sphere dim 3
    for it in range(max(2, n_cases // 4)):
        n = int(rng.choice([1, 6, 30]))
        seed = int(rng.integers(0, 2 ** 31 - 1))
        impl = RNG(seed).sample_sphere(3, n)
        r2 = RNG(seed)
        a1 = r2.random.uniform(0.0, 2 * np.pi, n)
        a2 = r2.random.uniform(-1.0, 1.0, n)
        mod = np.asarray(drv.call("sphere3", _arr(a1), _arr(a2)), dtype=float).reshape(3, n)
        ctx.count(("corr", "sample_sphere3", n) if n >= 2 else None, hist=dict(corr_generator="sample_sphere", corr_dim=3))
        if not C.close(mod, impl, rtol=1e-12, atol=1e-16):
            broken.append(("RNG.sample_sphere dim 3", dict(n=n, seed=seed)))


def erfinv_oracle(code, args):
    from scipy import special as sps
    if code == 7:
        return float(sps.erfinv(args[0]))
    raise ValueError("unexpected oracle code %d" % code)


# ----------------------------------------------------------------------------------------- ensemble probes
def ensemble_probe(ctx, rng, n_cfg, n_seeds):
    """over many seeds through SRF.__call__ (seed argument): zero mean, covariance of point pairs = model covariance
    of the (anisotropic, rotated) separation, pointwise variance = var + nugget.  Thresholds: 8 standard errors of
    the seed average (from the sample itself) + 2% of the sill."""
    import gstools as gs
    kinds = [("Gaussian", (1, 2)), ("Exponential", (1, 2)), ("Gaussian", (3,)), ("Matern", (1, 2, 3)), ("Exponential", (3,))]
    for it in range(n_cfg):
        kind, dims = kinds[it % len(kinds)]
        dim = int(rng.choice(dims))
        m, meta = _model_for(rng, dim, kind)
        if it % 2 == 0:
            # nugget comparable to the variance, so that a wrong nugget scaling moves the sill by > 15 %
            m.nugget = float(rng.uniform(0.3, 0.6))
            m.var = float(rng.uniform(0.3, 0.8))
            meta.update(nugget=m.nugget, var=m.var)
        slow = not m.has_ppf
        n_modes = 40 if slow else 64
        S = max(80, n_seeds // 3) if slow else n_seeds
        mean = float(rng.choice([0.0, 1.7]))
        srf = gs.SRF(m, mean=mean, mode_no=n_modes, seed=0)
        # points: origin, and separations of 0.3 / 1 / 2.5 correlation lengths along random directions
        pts = [np.zeros(dim)]
        for r in (0.3, 1.0, 2.5):
            v = rng.normal(size=dim)
            v /= np.linalg.norm(v)
            pts.append(v * r * m.len_scale)
        pos = np.array(pts).T + rng.uniform(-50, 50, size=(dim, 1))
        n_near = pos.shape[1]
        # + 40 far-apart points: the per-seed average of (u - mean)^2 over them is a low-variance estimate of the sill
        far = rng.uniform(-100, 100, size=(dim, 40)) * m.len_scale
        allpos = np.hstack([pos, far])
        base = int(rng.integers(0, 2 ** 30))
        FA = np.empty((S, allpos.shape[1]))
        for s in range(S):
            FA[s] = srf([allpos[d] for d in range(dim)], seed=base + s)
        F = FA[:, :n_near]
        case = dict(meta, mode_no=n_modes, seeds=[base, base + S], mean=mean, pos=pos.tolist())
        ctx.count(("ensemble", kind, dim, n_modes, m.nugget > 0), n=S, hist=dict(ensemble_class=kind, ensemble_dim=dim))
        sill = m.var + m.nugget
        # mean
        mu = F.mean(axis=0)
        se = F.std(axis=0, ddof=1) / math.sqrt(S)
        if np.any(np.abs(mu - mean) > 8 * se + 0.02 * math.sqrt(sill)):
            ctx.violation("probe: ensemble mean", "mean over %d seeds is %s, expected %g" % (S, mu.tolist(), mean),
                          dict(case, mean_est=mu.tolist(), se=se.tolist()), key="ensemble-mean:%s:dim=%d" % (kind, dim))
        vs = ((FA[:, n_near:] - mean) ** 2).mean(axis=1)
        v_est, v_se = float(vs.mean()), float(vs.std(ddof=1) / math.sqrt(S))
        if abs(v_est - sill) > 8 * v_se + 0.02 * sill:
            ctx.violation("probe: ensemble sill", "variance averaged over 40 locations and %d seeds is %.4f, var + nugget = %.4f (se %.4f)" % (
                S, v_est, sill, v_se), dict(case, est=v_est, expect=sill, se=v_se), key="ensemble-sill:%s:dim=%d" % (kind, dim))
        G = F - mean
        for a in range(pos.shape[1]):
            for b in range(a, pos.shape[1]):
                prod = G[:, a] * G[:, b]
                est = prod.mean()
                sep = prod.std(ddof=1) / math.sqrt(S)
                h = pos[:, a] - pos[:, b]
                expect = float(m.cov_spatial(h.reshape(dim, 1))[0]) if a != b else m.var
                if a == b:
                    expect += m.nugget
                if abs(est - expect) > 8 * sep + 0.02 * sill:
                    what = "pointwise variance" if a == b else "covariance"
                    ctx.violation("probe: ensemble " + what,
                                  "%s over %d seeds at points %d,%d is %.4f, model value %.4f (se %.4f)" % (what, S, a, b, est, expect, sep),
                                  dict(case, a=a, b=b, est=est, expect=expect, se=sep),
                                  key="ensemble-%s:%s:dim=%d" % (what.split()[-1], kind, dim))


def fourier_probe(ctx, rng, n_cfg, n_seeds):
    """Fourier generator: (i) the deterministic Riemann sum sum_j sf_j^2 cos<k_j,h> (the exact ensemble covariance by
    C01_fourier_covariance) approaches the model covariance as mode_no grows, (ii) ensemble over seeds equals that sum,
    (iii) zero mean."""
    import gstools as gs
    from gstools.field.generator import Fourier
    kinds = ["Gaussian", "Exponential", "Matern"]
    for it in range(n_cfg):
        kind = kinds[it % len(kinds)]
        dim = int(rng.integers(1, 3))
        m, meta = _model_for(rng, dim, kind)
        m.nugget = 0.0
        L = 14.0 * m.len_scale * max([1.0] + list(m.anis))
        period = [L] * dim
        hs = []
        for r in (0.0, 0.4, 1.0, 2.0):
            v = rng.normal(size=dim)
            v /= np.linalg.norm(v)
            hs.append(v * r * m.len_scale)
        H = m.isometrize(np.array(hs).T)              # (dim, 4): Fourier works on isometrized positions
        target = np.array([float(m.cov_spatial(np.array(h).reshape(dim, 1))[0]) for h in hs])
        errs, bounds = [], []
        for M in (8, 16, 32, 64) if dim == 1 else (8, 16, 32):
            g = Fourier(m, period=period, mode_no=[M] * dim, seed=1)
            w = np.asarray(g._spectrum_factor) ** 2
            sums = (w[None, :] * np.cos(H.T @ np.asarray(g._modes))).sum(axis=1)
            errs.append(float(np.abs(sums - target).max()))
            # spectral mass outside the largest ball |k| <= k_cut covered by the mode grid: the truncation error of the
            # Riemann sum is at most this tail (the aliasing term sum_n C(h + n L) is < 1e-5 for L = 14 len_scale)
            modes = np.asarray(g._modes)
            k_cut = float(min(modes[d].max() for d in range(dim)))
            bounds.append(float(m.var * (1.0 - m.spectral_rad_cdf(k_cut))) if m.has_cdf else float("inf"))
            ctx.count(("fourier-riemann", kind, dim, M), hist=dict(fourier_class=kind, fourier_dim=dim))
        case = dict(meta, period=period, lags=[list(map(float, h)) for h in hs], target=target.tolist(), errs=errs, tail_bounds=bounds)
        # discretisation error shrinks with the number of modes (equality allowed at the rounding floor) and stays below
        # the spectral tail mass + 1% of the variance
        floor = 1e-9 * m.var
        shrinking = all(errs[i + 1] <= errs[i] * 1.0000001 + floor for i in range(len(errs) - 1))
        bounded = all(e <= bd * 1.05 + 0.01 * m.var for e, bd in zip(errs, bounds))
        if not shrinking or not bounded:
            ctx.violation("probe: Fourier discretisation",
                          "Riemann-sum covariance error %s vs spectral tail bounds %s (must shrink with mode_no and stay below the tail mass)" % (errs, bounds),
                          case, key="fourier-riemann:%s:dim=%d" % (kind, dim))
        # ensemble over seeds with a small grid
        M = 8
        srf = gs.SRF(m, generator="Fourier", period=period, mode_no=[M] * dim, seed=0)
        g = srf.generator
        pos0 = rng.uniform(-L, L, size=(dim, 1))
        pos = pos0 + np.array(hs).T
        base = int(rng.integers(0, 2 ** 30))
        S = n_seeds
        F = np.empty((S, pos.shape[1]))
        for s in range(S):
            F[s] = srf([pos[d] for d in range(dim)], seed=base + s)
        w = np.asarray(g._spectrum_factor) ** 2
        ctx.count(("fourier-ensemble", kind, dim), n=S, hist=dict(fourier_class=kind, fourier_dim=dim))
        mu = F.mean(axis=0)
        se = F.std(axis=0, ddof=1) / math.sqrt(S)
        if np.any(np.abs(mu) > 8 * se + 0.02 * math.sqrt(m.var)):
            ctx.violation("probe: Fourier ensemble mean", "mean over %d seeds is %s" % (S, mu.tolist()), dict(case, seeds=[base, base + S]),
                          key="fourier-mean:%s:dim=%d" % (kind, dim))
        for b in range(pos.shape[1]):
            prod = F[:, 0] * F[:, b]
            est, sep = prod.mean(), prod.std(ddof=1) / math.sqrt(S)
            expect = float((w * np.cos((H[:, 0] - H[:, b]) @ np.asarray(g._modes))).sum())
            if abs(est - expect) > 8 * sep + 0.02 * m.var:
                ctx.violation("probe: Fourier ensemble covariance",
                              "covariance over %d seeds at lag %d is %.4f, Riemann sum of the spectrum %.4f (se %.4f)" % (S, b, est, expect, sep),
                              dict(case, seeds=[base, base + S], est=est, expect=expect), key="fourier-cov:%s:dim=%d" % (kind, dim))



# ----------------------------------------------------------------------------------------- setter histories
OPT_ARGS = {
    "Matern": dict(nu=1.3), "Integral": dict(nu=2.0), "Stable": dict(alpha=1.4), "Rational": dict(alpha=2.0),
    "SuperSpherical": dict(nu=3.0), "JBessel": dict(nu=3.0), "TPLGaussian": dict(hurst=0.6, len_low=0.3),
    "TPLExponential": dict(hurst=0.6, len_low=0.3), "TPLStable": dict(alpha=1.4, hurst=0.6, len_low=0.3),
    "TPLSimple": dict(nu=3.5),
}


def fresh_like(m):
    """a newly constructed model with the parameters the given model has now"""
    kw = dict(dim=m.dim, var=float(m.var), len_scale=float(m.len_scale), nugget=float(m.nugget), rescale=float(m.rescale),
              hankel_kw=dict(m.hankel_kw))
    if m.dim > 1:
        kw.update(anis=[float(a) for a in m.anis], angles=[float(a) for a in m.angles])
    kw.update({k: float(getattr(m, k)) for k in m.opt_arg})
    return type(m)(**kw)


def setter_histories(cls, rng, full):
    """(tag, model) pairs: the model reached its configuration through public setters after construction"""
    import copy
    import gstools as gs
    cl = getattr(gs, cls)
    opt = OPT_ARGS.get(cls, {})
    valid = [d for d in (1, 2, 3) if cl(dim=d).check_dim(d)]
    out = []
    pairs = [(a, b) for a in valid for b in valid if a != b]
    if not full and len(pairs) > 3:
        pairs = [pairs[i] for i in rng.permutation(len(pairs))[:3]]
    for a, b in pairs:
        m = cl(dim=a, len_scale=1.7, **opt)
        m.dim = b
        out.append(("dim %d->%d" % (a, b), m))
    if len(valid) > 1:
        a, b = valid[0], valid[-1]
        m = copy.deepcopy(cl(dim=a, len_scale=0.8, **opt))
        m.dim = b
        out.append(("deepcopy, dim %d->%d" % (a, b), m))
        m = cl(dim=b, len_scale=0.8, **opt)
        m.dim = a
        m.dim = b
        out.append(("dim %d->%d->%d" % (b, a, b), m))
    d = int(rng.choice(valid))
    m = cl(dim=d, **opt)
    m.len_scale = 3.1
    out.append(("len_scale setter, dim %d" % d, m))
    m = cl(dim=d, len_scale=2.0, **opt)
    m.rescale = 2.3
    out.append(("rescale setter, dim %d" % d, m))
    m = cl(dim=d, len_scale=2.0, **opt)
    m.var = 2.5
    m.nugget = 0.4
    out.append(("var/nugget setters, dim %d" % d, m))
    if valid[-1] > 1:
        dd = valid[-1]
        m = cl(dim=dd, len_scale=2.0, **opt)
        m.anis = [0.6] * (dd - 1)
        m.angles = [0.4] * (dd * (dd - 1) // 2)
        out.append(("anis/angles setters, dim %d" % dd, m))
    if opt:
        m = cl(dim=d, len_scale=2.0)
        for k, v in opt.items():
            setattr(m, k, v)
        out.append(("optional-argument setters %s, dim %d" % (sorted(opt), d), m))
    m = cl(dim=d, len_scale=2.0, **opt)
    m.hankel_kw = dict(N=300, h=0.0008)
    out.append(("hankel_kw setter, dim %d" % d, m))
    return out


def setter_probe(ctx, rng, full):
    """deterministic: spectral_density / spectral_rad_pdf / spectrum of a model configured through setters equal those
    of a freshly constructed model with the same parameters on a k grid (1e-12 of the largest value; they are the same
    computation, so they should be bit-equal).  All 17 classes."""
    n = 0
    for cls in CLASSES:
        try:
            hs = setter_histories(cls, rng, full)
        except Exception as e:
            ctx.violation("probe: setter history", "%s: setter sequence raised %s: %s" % (cls, type(e).__name__, str(e)[:200]),
                          dict(cls=cls), key="setter-history:%s:exception" % cls)
            continue
        reported = False
        for tag, m in hs:
            if reported:        # one report per class: further histories of the same class repeat the same defect
                n += 1
                continue
            f = fresh_like(m)
            kgrid = np.array([0.0, 0.01, 0.1, 0.3, 0.7, 1.0, 2.0, 5.0, 10.0]) / float(f.len_rescaled)
            ctx.count(("setter", cls, tag), hist=dict(setter_class=cls, setter_history=tag.split(",")[0].split(" dim")[0]))
            n += 1
            for fn in ("spectral_density", "spectral_rad_pdf", "spectrum"):
                a = np.asarray(getattr(m, fn)(kgrid), dtype=float)
                b = np.asarray(getattr(f, fn)(kgrid), dtype=float)
                scale = float(np.max(np.abs(b))) if np.isfinite(b).all() and b.size else 1.0
                if a.shape != b.shape or not C.close(a, b, rtol=0.0, atol=1e-12 * scale + 1e-300):
                    ctx.violation("probe: setter history",
                                  "%s configured by [%s]: %s differs from a freshly constructed model with the same parameters: %s vs %s at k = %s"
                                  % (cls, tag, fn, a.tolist(), b.tolist(), kgrid.tolist()),
                                  dict(cls=cls, history=tag, function=fn, k=kgrid.tolist(), by_setters=a.tolist(), fresh=b.tolist(),
                                       params=dict(dim=f.dim, var=float(f.var), len_scale=float(f.len_scale), rescale=float(f.rescale),
                                                   opt={k: float(getattr(f, k)) for k in f.opt_arg}, hankel_kw=dict(f.hankel_kw))),
                                  key="setter-history:%s:%s:%s" % (cls, tag.split(",")[0], fn))
                    reported = True
                    break
    return n


def history_cells(rng, armed_set, thorough):
    """spectral cells (mode_no 1000, MCMC) whose model reaches an ARMED (class, dim) through setters"""
    import gstools as gs
    cells = []
    for cls in CLASSES:
        valid = [d for d in (1, 2, 3) if getattr(gs, cls)(dim=d).check_dim(d)]
        finals = [d for d in valid if (cls, d, "mcmc", 1000) in armed_set]
        if not finals:
            continue
        opts = []
        for d in finals:
            for d0 in valid:
                if d0 != d:
                    opts.append((cls, d, "mcmc", 1000, ("dim", d0)))
                    opts.append((cls, d, "mcmc", 1000, ("copydim", d0)))
            opts.append((cls, d, "mcmc", 1000, ("len", 0.7)))
            opts.append((cls, d, "mcmc", 1000, ("rescale", 1.9)))
        dimh = [o for o in opts if o[4][0] in ("dim", "copydim")]
        oth = [o for o in opts if o[4][0] not in ("dim", "copydim")]
        if thorough:
            cells += opts
        else:
            if dimh:
                cells.append(dimh[int(rng.integers(len(dimh)))])
            else:
                cells.append(oth[int(rng.integers(len(oth)))])
    return cells


# ----------------------------------------------------------------------------------------- variance, all generators
def sill_probe(ctx, rng, m, meta, generator, gen_kw, n_seeds, stage):
    """pointwise variance (per-seed average over 40 far locations) and one short-lag covariance over seeds through
    SRF.__call__ for any of the three generators.  Expectations: RandMeth var + nugget and cov_spatial(h); Fourier
    sum_j sf_j^2 + nugget and sum_j sf_j^2 cos<k_j, iso h> (exact by C01_fourier_covariance); IncomprRandMeth trace
    mean_u^2 var (1 - 1/d) + d nugget.  Threshold 8 SE (over seeds) + 2 %."""
    import gstools as gs
    dim = m.dim
    srf = gs.SRF(m, generator=generator, seed=0, **gen_kw)
    gen = srf.generator
    far = rng.uniform(-100, 100, size=(dim, 40)) * m.len_scale
    v = rng.normal(size=dim)
    h = v / np.linalg.norm(v) * 0.5 * m.len_scale
    pair = np.array([far[:, 0], far[:, 0] + h]).T
    pos = np.hstack([far, pair])
    base = int(rng.integers(0, 2 ** 30))
    vals, prods = np.empty(n_seeds), np.empty(n_seeds)
    vector = generator in ("VectorField", "IncomprRandMeth")
    for s in range(n_seeds):
        f = np.asarray(srf([pos[d] for d in range(dim)], seed=base + s), dtype=float)
        if vector:
            dev = f.copy()
            dev[0] -= gen.mean_u
            vals[s] = (dev[:, :40] ** 2).sum(axis=0).mean()
            prods[s] = 0.0
        else:
            vals[s] = (f[:40] ** 2).mean()
            prods[s] = f[40] * f[41]
    if vector:
        expect = gen.mean_u ** 2 * m.var * (1.0 - 1.0 / dim) + dim * m.nugget
        cov_expect = None
    elif generator == "Fourier":
        w = np.asarray(gen._spectrum_factor) ** 2
        expect = float(w.sum()) + m.nugget
        cov_expect = float((w * np.cos(np.asarray(m.isometrize(h.reshape(dim, 1)))[:, 0] @ np.asarray(gen._modes))).sum())
    else:
        expect = m.var + m.nugget
        cov_expect = float(m.cov_spatial(h.reshape(dim, 1))[0])
    case = dict(meta, generator=generator, generator_kwargs={k: (list(map(float, np.atleast_1d(x))) if not np.isscalar(x) else x) for k, x in gen_kw.items()},
                seeds=[base, base + n_seeds], lag=[float(x) for x in h])
    ctx.count(("sill", generator, meta.get("cls"), dim, round(float(m.nugget), 3)), n=n_seeds,
              hist=dict(sill_generator=generator, sill_dim=dim, sill_nugget=round(float(m.nugget), 2)))
    est, se = float(vals.mean()), float(vals.std(ddof=1) / math.sqrt(n_seeds))
    ok = True
    if abs(est - expect) > 8 * se + 0.02 * expect:
        ok = False
        ctx.violation(stage + " pointwise variance",
                      "%s, nugget %.3g: %s over 40 locations and %d seeds is %.4f, expected %.4f (se %.4f)" % (
                          generator, m.nugget, "trace of the pointwise covariance" if vector else "pointwise variance", n_seeds, est, expect, se),
                      dict(case, est=est, expect=expect, se=se), key="variance:%s:%s:dim=%d" % (generator, meta.get("cls"), dim))
    if cov_expect is not None:
        c_est, c_se = float(prods.mean()), float(prods.std(ddof=1) / math.sqrt(n_seeds))
        if abs(c_est - cov_expect) > 8 * c_se + 0.02 * expect:
            ok = False
            ctx.violation(stage + " covariance",
                          "%s: covariance at lag 0.5 len_scale over %d seeds is %.4f, expected %.4f (se %.4f)" % (generator, n_seeds, c_est, cov_expect, c_se),
                          dict(case, est=c_est, expect=cov_expect, se=c_se), key="covariance:%s:%s:dim=%d" % (generator, meta.get("cls"), dim))
    return ok


def _gen_kwargs(rng, m, generator):
    if generator == "Fourier":
        L = 14.0 * m.len_scale * max([1.0] + list(m.anis))
        return dict(period=[L] * m.dim, mode_no=[16 if m.dim == 1 else 8] * m.dim)
    if generator == "VectorField":
        return dict(mode_no=64, mean_velocity=float(rng.uniform(0.5, 2.0)))
    return dict(mode_no=64)


def variance_probe(ctx, rng, n_seeds):
    """the pointwise-variance clause of the property for ALL THREE generators, nugget 0.25 and 2.5 (clearly different from
    0, 1 and their squares)"""
    import gstools as gs
    for generator in ("RandMeth", "Fourier", "VectorField"):
        for nugget in (0.25, 2.5):
            kind = ["Gaussian", "Exponential"][int(rng.integers(2))]
            dim = 2 if generator == "VectorField" else int(rng.integers(1, 3))
            m, meta = _model_for(rng, dim, kind)
            m.var = float(rng.uniform(0.3, 0.8))
            m.nugget = nugget
            meta.update(var=m.var, nugget=nugget)
            sill_probe(ctx, rng, m, meta, generator, _gen_kwargs(rng, m, generator), n_seeds, "probe: ensemble")


def probe_broken_configs(ctx, rng, broken, n_seeds):
    """a generator-level correspondence disagreement: before reporting a broken tie without input, run the
    variance / covariance ensemble on (up to 4 of) the very configurations that disagreed"""
    import gstools as gs
    seen, todo = set(), []
    for op, case in sorted(broken, key=lambda b: -float((b[1] or {}).get("nugget", 0) > 0)):
        if not isinstance(case, dict) or "cls" not in case or "generator" not in case:
            continue
        g = {"RandMeth": "RandMeth", "Fourier": "Fourier", "IncomprRandMeth": "VectorField"}.get(case["generator"])
        k = (g, case["cls"], case["dim"], case.get("nugget", 0) > 0)
        if g is None or k in seen:
            continue
        seen.add(k)
        todo.append((g, case))
    for g, case in todo[:4]:
        if g != "RandMeth" and case["dim"] == 3 and False:
            continue
        kw = dict(dim=case["dim"], var=case["var"], len_scale=case["len_scale"], nugget=case["nugget"])
        if case["dim"] > 1:
            kw.update(anis=case["anis"], angles=case["angles"])
        m = getattr(gs, case["cls"])(**kw)
        if g == "Fourier":
            gk = dict(period=case["period"], mode_no=case["mode_no"])
        elif g == "VectorField":
            gk = dict(mode_no=max(int(case["mode_no"]), 16), mean_velocity=case.get("mean_velocity", 1.0))
        else:
            gk = dict(mode_no=max(int(case["mode_no"]), 16))
        meta = {k: case[k] for k in ("cls", "dim", "var", "len_scale", "anis", "angles", "nugget")}
        S = n_seeds if m.has_ppf else max(100, n_seeds // 4)
        sill_probe(ctx, rng, m, meta, g, gk, S, "probe: ensemble on a configuration whose correspondence disagreed:")



# ----------------------------------------------------------------------------------------- option-pair cells
OPTION_VALUES = dict(rescale=2.3, len_scale=0.7)


def option_pairs(cls):
    """all pairs of documented non-default constructor options of a class: rescale, len_scale, optional arguments"""
    names = ["rescale", "len_scale"] + sorted(OPT_ARGS.get(cls, {}))
    vals = dict(OPTION_VALUES)
    vals.update(OPT_ARGS.get(cls, {}))
    return [tuple(sorted(((a, float(vals[a])), (b, float(vals[b]))))) for i, a in enumerate(names) for b in names[i + 1:]]


def option_cells(rng, armed_set, thorough):
    """RandMeth spectral cells (MCMC, mode_no 20000) for class x option pair, classes whose plain cells are armed in all
    dims.  Quick: one random pair per class + every pair that contains len_low (the TPL cut-off interacts with rescale)."""
    cells = []
    for cls in CLASSES:
        dims = [d for d in (1, 2, 3) if (cls, d, "mcmc", 20000) in armed_set]
        if len(dims) < 3:
            continue
        pairs = option_pairs(cls)
        if thorough:
            pick = pairs
        else:
            pick = [pairs[int(rng.integers(len(pairs)))]] + [pr for pr in pairs if any(k == "len_low" for k, _ in pr) and any(k == "rescale" for k, _ in pr)]
            pick = list(dict.fromkeys(pick))
        for pr in pick:
            cells.append((cls, int(rng.choice(dims)), "mcmc", 20000, ("opts", pr)))
    return cells


def periodized_cov(m, h, L, nmax=3000):
    """sum_n C(|h + n L|): the exact value of the FULL (untruncated) Fourier sum over the grid 2 pi Z / L (Poisson summation);
    3000 images: slowly decaying covariances (JBessel ~ sin(h)/h, Rational ~ h^-2a) are summed to < 1e-4 of the variance"""
    n = np.arange(-nmax, nmax + 1)
    return float(np.sum(m.covariance(np.abs(h + n * L))))


def fourier_exact_probe(ctx, rng, thorough):
    """deterministic, no Monte-Carlo: the covariance of a Fourier field is the finite sum  R(h) = sum_j sf_j^2 cos(k_j h)  over the
    implementation's mode grid and weights (C01_fourier_covariance).  In 1-D, for every class x option pair (and the defaults) and two
    small periods, it is compared with the periodised model covariance P(h) = sum_n C(h + n L), of which it is the truncation to
    |k| <= k_max:  spectrum >= 0  =>  0 <= P(0) - R(0) =: tail  and  |R(h) - P(h)| <= tail  at every lag.  The zero mode (k = 0 is
    on the grid) carries weight S(0) * delta_k, large for small periods."""
    import gstools as gs
    from gstools.field.generator import Fourier
    n = 0
    for cls in CLASSES:
        cl = getattr(gs, cls)
        if not cl(dim=1).check_dim(1):
            continue
        cfgs = [()] + option_pairs(cls)
        for pr in cfgs:
            kw = dict(dim=1, var=float(rng.uniform(0.5, 2.0)), len_scale=float(rng.uniform(0.8, 2.5)))
            kw.update(dict(pr))
            try:
                m = cl(**kw)
                for lfac in (4.0, 8.0):
                    ell = float(m.len_scale)
                    L = lfac * ell
                    M = 512 if lfac == 8.0 else 256        # k_max * len_scale = pi M / lfac ~ 200
                    g = Fourier(m, period=[L], mode_no=[M], seed=1)
                    w = np.asarray(g._spectrum_factor, dtype=float) ** 2
                    km = np.asarray(g._modes, dtype=float)[0]
                    hs = np.array([0.0, 0.2 * ell, 0.7 * ell, L / 4, L / 2])
                    R = np.array([float((w * np.cos(km * h)).sum()) for h in hs])
                    P = np.array([periodized_cov(m, h, L) for h in hs])
                    n += 1
                    ctx.count(("fourier-exact", cls, pr, lfac), hist=dict(fexact_class=cls, fexact_options="+".join(k for k, _ in pr) or "defaults"))
                    tail = P[0] - R[0]
                    tol = 0.004 * m.var
                    bad = None
                    if not np.isfinite(R).all() or not np.isfinite(w).all() or (w < 0).any():
                        bad = "weights / covariance sum not finite or negative"
                    elif tail < -tol:
                        bad = "pointwise variance of the Fourier field sum_j sf_j^2 = %.5f exceeds the periodised model variance %.5f" % (R[0], P[0])
                    elif tail > 0.3 * m.var:
                        bad = "the mode grid up to |k| len_scale = %.0f carries only %.4f of the periodised variance %.4f" % (math.pi * M / lfac, R[0], P[0])
                    elif np.any(np.abs(R - P) > abs(tail) + tol):
                        i = int(np.argmax(np.abs(R - P)))
                        bad = "covariance of the Fourier field at lag %.3f is %.5f, periodised model covariance %.5f (truncated spectral mass %.5f)" % (hs[i], R[i], P[i], tail)
                    if bad:
                        ctx.violation("probe: Fourier exact covariance", "%s(%s), period %.4g, mode_no %d: %s" % (cls, kw, L, M, bad),
                                      dict(cls=cls, kwargs=kw, period=L, mode_no=M, lags=hs.tolist(), fourier_sum=R.tolist(), periodised_model=P.tolist(),
                                           zero_mode_weight=float(w[np.argmin(np.abs(km))])),
                                      key="fourier-exact:%s:%s" % (cls, "+".join(k for k, _ in pr) or "defaults"))
                        break
            except Exception as e:
                ctx.violation("probe: Fourier exact covariance", "%s(%s): %s: %s" % (cls, kw, type(e).__name__, str(e)[:200]),
                              dict(cls=cls, kwargs=kw), key="fourier-exact:%s:%s:exception" % (cls, "+".join(k for k, _ in pr)))
    return n


# ----------------------------------------------------------------------------------------- SRF operation histories
GEN_NAMES = ("RandMeth", "Fourier", "VectorField")


def _gen_state_kw(srf, gname):
    g = srf.generator
    if gname == "Fourier":
        return dict(period=[float(x) for x in g.period], mode_no=[int(x) for x in g.mode_no])
    kw = dict(mode_no=int(g.mode_no), sampling=g.sampling)
    if gname == "VectorField":
        kw["mean_velocity"] = float(g.mean_u)
    return kw


def fresh_field(srf, gname):
    """what a NEWLY built SRF with the present parameter values (model, mean, generator settings, seed) returns on the present positions"""
    import gstools as gs
    f = gs.SRF(fresh_like(srf.model), mean=srf.mean, generator=gname, seed=srf.generator.seed, **_gen_state_kw(srf, gname))
    return np.asarray(f(srf.pos, mesh_type=srf.mesh_type), dtype=float)


def _rand_pos(rng, dim):
    if rng.random() < 0.3:
        return [np.sort(rng.uniform(-10, 10, size=int(rng.integers(2, 4)))) for _ in range(dim)], "structured"
    n = int(rng.integers(2, 7))
    return [rng.uniform(-10, 10, size=n) for _ in range(dim)], "unstructured"


def _hist_model(rng, dim, kind):
    import gstools as gs
    kw = dict(dim=dim, var=float(rng.uniform(0.5, 2.0)), len_scale=float(rng.uniform(1.0, 4.0)))
    if dim > 1:
        kw.update(anis=[float(x) for x in rng.uniform(0.3, 0.9, size=dim - 1)],
                  angles=[float(x) for x in rng.uniform(-1.5, 1.5, size=dim * (dim - 1) // 2)])
    kw.update(OPT_ARGS.get(kind, {}))
    return getattr(gs, kind)(**kw)


CHANGE_KINDS = ("var", "len_scale", "len_scale_list", "anis", "angles", "rescale", "opt_arg", "replace_model", "mean",
                "gen_mode_no", "gen_period", "gen_seed", "set_pos")
CALL_KINDS = ("stored_pos_new_seed", "stored_pos_keep_seed", "new_pos_keep_seed", "new_pos_new_seed", "stored_pos_close_seed")


def apply_change(rng, srf, gname, kind, st):
    """one public, documented way of changing the object after construction; returns a description or None if not applicable"""
    m = srf.model
    dim = m.dim
    if kind == "var":
        m.var = float(rng.uniform(0.3, 3.0)); return "srf.model.var = %r" % m.var
    if kind == "len_scale":
        m.len_scale = float(rng.uniform(0.8, 5.0)); return "srf.model.len_scale = %r" % m.len_scale
    if kind == "len_scale_list" and dim > 1:
        v = [float(x) for x in rng.uniform(0.8, 5.0, size=dim)]
        m.len_scale = v; return "srf.model.len_scale = %r" % v
    if kind == "anis" and dim > 1:
        v = [float(x) for x in rng.uniform(0.2, 1.5, size=dim - 1)]
        m.anis = v; return "srf.model.anis = %r" % v
    if kind == "angles" and dim > 1:
        v = [float(x) for x in rng.uniform(-3.0, 3.0, size=dim * (dim - 1) // 2)]
        m.angles = v; return "srf.model.angles = %r" % v
    if kind == "rescale":
        m.rescale = float(rng.uniform(0.5, 2.5)); return "srf.model.rescale = %r" % m.rescale
    if kind == "opt_arg" and m.opt_arg:
        k = m.opt_arg[0]
        v = float(OPT_ARGS[m.name][k] * rng.uniform(0.8, 1.2))
        setattr(m, k, v); return "srf.model.%s = %r" % (k, v)
    if kind == "replace_model":
        new = _hist_model(rng, dim, st["kinds"][int(rng.integers(len(st["kinds"])))])
        srf.model = new; return "srf.model = %r" % new
    if kind == "mean" and gname != "VectorField":
        srf.mean = float(rng.normal()); return "srf.mean = %r" % srf.mean
    if kind == "gen_mode_no":
        if gname == "Fourier":
            v = [int(rng.choice([4, 6, 8]))] * dim
        else:
            v = int(rng.choice([5, 9, 14]))
        srf.generator.mode_no = v; return "srf.generator.mode_no = %r" % (v,)
    if kind == "gen_period" and gname == "Fourier":
        v = [float(rng.uniform(15, 40))] * dim
        srf.generator.period = v; return "srf.generator.period = %r" % v
    if kind == "gen_seed":
        v = int(rng.integers(10 ** 6, 10 ** 9))
        srf.generator.seed = v; return "srf.generator.seed = %r" % v
    if kind == "set_pos":
        pos, mt = _rand_pos(rng, dim)
        srf.set_pos(pos, mt); return "srf.set_pos(%s, %r)" % ([p.tolist() for p in pos], mt)
    return None


def do_call(rng, srf, kind):
    dim = srf.model.dim
    if kind.startswith("new_pos"):
        pos, mt = _rand_pos(rng, dim)
        parg, desc = dict(pos=pos, mesh_type=mt), "pos=%s, mesh_type=%r" % ([p.tolist() for p in pos], mt)
    else:
        parg, desc = dict(), "pos=None"
    if kind.endswith("new_seed"):
        sd = int(rng.integers(10 ** 6, 10 ** 9))
        parg["seed"] = sd; desc += ", seed=%d" % sd
    elif kind.endswith("close_seed"):
        # a new seed whose VALUE is close to the present one (relative difference 1e-9..1e-7)
        sd = int(srf.generator.seed) + 1
        parg["seed"] = sd; desc += ", seed=%d" % sd
    out = np.asarray(srf(**parg), dtype=float)
    return out, "srf(%s)" % desc


def run_history(ctx, rng, gname, kind, dim, steps, label):
    """steps: list of ("change", kind) / ("call", kind).  After every call the returned field must equal the field of a fresh SRF
    built from the present parameters (same seed) on the present positions."""
    import gstools as gs
    st = dict(kinds=["Gaussian", "Exponential", kind])
    m = _hist_model(rng, dim, kind)
    m0 = repr(m)
    if gname == "Fourier":
        gk = dict(period=[float(rng.uniform(15, 40))] * dim, mode_no=[int(rng.choice([4, 6]))] * dim)
    elif gname == "VectorField":
        gk = dict(mode_no=int(rng.choice([6, 11])), mean_velocity=float(rng.uniform(0.5, 2.0)))
    else:
        gk = dict(mode_no=int(rng.choice([6, 11])))
    seed0 = int(rng.integers(10 ** 6, 10 ** 9))
    srf = gs.SRF(m, generator=gname, seed=seed0, **gk)
    pos, mt = _rand_pos(rng, dim)
    log = ["srf = SRF(%s, generator=%r, seed=%d, **%r)" % (m0, gname, seed0, gk)]
    out = np.asarray(srf(pos, mesh_type=mt), dtype=float)
    log.append("srf(pos=%s, mesh_type=%r)" % ([p.tolist() for p in pos], mt))
    n_cmp = 0
    for what, k in [("check", None)] + list(steps):
        if what == "change":
            d = apply_change(rng, srf, gname, k, st)
            if d:
                log.append(d)
            continue
        if what == "call":
            out, d = do_call(rng, srf, k)
            log.append(d)
        ref = fresh_field(srf, gname)
        n_cmp += 1
        scale = float(np.max(np.abs(ref))) + math.sqrt(float(srf.model.var)) + 1e-300
        if out.shape != ref.shape or not np.all(np.abs(out - ref) <= 1e-9 * scale):
            ctx.violation("probe: SRF operation history",
                          "%s / %s dim %d: after [%s] the field returned by the object differs from the field of a freshly built SRF with the "
                          "present parameters and seed on the same positions (max |diff| %.3g, field scale %.3g) — the generated field is not a "
                          "function of the present model: its covariance is not the present model's" % (
                              gname, kind, dim, "; ".join(log[-3:]), float(np.max(np.abs(out - ref))) if out.shape == ref.shape else float("nan"), scale),
                          dict(generator=gname, cls=kind, dim=dim, history=log, object_field=out.ravel().tolist(), fresh_field=ref.ravel().tolist(),
                               present_model=repr(srf.model), present_seed=int(srf.generator.seed)),
                          key="srf-history:%s:%s" % (gname, label))
            return n_cmp, False
    return n_cmp, True


def srf_history_probe(ctx, rng, thorough):
    """(i) systematically every 3-step history  call(pos); <one change>; <one call variant>  for the three generators,
    (ii) random longer histories mixing all operations"""
    n_h = n_c = 0
    kinds = ["Gaussian", "Exponential", "Matern", "TPLGaussian", "Stable"]
    reported = set()
    for gname in GEN_NAMES:
        for ck in CHANGE_KINDS:
            for call in CALL_KINDS:
                dim = 2 if (gname == "VectorField" or rng.random() < 0.7) else int(rng.choice([1, 3]))
                kind = kinds[int(rng.integers(2 if (gname == "VectorField" or dim == 3) else len(kinds)))]
                label = "%s;%s" % (ck, call)
                if (gname, ck) in reported:
                    continue
                c, ok = run_history(ctx, rng, gname, kind, dim, [("change", ck), ("call", call)], label)
                ctx.count(("srf-history", gname, ck, call), hist=dict(history_generator=gname, history_change=ck, history_call=call))
                n_h += 1; n_c += c
                if not ok:
                    reported.add((gname, ck))
    for it in range(120 if thorough else 36):
        gname = GEN_NAMES[it % 3]
        dim = 2 if gname == "VectorField" else int(rng.choice([1, 2, 2, 3]))
        kind = kinds[int(rng.integers(2 if (gname == "VectorField" or dim == 3) else len(kinds)))]
        steps = []
        for _ in range(int(rng.integers(4, 9))):
            if rng.random() < 0.6:
                steps.append(("change", CHANGE_KINDS[int(rng.integers(len(CHANGE_KINDS)))]))
            else:
                steps.append(("call", CALL_KINDS[int(rng.integers(len(CALL_KINDS)))]))
        steps.append(("call", CALL_KINDS[int(rng.integers(len(CALL_KINDS)))]))
        c, ok = run_history(ctx, rng, gname, kind, dim, steps, "random")
        ctx.count(("srf-history-random", gname, kind, dim, len(steps)), hist=dict(history_generator=gname, history_change="random sequence"))
        n_h += 1; n_c += c
    return n_h, n_c



# ----------------------------------------------------------------------------------------- upscaling + entry points
def _pv_variants(rng, n, shape):
    """point_volumes in the input classes a caller passes: python float / int, numpy scalar, 0-d array, per-point array"""
    v = float(rng.uniform(0.05, 30.0))
    return [("float", v), ("int", int(rng.integers(1, 9))), ("np.float64", np.float64(v)), ("0-d array", np.array(v)),
            ("array", rng.uniform(0.05, 30.0, size=shape)), ("float32 array", rng.uniform(0.05, 30.0, size=shape).astype(np.float32))]


def corr_upscaling(ctx, drv, rng, n_cases, broken):
    """SRF.__call__(pos, point_volumes=V) with upscaling 'no_scaling' / 'coarse_graining', nugget on/off, all generators:
    two fresh objects with the same seed, one called without and one with point_volumes; expected
    with = (without - mean) * upscale_factor(scaled_var) + mean, scaled_var from the extracted model; 'no_scaling' must return
    the very same field (C01_no_scaling_identity)"""
    import gstools as gs
    gens = ["RandMeth", "Fourier", "VectorField"]
    for it in range(n_cases):
        gname = gens[it % 3]
        dim = 2 if gname == "VectorField" else int(rng.integers(1, 4))
        kind = ["Gaussian", "Exponential"][int(rng.integers(2))]
        m, meta = _model_for(rng, dim, kind)
        m.nugget = float([0.0, rng.uniform(0.2, 1.5)][it // 3 % 2])
        meta["nugget"] = m.nugget
        ups = ["no_scaling", "coarse_graining"][int(rng.integers(2)) if m.nugget == 0 else it % 2]
        mean = 0.0 if gname == "VectorField" else float(rng.choice([0.0, rng.normal() * 2]))
        gk = _gen_kwargs(rng, m, gname)
        gk["mode_no"] = [4] * dim if gname == "Fourier" else 12
        seed = int(rng.integers(1, 2 ** 31 - 1))
        structured = bool(rng.random() < 0.3)
        if structured:
            pos = [np.sort(rng.uniform(-10, 10, size=int(rng.integers(1, 4)))) for _ in range(dim)]
            shape = tuple(len(p) for p in pos)
            mt = "structured"
        else:
            npt = int(rng.choice([1, 2, 6]))
            pos = [rng.uniform(-10, 10, size=npt) for _ in range(dim)]
            shape = (npt,)
            mt = "unstructured"
        ref = np.asarray(gs.SRF(m, mean=mean, generator=gname, seed=seed, upscaling=ups, **gk)(pos, mesh_type=mt), dtype=float)
        for tag, pv in _pv_variants(rng, int(np.prod(shape)), shape):
            case = dict(meta, generator=gname, generator_kwargs={k: (v if np.isscalar(v) else list(map(float, v))) for k, v in gk.items()},
                        seed=seed, mean=mean, upscaling=ups, mesh_type=mt, pos=[p.tolist() for p in pos],
                        point_volumes_class=tag, point_volumes=np.asarray(pv, dtype=float).tolist())
            ctx.count(("upscaling", gname, ups, tag, m.nugget > 0, mt), hist=dict(upscaling=ups, upscaling_pv=tag, corr_generator=gname))
            try:
                import warnings
                with warnings.catch_warnings():
                    warnings.simplefilter("ignore")
                    out = np.asarray(gs.SRF(m, mean=mean, generator=gname, seed=seed, upscaling=ups, **gk)(pos, mesh_type=mt, point_volumes=pv), dtype=float)
            except Exception as e:
                ctx.violation("probe: upscaling entry", "SRF(generator=%r, upscaling=%r)(pos, point_volumes=<%s>) raised %s: %s" % (
                    gname, ups, tag, type(e).__name__, str(e)[:160]), case,
                    key="upscaling:%s:%s:%s:%s" % (ups, gname, "per-point point_volumes" if "array" in tag and tag != "0-d array" else tag, type(e).__name__))
                continue
            pvs = np.broadcast_to(np.asarray(pv, dtype=float), shape).ravel()
            if ups == "no_scaling":
                sv = np.array([drv.call("var_no_scaling", float(m.var), float(m.nugget))] * pvs.size)
            else:
                sv = np.array([drv.call("var_coarse_graining", ("z", dim), float(m.len_scale), float(m.var), float(m.nugget), float(x)) for x in pvs])
            fac = np.array([drv.call("upscale_factor", float(x), float(m.var), float(m.nugget)) for x in sv]).reshape(shape)
            expect = (ref - mean) * fac + mean
            scale = float(np.max(np.abs(ref))) + abs(mean) + 1e-300
            # float32 volumes are raised to 1/dim in single precision by numpy: 2^-23 relative on the factor
            tol = 4e-7 if "float32" in tag and ups == "coarse_graining" else 1e-13
            if out.shape != ref.shape or not np.all(np.abs(out - expect) <= tol * scale):
                what = ("upscaling 'no_scaling' changed the field" if ups == "no_scaling" else "coarse-graining factor differs from sill*(l^2/(l^2+edge^2/4))^(d/2)")
                case.update(field_without=ref.ravel().tolist(), field_with=out.ravel().tolist(), expected=expect.ravel().tolist())
                i0 = int(np.argmax(np.abs(out - expect)))
                ratio = float((out.ravel()[i0] - mean) / (ref.ravel()[i0] - mean if ref.ravel()[i0] != mean else 1.0))
                ctx.violation("probe: upscaling entry",
                              "%s, %s, nugget %.3g, point_volumes (%s): %s — field with point_volumes / field without = %.6g, model factor %.6g; "
                              "pointwise variance is %.4g x (var + nugget) instead of %.4g x" % (
                                  gname, ups, m.nugget, tag, what, ratio, float(fac.ravel()[i0]), ratio ** 2, float(fac.ravel()[i0]) ** 2),
                              case, key="upscaling:%s:%s:nugget%s" % (ups, gname, ">0" if m.nugget > 0 else "=0"))
                break


def _tri_mesh(rng, dim):
    import meshio
    n = int(rng.integers(4, 8))
    pts = rng.uniform(-10, 10, size=(n, dim))
    if dim == 1:
        cells = [("line", np.array([[i, i + 1] for i in range(n - 1)]))]
    elif dim == 2:
        cells = [("triangle", np.array([[i, i + 1, i + 2] for i in range(n - 2)])), ("line", np.array([[0, n - 1]]))]
    else:
        cells = [("tetra", np.array([[i, i + 1, i + 2, i + 3] for i in range(n - 3)]))]
    return meshio.Mesh(pts, cells)


def corr_entry_points(ctx, rng, n_cases, broken):
    """rarely used public entry points give the field of the plain call on the same points (fresh objects, same seed):
    srf.structured / srf.unstructured, srf.mesh(meshio mesh, points='points' / 'centroids', direction, point_volumes)"""
    import gstools as gs
    for it in range(n_cases):
        dim = int(rng.integers(1, 4))
        kind = ["Gaussian", "Exponential"][it % 2]
        m, meta = _model_for(rng, dim, kind)
        seed = int(rng.integers(1, 2 ** 31 - 1))
        mk = lambda: gs.SRF(m, mean=0.3, mode_no=10, seed=seed)
        ax = [np.sort(rng.uniform(-5, 5, size=int(rng.integers(1, 4)))) for _ in range(dim)]
        pts = [rng.uniform(-5, 5, size=4) for _ in range(dim)]
        checks = [("structured()", lambda: mk().structured(ax), lambda: mk()(ax, mesh_type="structured")),
                  ("unstructured()", lambda: mk().unstructured(pts), lambda: mk()(pts, mesh_type="unstructured")),
                  ("structured(pos=)", lambda: mk().structured(pos=ax), lambda: mk()(ax, mesh_type="structured"))]
        mesh = _tri_mesh(rng, dim)
        direction = "all" if rng.random() < 0.5 else "xyz"[:dim]
        pv = float(rng.uniform(0.5, 5))
        for points in ("points", "centroids"):
            if points == "points":
                pnts = mesh.points.T
            else:
                pnts = np.hstack([mesh.points[c.data].mean(axis=1).T for c in mesh.cells])
            def via_mesh(points=points):
                s = mk()
                s.mesh(mesh, points=points, direction=direction, name="f", point_volumes=pv)
                data = mesh.point_data["f"] if points == "points" else np.concatenate([np.ravel(a) for a in mesh.cell_data["f"]])
                return np.asarray(data, dtype=float)
            checks.append(("mesh(points=%r, direction=%r, point_volumes)" % (points, direction), via_mesh,
                           lambda pnts=pnts: mk()([pnts[d] for d in range(dim)], point_volumes=pv)))
        for name, f_entry, f_plain in checks:
            ctx.count(("entry", name.split("(")[0], dim), hist=dict(entry_point=name.split("(")[0] + ("(" + name.split("(")[1].split(",")[0] if "mesh" in name else "")))
            case = dict(meta, entry=name, seed=seed, axes=[a.tolist() for a in ax], points=[p.tolist() for p in pts], mesh_points=mesh.points.tolist())
            try:
                a = np.asarray(f_entry(), dtype=float)
                b = np.asarray(f_plain(), dtype=float)
            except Exception as e:
                broken.append(("SRF.%s raised %s: %s" % (name, type(e).__name__, str(e)[:150]), case))
                continue
            if a.shape != b.shape or not np.all(np.abs(a - b) <= 1e-12 * (np.max(np.abs(b)) + 1e-300)):
                ctx.violation("probe: entry point", "SRF.%s differs from the plain call on the same points (fresh objects, same seed): %s vs %s" % (
                    name, a.ravel()[:4].tolist(), b.ravel()[:4].tolist()), dict(case, entry_field=a.ravel().tolist(), plain_field=b.ravel().tolist()),
                    key="entry:%s" % name.split("(")[0])



def mesh_direction_probe(ctx, rng, thorough):
    """SRF.mesh(mesh, direction=...) on a mesh with 3-D point coordinates: for EVERY ordered selection of `dim` mesh axes — as a
    string of letters in every order ("zx", "yx", "zyx", ...) and as an index list ([2, 0], ...) — and anisotropic, rotated models,
    the field written to the mesh must equal the plain call on the selected coordinates IN THE GIVEN ORDER (fresh objects, same
    seed; deterministic, 1e-12).  points='points' and 'centroids', scalar and vector fields.  Documented rejections (duplicate letter,
    unknown letter, fewer directions than model dimensions) must raise ValueError."""
    import itertools
    import meshio
    import gstools as gs
    n = 0
    for dim in (1, 2, 3):
        for gname in ("RandMeth", "VectorField") if dim > 1 else ("RandMeth",):
            kind = ["Gaussian", "Exponential"][int(rng.integers(2))]
            kw = dict(dim=dim, var=float(rng.uniform(0.5, 2.0)), len_scale=float(rng.uniform(2.0, 6.0)))
            if dim > 1:
                # strongly anisotropic and rotated: a permutation of the axes changes every value
                kw.update(anis=[float(x) for x in rng.uniform(0.1, 0.4, size=dim - 1)], angles=[float(x) for x in rng.uniform(0.3, 1.2, size=dim * (dim - 1) // 2)])
            m = getattr(gs, kind)(**kw)
            seed = int(rng.integers(1, 2 ** 31 - 1))
            npt = int(rng.integers(5, 9))
            pts3 = rng.uniform(-8, 8, size=(npt, 3))
            mesh = meshio.Mesh(pts3, [("tetra", np.array([[i, i + 1, i + 2, i + 3] for i in range(npt - 3)])), ("triangle", np.array([[0, 2, 4]]))])
            cent = np.vstack([pts3[c.data].mean(axis=1) for c in mesh.cells])
            mk = lambda: gs.SRF(m, generator=gname, mode_no=10, seed=seed)
            sels = list(itertools.permutations(range(3), dim))
            if not thorough and len(sels) > 4:
                # quick: all NON-alphabetical orders would be 3 (dim 2) / 5 (dim 3): take every selection for dim 2, 4 of 6 for dim 3
                sels = sels if dim == 2 else [sels[i] for i in rng.permutation(len(sels))[:4]]
            for sel in sels:
                for form in ("letters", "indices"):
                    direction = "".join("xyz"[i] for i in sel) if form == "letters" else list(sel)
                    for points in ("points", "centroids"):
                        src = pts3 if points == "points" else cent
                        n += 1
                        ctx.count(("mesh-direction", dim, gname, sel, form, points), hist=dict(mesh_direction="".join("xyz"[i] for i in sel), mesh_direction_form=form))
                        case = dict(cls=kind, model_kwargs=kw, generator=gname, seed=seed, direction=direction, points=points, mesh_points=pts3.tolist())
                        try:
                            srf = mk()
                            srf.mesh(mesh, points=points, direction=direction, name="f")
                            if points == "points":
                                got = np.asarray(mesh.point_data["f"], dtype=float)
                            else:
                                got = np.concatenate([np.asarray(a, dtype=float) for a in mesh.cell_data["f"]])
                            if gname == "VectorField":
                                got = got.T          # mesh data of vector fields are stored point-major
                            ref = np.asarray(mk()([src[:, i] for i in sel]), dtype=float)
                        except Exception as e:
                            ctx.violation("probe: mesh direction", "SRF.mesh(direction=%r, points=%r) raised %s: %s" % (direction, points, type(e).__name__, str(e)[:160]),
                                          case, key="mesh-direction:%s:exception" % form)
                            continue
                        if got.shape != ref.shape or not np.all(np.abs(got - ref) <= 1e-12 * (np.max(np.abs(ref)) + 1e-300)):
                            ctx.violation("probe: mesh direction",
                                          "%s / %s(%s): srf.mesh(mesh, points=%r, direction=%r) differs from srf((coordinates %s of the mesh %s, in this order)) for the "
                                          "same seed: %s vs %s — the anisotropy axes of the field lie along the wrong mesh axes" % (
                                              gname, kind, kw, points, direction, list(sel), points, got.ravel()[:3].tolist(), ref.ravel()[:3].tolist()),
                                          dict(case, mesh_field=got.ravel().tolist(), plain_field=ref.ravel().tolist()),
                                          key="mesh-direction:%s:dim=%d" % (form, dim))
                            break
            # documented rejections
            for bad in (["xx", "xyy", "xa", "", "xyzx"] + (["x"] if dim > 1 else []) + (["xy"] if dim > 2 else [])):
                n += 1
                ctx.count(("mesh-direction-reject", dim, bad), hist=dict(mesh_direction="reject:" + bad))
                try:
                    mk().mesh(mesh, points="points", direction=bad, name="f")
                    ctx.violation("probe: mesh direction", "SRF.mesh(direction=%r) on a %d-D model did not raise the documented ValueError" % (bad, dim),
                                  dict(cls=kind, model_kwargs=kw, direction=bad), key="mesh-direction:reject:%s" % bad)
                except ValueError:
                    pass
                except Exception as e:
                    ctx.violation("probe: mesh direction", "SRF.mesh(direction=%r) raised %s instead of ValueError: %s" % (bad, type(e).__name__, str(e)[:120]),
                                  dict(cls=kind, model_kwargs=kw, direction=bad), key="mesh-direction:reject:%s:%s" % (bad, type(e).__name__))
    return n


# ----------------------------------------------------------------------------------------- scale equivariance
ARMED_SCALES = (-20, -10, 10, 14)          # L = 2^e: exact in floating point; 2^-20 ~ 1e-6, 2^14 ~ 1.6e4
BROKEN_SCALES = (20, 27)                   # known finding: absolute |k| < 1e-8 masks (spectral_rad_pdf, Integral, HyperSpherical, hankel)
ANALYTIC = ("Gaussian", "Exponential", "Matern", "Integral", "HyperSpherical", "JBessel", "TPLGaussian", "TPLExponential")


def _scaled_model(cls, dim, L, opts, **kw):
    import gstools as gs
    o = dict(opts)
    if "len_low" in o:
        o["len_low"] = o["len_low"] * L
    return getattr(gs, cls)(dim=dim, len_scale=1.5 * L, **o, **kw)


def spectral_scale_errors(cls, dim, e, opts):
    """relative errors of  S_L(k/L) = L^d S_1(k),  pdf_L(k/L) = L pdf_1(k),  cdf_L(r/L) = cdf_1(r),  L ppf_L(u) = ppf_1(u)  for L = 2^e"""
    L = 2.0 ** e
    m1, mL = _scaled_model(cls, dim, 1.0, opts), _scaled_model(cls, dim, L, opts)
    kg = np.array([0.0, 1e-3, 0.03, 0.3, 1.0, 3.0, 10.0] if cls in ANALYTIC else [1e-3, 0.03, 0.3, 1.0, 3.0, 10.0])
    out = {}
    for fn, sc in (("spectral_density", L ** dim), ("spectral_rad_pdf", L), ("spectrum", L ** dim)):
        a = np.asarray(getattr(mL, fn)(kg / L), dtype=float)
        b = np.asarray(getattr(m1, fn)(kg), dtype=float) * sc
        out[fn] = (float(np.max(np.abs(a - b)) / max(np.max(np.abs(b)), 1e-300)), kg.tolist(), a.tolist(), b.tolist())
    if m1.has_cdf:
        a, b = np.asarray(mL.spectral_rad_cdf(kg / L), dtype=float), np.asarray(m1.spectral_rad_cdf(kg), dtype=float)
        out["spectral_rad_cdf"] = (float(np.max(np.abs(a - b))), kg.tolist(), a.tolist(), b.tolist())
    if m1.has_ppf:
        u = np.array([0.0, 1e-9, 0.01, 0.5, 0.99, 1 - 1e-9])
        a, b = np.asarray(mL.spectral_rad_ppf(u), dtype=float) * L, np.asarray(m1.spectral_rad_ppf(u), dtype=float)
        ok = np.isfinite(b)
        err = float(np.max(np.abs(a[ok] - b[ok]) / np.maximum(np.abs(b[ok]), 1e-300))) if (np.isfinite(a) == ok).all() else float("inf")
        out["spectral_rad_ppf"] = (err, u.tolist(), a.tolist(), b.tolist())
    return out


def scale_probe(ctx, rng, thorough):
    """exact scale equivariance (C01_randmeth_scale_equivariant, C01_spectral_scaling, C01_radial_distribution_scaling), deterministic:
    (i) spectral functions of model(len_scale L l) at k / L against model(len_scale l) at k, L = 2^e, all classes x valid dims;
    (ii) fields: SRF(model(L l), seed)(L pos) == SRF(model(l), seed)(pos) for the analytic-spectrum classes, three generators."""
    import gstools as gs
    n = 0
    known_bad = []
    for cls in CLASSES:
        reported = False
        for dim in (1, 2, 3):
            if not getattr(gs, cls)(dim=dim).check_dim(dim):
                continue
            for opts in ({}, OPT_ARGS.get(cls, {})) if OPT_ARGS.get(cls) else ({},):
                for e in ARMED_SCALES + (BROKEN_SCALES if cls in ANALYTIC else ()):
                    if reported:
                        continue
                    res = spectral_scale_errors(cls, dim, e, opts)
                    n += 1
                    ctx.count(("scale-spectral", cls, dim, e, bool(opts)), hist=dict(scale_class=cls, scale_exponent=e))
                    for fn, (err, arg, a, b) in res.items():
                        if not err <= 1e-12:
                            if e in BROKEN_SCALES:
                                known_bad.append((cls, dim, e, fn, err))
                                continue
                            ctx.violation("probe: scale equivariance",
                                          "%s(dim=%d, %s): %s of the model with len_scale 2^%d * 1.5 at k / 2^%d differs from the scaled value of the model with "
                                          "len_scale 1.5 at k (relative %.3g): %s vs %s at %s" % (cls, dim, opts, fn, e, e, err, a, b, arg),
                                          dict(cls=cls, dim=dim, opts=opts, exponent=e, function=fn, arg=arg, scaled_model=a, reference=b),
                                          key="scale-equivariance:%s:%s" % (cls, fn))
                            reported = True
                            break
    if known_bad:
        c = known_bad[0]
        ctx.violation("probe: scale equivariance",
                      "absolute zero masks |k| < 1e-8: %d (class, dim, L, function) cases with len_scale >= 2^20 are not scale equivariant, e.g. %s dim %d "
                      "L = 2^%d %s relative error %.3g" % (len(known_bad), c[0], c[1], c[2], c[3], c[4]),
                      dict(cases=[list(map(str, x)) for x in known_bad[:40]]), key="scale-equivariance:absolute-zero-mask-1e-8:len_scale>=2^20")
    # (ii) fields
    n_f = 0
    for cls in ANALYTIC:
        dims = [2, 3] if rng.random() < 0.8 else [1]
        dim = int(rng.choice(dims))
        scales = ARMED_SCALES if thorough else (14, int(rng.choice([-20, -10, 10])))
        for gname in GEN_NAMES:
            if gname == "VectorField" and dim == 1:
                continue
            opts = OPT_ARGS.get(cls, {}) if rng.random() < 0.5 else {}
            kw = dict(var=float(rng.uniform(0.5, 2)), nugget=float(rng.choice([0.0, 0.3])))
            if dim > 1:
                kw.update(anis=[float(x) for x in rng.uniform(0.4, 1.2, size=dim - 1)], angles=[float(x) for x in rng.uniform(-1, 1, size=dim * (dim - 1) // 2)])
            seed = int(rng.integers(1, 2 ** 31 - 1))
            pos = rng.uniform(-6, 6, size=(dim, 5))
            period = float(rng.uniform(12, 25))

            def field(L):
                m = _scaled_model(cls, dim, L, opts, **kw)
                if gname == "Fourier":
                    gk = dict(period=[period * L] * dim, mode_no=[6] * dim)
                elif gname == "VectorField":
                    gk = dict(mode_no=20, mean_velocity=0.7)
                else:
                    gk = dict(mode_no=20)
                return np.asarray(gs.SRF(m, generator=gname, seed=seed, **gk)([L * pos[d] for d in range(dim)]), dtype=float)
            ref = field(1.0)
            for e in scales:
                out = field(2.0 ** e)
                n_f += 1
                ctx.count(("scale-field", cls, dim, gname, e), hist=dict(scale_class=cls, scale_exponent=e, scale_generator=gname))
                sc = float(np.max(np.abs(ref))) + 1e-300
                if out.shape != ref.shape or not np.all(np.abs(out - ref) <= 1e-9 * sc):
                    ctx.violation("probe: scale equivariance",
                                  "%s / %s(dim=%d, %s, %s): SRF(model with len_scale 1.5 * 2^%d, seed=%d) on positions 2^%d * x differs from SRF(model with "
                                  "len_scale 1.5, same seed) on x: %s vs %s — the generated field (hence its covariance) is not the scaled one" % (
                                      gname, cls, dim, opts, kw, e, seed, e, out.ravel()[:4].tolist(), ref.ravel()[:4].tolist()),
                                  dict(cls=cls, dim=dim, opts=opts, model_kwargs=kw, generator=gname, seed=seed, exponent=e, pos=pos.tolist(),
                                       scaled_field=out.ravel().tolist(), reference_field=ref.ravel().tolist()),
                                  key="scale-equivariance:field:%s:%s" % (gname, cls))
                    break
    return n, n_f



# ----------------------------------------------------------------------------------------- sampling options
def sampling_cells(rng, armed_set, thorough):
    """sampling in {'auto', 'inversion', 'mcmc'} x class x dim where available, beyond the plain ppf / mcmc cells:
    'cdf' = sampling='inversion' for models with an analytic cdf but no ppf (Gaussian / Exponential in 3-D: scipy inverts the cdf),
    'auto' wherever the path it selects is armed, 'pdfinv' = sampling='inversion' with the pdf only (scipy integrates and inverts; slow:
    thorough only, 300 modes)"""
    import gstools as gs
    cells = []
    for cls in CLASSES:
        for dim in (1, 2, 3):
            m = getattr(gs, cls)(dim=dim)
            if not m.check_dim(dim):
                continue
            if m.has_cdf and not m.has_ppf:
                cells.append((cls, dim, "cdf", 1000))
                if thorough:
                    cells.append((cls, dim, "cdf", 20000))
            sel = "ppf" if m.has_ppf else "mcmc"
            if (cls, dim, sel, 1000) in armed_set:
                cells.append((cls, dim, "auto", 1000))
    if thorough:
        cls = ANALYTIC[int(rng.integers(2, len(ANALYTIC)))]
        cells.append((cls, int(rng.integers(1, 4)), "pdfinv", 300))
    else:
        auto = [c for c in cells if c[2] == "auto"]
        cells = [c for c in cells if c[2] != "auto"] + [auto[i] for i in rng.permutation(len(auto))[:8]]
    return cells


def radial_dist_probe(ctx, rng):
    """deterministic: for every class / dim that defines them, spectral_rad_cdf is the integral of spectral_rad_pdf (scipy quad, 1e-7),
    starts at 0, is monotone and tends to 1; ppf(cdf(r)) = r and cdf(ppf(u)) = u (1e-9); for the analytic-spectrum classes the pdf
    integrates to 1 (1e-4).  (C04 proves the pairs for its translated formulas; here the implementation is evaluated.)"""
    import gstools as gs
    from scipy import integrate
    n = 0
    for cls in CLASSES:
        for dim in (1, 2, 3):
            cl = getattr(gs, cls)
            if not cl(dim=dim).check_dim(dim):
                continue
            for opts in ({}, dict(rescale=2.3, len_scale=0.7)):
                m = cl(dim=dim, **opts)
                ell = float(m.len_rescaled)
                case = dict(cls=cls, dim=dim, opts=opts)
                if m.has_cdf:
                    rs = np.array([0.0, 0.05, 0.3, 1.0, 2.5, 6.0, 20.0]) / ell
                    cdf = np.asarray(m.spectral_rad_cdf(rs), dtype=float)
                    ints = np.array([integrate.quad(lambda x: float(m.spectral_rad_pdf(np.array([x]))[0]), 0.0, r, epsabs=1e-11, epsrel=1e-11, limit=200)[0] for r in rs])
                    n += 1
                    ctx.count(("radial-cdf", cls, dim, bool(opts)), hist=dict(radial_class=cls, radial_dim=dim))
                    bad = None
                    if np.any(np.abs(cdf - ints) > 1e-7):
                        i = int(np.argmax(np.abs(cdf - ints)))
                        bad = "spectral_rad_cdf(%.4g) = %.8f but the integral of spectral_rad_pdf over [0, r] is %.8f" % (rs[i], cdf[i], ints[i])
                    elif cdf[0] != 0.0 or np.any(np.diff(cdf) <= 0) or not 0.999 < float(m.spectral_rad_cdf(1e6 / ell)) <= 1.0:
                        bad = "spectral_rad_cdf is not a distribution function on [0, inf): values %s" % cdf.tolist()
                    if bad:
                        ctx.violation("probe: radial spectral distribution", "%s(dim=%d, %s): %s — sampling='inversion' draws the wave numbers from this cdf" % (cls, dim, opts, bad),
                                      dict(case, r=rs.tolist(), cdf=cdf.tolist(), integral_of_pdf=ints.tolist()), key="radial-cdf:%s:dim=%d" % (cls, dim))
                    if m.has_ppf:
                        us = np.array([1e-6, 0.01, 0.3, 0.5, 0.9, 0.999])
                        back = np.asarray(m.spectral_rad_cdf(m.spectral_rad_ppf(us)), dtype=float)
                        rr = rs[1:][cdf[1:] <= 0.999]          # beyond, the cdf saturates in double precision and ppf(cdf(r)) is +inf
                        back_r = np.asarray(m.spectral_rad_ppf(m.spectral_rad_cdf(rr)), dtype=float)
                        # ppf(cdf(r)) is ill-conditioned where the cdf saturates: compare with the condition number 1 / (pdf * r)
                        cond = 1.0 / np.maximum(np.asarray(m.spectral_rad_pdf(rr), dtype=float) * rr, 1e-300)
                        if np.any(np.abs(back - us) > 1e-9) or np.any(np.abs(back_r - rr) > (1e-9 + 1e-14 * cond) * rr):
                            ctx.violation("probe: radial spectral distribution", "%s(dim=%d, %s): spectral_rad_ppf and spectral_rad_cdf are not inverse: cdf(ppf(u)) = %s for u = %s; "
                                          "ppf(cdf(r)) = %s for r = %s" % (cls, dim, opts, back.tolist(), us.tolist(), back_r.tolist(), rr.tolist()),
                                          dict(case, u=us.tolist(), cdf_ppf=back.tolist(), r=rr.tolist(), ppf_cdf=back_r.tolist()), key="radial-ppf:%s:dim=%d" % (cls, dim))
                if cls in ANALYTIC and not opts:
                    tot = sum(integrate.quad(lambda x: float(m.spectral_rad_pdf(np.array([x]))[0]), a / ell, b / ell, epsabs=1e-10, epsrel=1e-10, limit=400)[0]
                              for a, b in ((0, 1e-3), (1e-3, 1.0), (1.0, 30.0), (30.0, 1e3), (1e3, 1e6), (1e6, 1e9), (1e9, 1e12)))
                    n += 1
                    ctx.count(("radial-norm", cls, dim), hist=dict(radial_class=cls, radial_dim=dim))
                    # heavy tails: the mass beyond 1e12 / len_scale is < 1e-5 for every analytic class at its default options (TPLExponential: 1.4e-6)
                    if abs(tot - 1.0) > 2e-4:
                        ctx.violation("probe: radial spectral distribution", "%s(dim=%d): spectral_rad_pdf integrates to %.6f instead of 1" % (cls, dim, tot),
                                      dict(case, integral=tot), key="radial-norm:%s:dim=%d" % (cls, dim))
    return n


def value_scale_probe(ctx, rng, thorough):
    """exact VALUE-scale equivariance (C01_randmeth_value_scale): model(var c, nugget c) with c = 4^m gives 2^m x the field of
    model(var, nugget) for the same seed — bit for bit, since sqrt and the products with powers of two are exact — for the three
    generators through SRF (mean scaled too) and for CondSRF (conditioning values scaled; 1e-9: LAPACK inverse)."""
    import gstools as gs
    n = 0
    exps = (-30, -21, -14, 7, 20, 30) if thorough else (-30, -14, int(rng.choice([-21, 7, 20])), 30)
    for gname in GEN_NAMES + ("CondSRF",):
        for rep in range(2):
            dim = 2 if gname == "VectorField" else int(rng.integers(1, 4))
            kind = ["Gaussian", "Exponential", "Matern"][int(rng.integers(3 if gname == "RandMeth" else 2))]
            var, nug = float(rng.uniform(0.5, 2.0)), float([rng.uniform(0.1, 1.0), 0.0][rep])
            kw = dict(dim=dim, len_scale=float(rng.uniform(0.8, 3.0)))
            if dim > 1:
                kw.update(anis=[float(x) for x in rng.uniform(0.4, 1.2, size=dim - 1)], angles=[float(x) for x in rng.uniform(-1, 1, size=dim * (dim - 1) // 2)])
            seed = int(rng.integers(1, 2 ** 31 - 1))
            npt = int(rng.choice([1, dim, dim + 1, 6]))
            pos = [rng.uniform(-6, 6, size=npt) for _ in range(dim)]
            mean0 = 0.0 if gname == "VectorField" else float(rng.normal())
            cpos = [rng.uniform(-6, 6, size=4) for _ in range(dim)]
            cval = rng.normal(size=4)

            def field(m2):
                f = 2.0 ** m2
                m = getattr(gs, kind)(var=var * f * f, nugget=nug * f * f, **kw)
                if gname == "CondSRF":
                    # simple kriging: the kriging matrix is the covariance matrix alone and scales as a whole (the ordinary-kriging
                    # system mixes covariances with the unit unbiasedness row and is not scale invariant in floating point: C05/C07)
                    kr = gs.krige.Simple(m, cpos, cval * f, mean=mean0 * f)
                    return np.asarray(gs.CondSRF(kr, mode_no=16, seed=seed)(pos), dtype=float)
                gk = dict(mode_no=16)
                if gname == "Fourier":
                    gk = dict(period=[20.0] * dim, mode_no=[4] * dim)
                elif gname == "VectorField":
                    gk = dict(mode_no=16, mean_velocity=0.7)
                return np.asarray(gs.SRF(m, mean=mean0 * f, generator=gname, seed=seed, **gk)(pos), dtype=float)
            ref = field(0)
            if gname == "VectorField":
                ref = ref[1:]           # component 0 carries the unscaled mean velocity 0.7 (absorbs a tiny fluctuation): compare the others
            for m2 in exps:
                out = field(m2)
                if gname == "VectorField":
                    out = out[1:]
                n += 1
                ctx.count(("value-scale", gname, kind, dim, m2, nug > 0), hist=dict(value_scale_generator=gname, value_scale_exponent=2 * m2))
                expect = ref * 2.0 ** m2
                tol = (1e-9 if gname == "CondSRF" else 0.0) * float(np.max(np.abs(expect)) + 1e-300)
                if out.shape != expect.shape or not np.all(np.abs(out - expect) <= tol):
                    i = int(np.argmax(np.abs(out - expect)))
                    ctx.violation("probe: value-scale equivariance",
                                  "%s / %s(dim=%d, var=%.4g * 4^%d, nugget=%.4g * 4^%d), seed %d: the field is not 2^%d x the field of (var=%.4g, nugget=%.4g) with the "
                                  "same seed: %.17g vs %.17g (ratio %.6g) — the pointwise variance is not (var + nugget) x 4^%d" % (
                                      gname, kind, dim, var, m2, nug, m2, seed, m2, var, nug, out.ravel()[i], expect.ravel()[i],
                                      out.ravel()[i] / expect.ravel()[i] if expect.ravel()[i] else float("nan"), m2),
                                  dict(generator=gname, cls=kind, model_kwargs=kw, var=var, nugget=nug, exponent_of_4=m2, seed=seed, pos=[p.tolist() for p in pos],
                                       mean=mean0, cond_pos=[p.tolist() for p in cpos], cond_val=cval.tolist(), field=out.ravel().tolist(), expected=expect.ravel().tolist()),
                                  key="value-scale:%s:nugget%s" % (gname, ">0" if nug > 0 else "=0"))
                    break
    return n


# ----------------------------------------------------------------------------------------- run
def load_local_known(ctx):
    """known_findings.json is assembled from known_findings.d/*.json by the coordinator; until then (and in any case)
    the entries of known_findings.d/C01.json are honoured directly"""
    p = os.path.join(C.VERIF, "known_findings.d", "C01.json")
    if os.path.exists(p):
        have = {k["key"] for k in ctx.kf}
        for e in json.load(open(p)):
            if e["key"] not in have:
                ctx.kf.append(e)


def corpus_jobs(ctx):
    """deterministic confirming case of every open known finding: (class, dim, path, mode_no, seed)"""
    jobs = []
    for e in ctx.kf:
        if e.get("status", "open") == "open" and "confirm" in e:
            c = e["confirm"]
            jobs.append((c["cls"], c["dim"], c["path"], c["mode_no"], c["seed"], c.get("len_scale", LEN_SCALE)))
    return jobs


def run(ctx):
    rng = C.Rng(ctx.seed, "C01")
    thorough = ctx.tier == "thorough"
    load_local_known(ctx)
    ctx.rule = ("spectral cells = model class x valid dim x sampling path (ppf / mcmc) x mode_no {1000, 20000} x generator seed, each "
                "evaluated at 8 separations; correspondence cases = generator x class x dim x mode number x mesh type x nugget on/off; "
                "ensembles = class x dim x nugget over seeds; SRF histories = generator x change kind x call kind (3-step) + random operation "
                "sequences, each call compared with a fresh object; Fourier exact = class x option pair x period in 1-D; option cells = class x "
                "option pair; upscaling = generator x upscaling x point_volumes class x nugget; scale = class x dim x option x L (spectral) and class x "
                "generator x L (fields); a case is non-trivial with >= 2 modes and >= 2 points; "
                "distinct = distinct keys of those tuples")
    ctx.trusted = [
        "Coq 8.16.1 kernel (coqc); stdlib Reals axioms as printed per theorem",
        "HYPOTHESES of the theorems, not proved of the implementation (covered only by the statistical probes): "
        "H0 E[1]=1; H1 E linear; H2 amplitudes uncorrelated, unit variance, zero mean, also against every bounded function of the "
        "wave vectors; H3 E cos<k_j,h> = rho(h) (wave vectors follow the normalised spectral density); H4 nugget noise zero mean, "
        "unit variance, uncorrelated between points and with the modes; modes_shape (N modes for every outcome)",
        "numpy RandomState, emcee EnsembleSampler, scipy rv_continuous, hankel (numerical spectrum) are oracles",
        "translator tools/pyx2coq.py for summator.pyx; C15 refinement theorems (kernel = defining sums)",
        "extraction (ExtrOcamlBasic only), OCaml 4.13, ocaml/proto.ml float instance; C12_Model.isometrize",
        "harness statistics: batch-means / sample standard errors, thresholds 8 SE + 0.02",
    ]
    ctx.not_proved = [
        "H1-H4 themselves: RNG quality, MCMC convergence, accuracy of the numerical (Hankel) spectrum — PARTIAL by design",
        "the rate at which the Monte-Carlo / discretisation error shrinks with the number of modes (probed only)",
        "convergence of the Fourier Riemann sum to the Bochner integral (stated as the sum; probed numerically)",
        "IncomprRandMeth covariance (model + correspondence only)",
        "history independence of the SRF object is not a theorem: the Coq model of the pipeline is stateless and the object is compared with it (fresh object) after every operation of generated histories",
        "that numpy's uniform / normal / choice streams are uniform, normal and independent (sphere and inversion theorems take the draws as uniform)",
        "IEEE rounding (theorems are over exact reals)",
    ]
    # ---- 0. corpus: confirming cases of the known findings, in worker processes while the proofs build
    pool = multiprocessing.get_context("fork").Pool(4)
    cjobs = corpus_jobs(ctx)
    if not thorough:
        # quick tier: all cheap (mode_no 1000) confirmations and the 20000 ones (measured 3-10 s each, 4 workers)
        pass
    corpus_async = pool.map_async(spectral_cell, cjobs, chunksize=1)
    tie_broken = []
    broken = []
    try:
        # ---- 1. tie by translation
        t0 = time.time()
        gen = C.regenerate(which=["Summator_gen.v"])
        C.log("[C01] pool start + translation %.1fs (t=%.1fs)" % (time.time() - t0, time.time() - ctx.t0))
        for k, v in gen.items():
            ctx.tie[k] = "translated (pyx2coq)" if not v else "TRANSLATION FAILED: " + v
            if v:
                tie_broken.append("%s: %s" % (k, v))
        for nm in ("RandMeth.__call__/get_nugget", "Fourier.__call__/reset_seed spectrum factor", "IncomprRandMeth.__call__",
                   "SRF.__call__ (isometrize + mean)", "RNG.sample_sphere, cov_sample = rad * sphere", "Gaussian/Exponential spectral_rad_ppf/cdf"):
            ctx.tie[nm] = "hand model + correspondence"
        # ---- 2. theorems
        t0 = time.time()
        proofs_ok = (not tie_broken) and ctx.proofs("props/C01.v")
        C.log("[C01] proof stage %.1fs" % (time.time() - t0))
        t0 = time.time()
        # ---- 3. driver + correspondence
        drv = None
        if not tie_broken:
            ok, out = C.build_driver("c01")
            if ok:
                drv = C.Driver("c01", erfinv_oracle)
            else:
                tie_broken.append("extraction/driver build: " + out[-400:])
        if drv is not None:
            try:
                k = 3 if thorough else 1
                corr_randmeth(ctx, drv, rng, 42 * k, broken)
                corr_fourier(ctx, drv, rng, 16 * k, broken)
                corr_incompr(ctx, drv, rng, 12 * k, broken)
                corr_sampling(ctx, drv, rng, 16 * k, broken)
                corr_upscaling(ctx, drv, rng, 12 * k, broken)
                corr_entry_points(ctx, rng, 6 * k, broken)
            finally:
                drv.close()
            C.log("[C01] correspondence: %d driver calls, %d disagreements (driver build + run %.1fs)" % (drv.calls, len(broken), time.time() - t0))
        # ---- 4. probes
        t0 = time.time()
        ensemble_probe(ctx, rng, 10 if thorough else 4, 900 if thorough else 400)
        fourier_probe(ctx, rng, 6 if thorough else 3, 900 if thorough else 400)
        variance_probe(ctx, rng, 500 if thorough else 300)
        C.log("[C01] ensemble + Fourier + variance (3 generators) probes %.1fs" % (time.time() - t0))
        t0 = time.time()
        n_hist = setter_probe(ctx, rng, thorough)
        C.log("[C01] setter histories: %d (class, history) pairs compared with fresh models in %.1fs" % (n_hist, time.time() - t0))
        if broken:
            probe_broken_configs(ctx, rng, broken, 400)
        t0 = time.time()
        n_fx = fourier_exact_probe(ctx, rng, thorough)
        C.log("[C01] Fourier exact covariance (class x option pair x small period, 1-D): %d configurations in %.1fs" % (n_fx, time.time() - t0))
        t0 = time.time()
        n_s, n_f = scale_probe(ctx, rng, thorough)
        C.log("[C01] scale equivariance: %d spectral (class, dim, option, L) comparisons, %d field comparisons in %.1fs" % (n_s, n_f, time.time() - t0))
        t0 = time.time()
        n_m = mesh_direction_probe(ctx, rng, thorough)
        C.log("[C01] mesh directions: %d srf.mesh(...) calls (every ordered axis selection, letters and index lists, rejections) in %.1fs" % (n_m, time.time() - t0))
        t0 = time.time()
        n_v = value_scale_probe(ctx, rng, thorough)
        n_r = radial_dist_probe(ctx, rng)
        C.log("[C01] value-scale equivariance: %d field comparisons; radial distribution (cdf = integral of pdf, ppf/cdf inverse, normalisation): %d checks in %.1fs" % (
            n_v, n_r, time.time() - t0))
        t0 = time.time()
        n_h, n_c = srf_history_probe(ctx, rng, thorough)
        C.log("[C01] SRF operation histories: %d histories, %d comparisons with fresh objects in %.1fs" % (n_h, n_c, time.time() - t0))
        t0 = time.time()
        known_keys = {e["key"] for e in ctx.kf if e.get("status", "open") == "open"}
        armed = [c for c in all_cells() if kf_key(*c) not in known_keys]
        # verdict of a cell = the MEDIAN (by deviation/threshold ratio) of R independent generator seeds: a systematic break
        # (wrong factor, exponent, density) moves every replicate; a sporadic walker escape in one replicate does not
        if thorough:
            pick = armed
            reps = lambda c: 3
        else:
            big = [c for c in armed if c[3] == 20000]
            small = [c for c in armed if c[3] == 1000]
            pick = [big[i] for i in rng.permutation(len(big))[:8]] + [small[i] for i in rng.permutation(len(small))[:14]]
            reps = lambda c: 3 if c[3] == 1000 else 1
        jobs = [c + (int(rng.integers(1, 2 ** 31 - 1)), LEN_SCALE) for c in pick for _ in range(reps(c))]
        hcells = history_cells(rng, set(armed), thorough)
        jobs += [c[:4] + (int(rng.integers(1, 2 ** 31 - 1)), LEN_SCALE, c[4]) for c in hcells for _ in range(3)]
        ocells = option_cells(rng, set(armed), thorough)
        jobs += [c[:4] + (int(rng.integers(1, 2 ** 31 - 1)), LEN_SCALE, c[4]) for c in ocells]
        scells = sampling_cells(rng, set(armed), thorough)
        jobs += [c + (int(rng.integers(1, 2 ** 31 - 1)), LEN_SCALE) for c in scells for _ in range(3 if c[3] == 1000 else 1)]
        C.log("[C01] cell selection %.1fs" % (time.time() - t0))
        t0 = time.time()
        res = pool.map(spectral_cell, jobs, chunksize=1)
        C.log("[C01] spectral cells: %d armed (of %d; %d are open known findings), %d cells + %d setter-history cells + %d option-pair cells + %d sampling-option cells / %d generators evaluated in %.1fs" % (
            len(armed), len(all_cells()), len(known_keys), len(pick), len(hcells), len(ocells), len(scells), len(jobs), time.time() - t0))
        worst = 0.0
        groups = {}
        for r in res:
            groups.setdefault((r["cls"], r["dim"], r["path"], r["N"], hist_tag(r.get("history"))), []).append(r)
        for cell, rs in groups.items():
            ctx.count(("cell",) + cell, n=8 * len(rs), hist=dict(cell_class=cell[0], cell_dim=cell[1], cell_path=cell[2], cell_modes=cell[3],
                                                                 cell_history=cell[4].split(":")[0]))
            errs = [r for r in rs if "error" in r]
            if errs:
                judge_cell(ctx, errs[0], "probe: spectral sampling")
                continue
            rs.sort(key=lambda r: r["ratio"])
            med = rs[len(rs) // 2]
            med = dict(med, replicate_ratios=[round(r["ratio"], 3) for r in rs], replicate_seeds=[r["seed"] for r in rs])
            if all("ks" in r for r in rs):
                ksr = sorted(rs, key=lambda r: r["ks"])[len(rs) // 2]
                med.update({k: ksr[k] for k in ("ks", "ks_thr", "ks_at", "ks_emp", "ks_ref")})
            judge_cell(ctx, med, "probe: spectral sampling")
            worst = max(worst, med["ratio"])
            if len(ctx.samples) < 5:
                ctx.sample(dict(spectral_cell=med))
            if rs[-1]["ratio"] > 1.0 >= med["ratio"]:
                ctx.notes.append("sporadic deviation in one replicate of %s (ratios %s, seeds %s)" % (
                    kf_key(*cell[:4]) + ":" + cell[4], med["replicate_ratios"], med["replicate_seeds"]))
        ctx.notes.append("armed spectral cells: worst median deviation/threshold ratio %.2f over %d cells" % (worst, len(groups)))
        # ---- 5. collect the corpus
        t0 = time.time()
        cres = corpus_async.get(timeout=3000)
        C.log("[C01] waited %.1fs more for the corpus (sum of cell times %.1fs)" % (time.time() - t0, sum(r.get("t", 0) for r in cres)))
        confirmed = 0
        for r in cres:
            ctx.count(("corpus", r["cls"], r["dim"], r["path"], r["N"]), n=8, hist=dict(cell_class=r["cls"], cell_dim=r["dim"], cell_path=r["path"], cell_modes=r["N"]))
            if not judge_cell(ctx, r, "corpus: known finding"):
                confirmed += 1
            else:
                ctx.notes.append("known finding NOT reproduced on this tree: %s (ratio %.2f)" % (kf_key(r["cls"], r["dim"], r["path"], r["N"]), r.get("ratio", -1)))
        C.log("[C01] corpus: %d of %d known-finding cells reproduced" % (confirmed, len(cres)))
        ctx.sample(dict(known_finding_cells_reproduced=confirmed, of=len(cres)))
    finally:
        pool.terminate()
    if broken:
        ctx.notes.append("correspondence disagreements: " + "; ".join(sorted({b[0] for b in broken})))
    if (tie_broken or broken or not proofs_ok) and not ctx.violations:
        what = tie_broken or [b[0] for b in broken[:5]] or getattr(ctx, "proof_failure", {}).get("output_tail", "")[-600:]
        ctx.violation("proof/tie", "proof obligations or the model/code tie of C01 no longer check: %s" % (what,),
                      dict(tie_broken=tie_broken, correspondence=[dict(op=b[0], case=b[1]) for b in broken[:3]],
                           proof=getattr(ctx, "proof_failure", None)), no_input=True)


def replay(ctx, path):
    rec = json.load(open(path))
    print(json.dumps({k: rec[k] for k in ("stage", "what")}, indent=1))
    case = rec.get("case") or {}
    load_local_known(ctx)
    if rec.get("stage", "").startswith(("probe: spectral", "corpus")) and "cls" in case:
        job = (case["cls"], case["dim"], case["path"], case["N"], case["seed"], case.get("len_scale", LEN_SCALE))
        if case.get("history"):
            job += (tuple(case["history"]),)
        r = spectral_cell(job)
        print(json.dumps(r, indent=1))
        ctx.count(("replay", case["cls"], case["dim"], case["path"], case["N"]))
        judge_cell(ctx, r, rec["stage"])
        return ctx.finish()
    run(ctx)
    return ctx.finish()
