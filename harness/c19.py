"""C19 — field transformations produce their documented target distributions.

stages: theorems props/C19.v (push-forward identities at R, erf/erfinv as section variables) ;
        extraction + driver ; correspondence of every array function and of the Field.transform
        wrappers (process / keep_mean / store names, op sequences) with the extracted model ;
        probes on the implementation: pointwise cdf identities against independent scipy formulas,
        Kolmogorov distance of large seeded normal samples to the target cdf (DKW bound, 1e-9 level),
        exact moments of force_moments, partition checks of discrete / binary."""
import json
import math
import warnings

import numpy as np
from scipy import special, stats

import common as C

E = np.array([])
ERR = {ValueError: 1, IndexError: 2, KeyError: 3}
NAN = float("nan")


def oracle(code, xs):
    if code == 6:
        return float(special.erf(xs[0]))
    if code == 7:
        return float(special.erfinv(xs[0]))
    raise RuntimeError("unexpected oracle code %d" % code)


def opt(v):
    return E if v is None else np.array([float(v)])


def impl_call(f, *a, **k):
    """run the implementation; exceptions become ('err', code) with the model's error codes"""
    try:
        with warnings.catch_warnings():
            warnings.simplefilter("ignore")
            return np.array(f(*a, **k), dtype=float)
    except (ValueError, IndexError, KeyError) as e:
        return ("err", ERR[type(e)], repr(e))
    except Exception as e:  # anything else is unexpected
        return ("exc", type(e).__name__, repr(e))


def is_err(r):
    return isinstance(r, tuple)


_SEEN = {}


def report(ctx, stage, what, case, key=None, no_input=False):
    """ctx.violation, at most 3 replay files per key (one broken formula fails hundreds of generated cases)"""
    _SEEN[key] = _SEEN.get(key, 0) + 1
    if _SEEN[key] <= 3:
        ctx.violation(stage, what, case, key=key, no_input=no_input)


def close(a, b, rtol=1e-9, scale=None):
    """C.close (DESIGN 3.4: NaN matches NaN, infinities exact, |a-b| <= rtol*scale) with a per-cell scale"""
    a = np.asarray(a, dtype=float)
    b = np.asarray(b, dtype=float)
    if a.shape != b.shape:
        return False
    if scale is not None and np.ndim(scale) > 0:
        fin = np.isfinite(a) & np.isfinite(b)
        if not C.close(np.where(fin, 0.0, a), np.where(fin, 0.0, b), rtol=rtol):
            return False
        sc = np.broadcast_to(np.asarray(scale, dtype=float), a.shape)[fin]
        sc = np.where(np.isfinite(sc), sc, np.inf)
        return bool((np.abs(a[fin] - b[fin]) <= 1e-300 + rtol * sc).all())
    return C.close(a, b, rtol=rtol, scale=scale)


def same(impl, model, scale):
    """comparison policy (DESIGN 3.4): error kinds exact, floats through libm/numpy kernels 1e-9 of the scale"""
    if is_err(impl) or isinstance(model, (int, np.integer)):
        return is_err(impl) and impl[0] == "err" and isinstance(model, (int, np.integer)) and impl[1] == int(model)
    return close(impl, model, rtol=1e-9, scale=scale)


def hexl(a):
    return [C.fhex(v) for v in np.asarray(a, dtype=float).ravel()[:300]]


def lu(rng, lo, hi):
    return float(math.exp(rng.uniform(math.log(lo), math.log(hi))))


# --------------------------------------------------------------------------- array functions

def gen_field(rng, n):
    m = float(rng.choice([0.0, 1.0, -3.5, 20.0, float(rng.normal() * 5)]))
    s = lu(rng, 0.05, 20.0)
    x = rng.normal(m, s, size=n)
    return x, m, s


def array_cases(rng, tier):
    """(name, meta, impl thunk, model thunk, scale) for every array function"""
    from gstools.transform import array as A
    from gstools.normalizer import BoxCox
    sizes = [1, 2, 3, 5, 17, 64] if tier == "quick" else [1, 2, 3, 5, 17, 64, 257]
    reps = 6 if tier == "quick" else 30
    cases = []
    for rep in range(reps):
        for n in sizes:
            x, m, s = gen_field(rng, n)
            for given in (True, False):
                if not given and n < 2:
                    continue            # np.var of one value is 0: division by zero on both sides, nothing to compare
                mean = m if given else None
                var = s * s if given else None
                mm, vv = (m, s * s) if given else (float(np.mean(x)), float(np.var(x)))
                sc = abs(mm) + math.sqrt(vv) + np.abs(x)
                low = float(rng.normal() * 3)
                high = low + lu(rng, 0.01, 50)
                meta = dict(n=n, given=given)
                cases.append(("array_to_uniform", meta, dict(field=x, mean=mean, var=var, low=low, high=high),
                              lambda d, x=x, mean=mean, var=var, low=low, high=high: d.call("to_uniform", x, opt(mean), opt(var), low, high),
                              abs(low) + abs(high)))
                for name, fn in (("array_to_arcsin", "to_arcsin"), ("array_to_uquad", "to_uquad")):
                    for bounds in (False, True):
                        a = b = None
                        if bounds:
                            a = float(rng.normal() * 4)
                            b = a + lu(rng, 0.01, 50)
                            if rng.random() < 0.3:
                                a = None
                            elif rng.random() < 0.3:
                                b = None
                        sca = abs(mm) + 2 * math.sqrt(vv) + abs(a or 0) + abs(b or 0)
                        cases.append((name, dict(meta, bounds=[a is not None, b is not None]), dict(field=x, mean=mean, var=var, a=a, b=b),
                                      lambda d, fn=fn, x=x, mean=mean, var=var, a=a, b=b: d.call(fn, x, opt(mean), opt(var), opt(a), opt(b)), sca))
                for conn in ("high", "low"):
                    cases.append(("array_zinnharvey", dict(meta, conn=conn), dict(field=x, conn=conn, mean=mean, var=var),
                                  lambda d, x=x, conn=conn, mean=mean, var=var: d.call("zinnharvey", x, conn == "high", opt(mean), opt(var)), "zh"))
                # discrete, three threshold modes
                k = int(rng.integers(2, 7))
                vals = np.round(rng.normal(mm, 2 * math.sqrt(vv), size=k), 3)
                if rng.random() < 0.15:
                    vals[-1] = vals[0]          # duplicate value: arithmetic thresholds not ascending -> ValueError
                cases.append(("array_discrete", dict(meta, mode="arithmetic", k=k), dict(field=x, values=list(vals), thresholds="arithmetic"),
                              lambda d, x=x, vals=vals: d.call("discrete", NAN, x, vals, ("n", 0), E, E, E), "exact"))
                cases.append(("array_discrete", dict(meta, mode="equal", k=k), dict(field=x, values=list(vals), thresholds="equal", mean=mean, var=var),
                              lambda d, x=x, vals=vals, mean=mean, var=var: d.call("discrete", NAN, x, vals, ("n", 1), E, opt(mean), opt(var)), "exact"))
                thr = np.sort(rng.normal(mm, math.sqrt(vv), size=k - 1))
                r = rng.random()
                if r < 0.1 and k > 2:
                    thr = thr[::-1].copy()       # not ascending
                elif r < 0.2:
                    thr = thr[:-1]               # wrong length
                elif r < 0.3 and n > 1:
                    thr[0] = x[0]                # a sample exactly on a threshold
                cases.append(("array_discrete", dict(meta, mode="given", k=k, nthr=len(thr)), dict(field=x, values=list(vals), thresholds=list(thr)),
                              lambda d, x=x, vals=vals, thr=thr: d.call("discrete", NAN, x, vals, ("n", 2), thr, E, E), "exact"))
            # functions without mean/var options
            tm = float(rng.normal() * 3)
            tv = lu(rng, 0.01, 30)
            cases.append(("array_force_moments", dict(n=n), dict(field=x, mean=tm, var=tv),
                          lambda d, x=x, tm=tm, tv=tv: d.call("force_moments", x, tm, tv), abs(tm) + math.sqrt(tv) * (1 + np.abs(x - np.mean(x)) / (np.std(x) + 1e-300))))
            xs = x / (abs(m) + 3 * s) * 3            # keep exp() finite
            cases.append(("array_to_lognormal", dict(n=n), dict(field=xs), lambda d, xs=xs: d.call("to_lognormal", xs), None))
            lm = float(rng.choice([1.0, 0.5, 2.0, -1.0, -0.4, 0.3, 0.0, 1e-9, -1e-9, 2e-8, 1e-8]))
            sh = float(rng.choice([0.0, 0.0, 1.5, -0.7]))
            cases.append(("array_boxcox", dict(n=n, lmbda=lm, shift=sh), dict(field=xs, lmbda=lm, shift=sh),
                          lambda d, xs=xs, lm=lm, sh=sh: d.call("boxcox", xs, lm, sh), None))
            u = rng.random(size=n)
            if n > 2:
                u[0], u[1] = 0.0, 1.0
            if n > 3:
                u[2] = 0.5
            a = float(rng.normal() * 4)
            b = a + lu(rng, 0.01, 50)
            cases.append(("_uniform_to_arcsin", dict(n=n), dict(field=u, a=a, b=b), lambda d, u=u, a=a, b=b: d.call("uniform_to_arcsin", u, a, b), abs(a) + abs(b)))
            cases.append(("_uniform_to_uquad", dict(n=n), dict(field=u, a=a, b=b), lambda d, u=u, a=a, b=b: d.call("uniform_to_uquad", u, a, b), abs(a) + abs(b)))
            # the normalizer that array_boxcox inverts
            y = np.exp(rng.normal(size=n))
            lmn = float(rng.choice([1.0, 0.5, -0.4, 0.3, 0.0, 1e-9]))
            cases.append(("BoxCox.normalize", dict(n=n, lmbda=lmn), dict(data=y, lmbda=lmn), lambda d, y=y, lmn=lmn: d.call("boxcox_normalize", y, lmn), None))
    fns = dict(array_to_uniform=A.array_to_uniform, array_to_arcsin=A.array_to_arcsin, array_to_uquad=A.array_to_uquad,
               array_zinnharvey=A.array_zinnharvey, array_discrete=A.array_discrete, array_force_moments=A.array_force_moments,
               array_to_lognormal=A.array_to_lognormal, array_boxcox=A.array_boxcox,
               _uniform_to_arcsin=A._uniform_to_arcsin, _uniform_to_uquad=A._uniform_to_uquad)
    fns["BoxCox.normalize"] = lambda data, lmbda: BoxCox(lmbda=lmbda).normalize(data)
    return cases, fns


def array_correspondence(ctx, rng, drv):
    cases, fns = array_cases(rng, ctx.tier)
    skipped_zh = 0
    for name, meta, kw, model_thunk, scale in cases:
        ri = impl_call(fns[name], **kw)
        rm = model_thunk(drv)
        key = (name,) + tuple(sorted((k, str(v)) for k, v in meta.items()))
        ctx.count(key if meta.get("n", 2) >= 2 else None, hist=dict(function=name, size=meta.get("n"), outcome="raises" if is_err(ri) else "value"))
        ctx.sample(dict(function=name, meta=meta))
        ok = True
        if is_err(ri) or isinstance(rm, (int, np.integer)):
            ok = same(ri, rm, None)
        elif isinstance(scale, str) and scale == "exact":
            x = np.asarray(kw["field"])
            fin = ~np.isnan(x)
            ok = ri.shape == rm.shape and bool((ri[fin] == rm[fin]).all())
        elif isinstance(scale, str) and scale == "zh":
            x = np.asarray(kw["field"])
            mm = kw["mean"] if kw["mean"] is not None else np.mean(x)
            sd = math.sqrt(kw["var"] if kw["var"] is not None else np.var(x))
            z = np.abs(x - mm) / sd
            # with mean=None the two summation orders perturb z by ~1e-16*scale; erfinv(2 erf(z/sqrt2)-1) has relative
            # condition 1/z near z=0, so cells with |z| < 1e-3 are not compared in that stream (counted in the notes)
            keep = np.ones_like(z, dtype=bool) if kw["mean"] is not None else (z > 1e-3)
            skipped_zh += int((~keep).sum())
            ok = ri.shape == rm.shape and close(ri[keep], rm[keep], rtol=1e-9, scale=(abs(mm) + sd * (1 + np.abs((ri - mm) / sd)))[keep])
        else:
            ok = same(ri, rm, scale)
        if not ok:
            prop_ok = property_holds(name, kw, ri)
            report(ctx, "correspondence: %s" % name,
                          "implementation and model disagree on %s%s" % (name, "" if prop_ok is None else (" (property statement %s on this input)" % ("holds" if prop_ok else "FAILS"))),
                          dict(function=name, meta=meta, args={k: (hexl(v) if isinstance(v, np.ndarray) else v) for k, v in kw.items()},
                               impl=(hexl(ri) if not is_err(ri) else list(ri)), model=(hexl(rm) if isinstance(rm, np.ndarray) else rm)),
                          key="corr:%s" % name, no_input=(prop_ok is True))
    if skipped_zh:
        ctx.notes.append("zinnharvey with mean=None: %d cells with |z|<1e-3 not compared (ill-conditioned in the sample mean)" % skipped_zh)


# --------------------------------------------------------------------------- independent statement of the property

def ks_distance(y, cdf):
    y = np.sort(y)
    n = len(y)
    f = cdf(y)
    i = np.arange(1, n + 1)
    return float(max(np.max(i / n - f), np.max(f - (i - 1) / n)))


def dkw(n, alpha=1e-9):
    return math.sqrt(math.log(2.0 / alpha) / (2.0 * n))


def cdf_uquad(y, a, b):
    al = 12.0 / (b - a) ** 3
    be = (a + b) / 2.0
    y = np.clip(y, a, b)
    return al / 3.0 * ((y - be) ** 3 + (be - a) ** 3)


def cdf_arcsine(y, a, b):
    return 2.0 / math.pi * np.arcsin(np.sqrt(np.clip((y - a) / (b - a), 0.0, 1.0)))


def property_holds(name, kw, out):
    """pointwise statement of the property for one array-function call (None when not applicable)"""
    if is_err(out) or "field" not in kw:
        return None
    x = np.asarray(kw["field"], dtype=float)
    if len(x) == 0 or np.isnan(x).any():
        return None
    m = kw.get("mean")
    v = kw.get("var")
    m = float(np.mean(x)) if m is None else m
    v = float(np.var(x)) if v is None else v
    if name in ("array_to_uniform", "array_to_arcsin", "array_to_uquad", "array_zinnharvey") and not v > 0:
        return None
    z = (x - m) / math.sqrt(v) if v and v > 0 else None
    try:
        if name == "array_to_uniform":
            return bool(np.allclose((out - kw["low"]) / (kw["high"] - kw["low"]), special.ndtr(z), rtol=0, atol=1e-9))
        if name == "array_to_arcsin":
            a = m - math.sqrt(2 * v) if kw["a"] is None else kw["a"]
            b = m + math.sqrt(2 * v) if kw["b"] is None else kw["b"]
            if not a < b:
                return None
            return bool(np.allclose(out, stats.arcsine.ppf(special.ndtr(z), loc=a, scale=b - a), rtol=0, atol=1e-9 * (abs(a) + abs(b))))
        if name == "array_to_uquad":
            a = m - math.sqrt(5 / 3 * v) if kw["a"] is None else kw["a"]
            b = m + math.sqrt(5 / 3 * v) if kw["b"] is None else kw["b"]
            if not a < b:
                return None
            return bool(np.allclose(cdf_uquad(out, a, b), special.ndtr(z), rtol=0, atol=1e-9))
        if name == "array_zinnharvey":
            w = (out - m) / math.sqrt(v)
            half = 2 * special.ndtr(np.abs(z)) - 1
            tgt = 1 - half if kw["conn"] == "high" else half
            return bool(np.allclose(special.ndtr(w), tgt, rtol=0, atol=1e-9))
        if name == "array_to_lognormal":
            return bool(np.allclose(np.log(out), x, rtol=1e-12, atol=1e-12))
        if name == "array_force_moments":
            if not np.var(x) > 0:
                return None
            return bool(abs(np.mean(out) - kw["mean"]) <= 1e-9 * (abs(kw["mean"]) + math.sqrt(kw["var"]))
                        and abs(np.var(out) - kw["var"]) <= 1e-9 * kw["var"])
        if name == "array_discrete":
            return discrete_statement(x, kw["values"], kw["thresholds"], out, m, v)
        if name == "array_boxcox":
            lm, sh = kw["lmbda"], kw["shift"]
            r = x + sh
            if abs(lm) <= 1e-8:
                return bool(np.allclose(np.log(out), r, rtol=1e-9, atol=1e-9))
            okc = lm * r + 1 > 1e-6
            back = (out[okc] ** lm - 1) / lm
            return bool(np.allclose(back, r[okc], rtol=1e-9, atol=1e-9 * (1 + 1 / abs(lm))))
    except Exception:
        return None
    return None


def discrete_statement(x, values, thresholds, out, m, v):
    """output in values, class i <=> thr[i-1] < x <= thr[i]; arithmetic = midpoints of sorted values; equal = normal quantiles"""
    values = np.asarray(values, dtype=float)
    if isinstance(thresholds, str) and thresholds == "arithmetic":
        values = np.sort(values)
        thr = (values[1:] + values[:-1]) / 2
    elif isinstance(thresholds, str) and thresholds == "equal":
        n = len(values)
        thr = stats.norm.ppf(np.arange(1, n) / n, loc=m, scale=math.sqrt(v))
        # independent quantiles: samples within 1e-9*scale of a threshold may fall on either side
        cls = np.searchsorted(thr, x, side="left")
        near = np.min(np.abs(x[:, None] - thr[None, :]), axis=1) <= 1e-9 * (abs(m) + math.sqrt(v))
        good = (out == values[cls]) | near
        return bool(np.isin(out, values).all() and good.all())
    else:
        thr = np.asarray(thresholds, dtype=float)
    cls = np.searchsorted(thr, x, side="left")      # number of thresholds < x  (x <= thr[i] stays in class i)
    return bool(np.isin(out, values).all() and (out == values[cls]).all())


# --------------------------------------------------------------------------- probes: array functions

def probe_pointwise(ctx, rng):
    """F_target(T(x)) = Phi((x-m)/sigma) on grids over +-8 sigma, against scipy's independent distribution functions"""
    from gstools.transform import array as A
    reps = 10 if ctx.tier == "quick" else 100
    zgrid = np.concatenate([np.linspace(-8, 8, 1601), rng.normal(size=400), [0.0, 1e-12, -1e-12]])
    for rep in range(reps):
        m = float(rng.choice([0.0, 1.0, -7.0, float(rng.normal() * 10)]))
        s = lu(rng, 0.02, 30)
        x = m + s * zgrid
        v = s * s
        low = float(rng.normal() * 5)
        high = low + lu(rng, 0.01, 100)
        a = float(rng.normal() * 5)
        b = a + lu(rng, 0.01, 100)
        lm = float(rng.choice([1.0, 0.5, -0.5, 0.3, 0.0, 2.0]))
        sh = float(rng.choice([0.0, 1.0]))
        xs = x / (abs(m) + 8 * s) * 5
        probes = [
            ("array_to_uniform", dict(field=x, mean=m, var=v, low=low, high=high)),
            ("array_to_arcsin", dict(field=x, mean=m, var=v, a=a, b=b)),
            ("array_to_arcsin", dict(field=x, mean=m, var=v, a=None, b=None)),
            ("array_to_uquad", dict(field=x, mean=m, var=v, a=a, b=b)),
            ("array_to_uquad", dict(field=x, mean=m, var=v, a=None, b=None)),
            ("array_zinnharvey", dict(field=x[np.abs(zgrid) > 1e-6], conn="high", mean=m, var=v)),
            ("array_zinnharvey", dict(field=x[np.abs(zgrid) > 1e-6], conn="low", mean=m, var=v)),
            ("array_to_lognormal", dict(field=xs)),
            ("array_boxcox", dict(field=xs / 5, lmbda=lm, shift=sh)),
        ]
        for name, kw in probes:
            out = impl_call(getattr(A, name), **kw)
            ctx.count(("pointwise", name, rep, kw.get("a") is None, kw.get("conn")), hist=dict(probe="pointwise:" + name))
            ok = (not is_err(out)) and property_holds(name, kw, out)
            mono = True
            if not is_err(out) and name not in ("array_zinnharvey",):
                o = np.argsort(kw["field"], kind="stable")
                mono = bool((np.diff(out[o]) >= 0).all())
            if not ok or not mono:
                report(ctx, "probe: pointwise cdf identity, %s" % name,
                              "%s: F_target(T(x)) differs from Phi((x-mean)/sigma)%s" % (name, "" if mono else " / T not monotone"),
                              dict(function=name, args={k: (hexl(v_) if isinstance(v_, np.ndarray) else v_) for k, v_ in kw.items()},
                                   out=(hexl(out) if not is_err(out) else list(out))), key="pointwise:%s" % name)
        # default bounds preserve mean and variance (moments of the target laws by numerical integration of the ppf)
        ug = (np.arange(200000) + 0.5) / 200000
        for name, ppf in (("arcsin", A._uniform_to_arcsin), ("uquad", A._uniform_to_uquad)):
            fac = 2.0 if name == "arcsin" else 5.0 / 3.0
            aa, bb = m - math.sqrt(fac * v), m + math.sqrt(fac * v)
            y = ppf(ug, aa, bb)
            ctx.count(("default-bounds", name, rep), hist=dict(probe="default-bounds:" + name))
            # midpoint rule on the quantile function; the arcsine ppf is smooth, the U-quadratic one has a cube-root
            # singularity at u = 1/2: error of the rule < 1e-5 relative for both at 2e5 nodes
            if abs(np.mean(y) - m) > 1e-5 * (abs(m) + s) or abs(np.mean((y - m) ** 2) - v) > 1e-4 * v:
                report(ctx, "probe: default bounds preserve mean and variance (%s)" % name,
                              "moments of the %s law on the default bounds differ from the input mean/variance" % name,
                              dict(law=name, mean=m, var=v, a=aa, b=bb, got_mean=float(np.mean(y)), got_var=float(np.mean((y - m) ** 2))),
                              key="default-bounds:%s" % name)


def probe_ks(ctx, rng):
    """large seeded normal samples through every array transformation; Kolmogorov distance to the target cdf
    below the DKW bound at level 1e-9 (so a correct tree fails with probability < 1e-9 per test)"""
    from gstools.transform import array as A
    n = 500000 if ctx.tier == "quick" else 4000000
    eps = dkw(n)
    reps = 2 if ctx.tier == "quick" else 5
    for rep in range(reps):
        m = float(rng.choice([0.0, 2.5, -4.0]))
        s = lu(rng, 0.2, 5)
        v = s * s
        x = rng.normal(m, s, size=n)
        low = float(rng.normal() * 3)
        high = low + lu(rng, 0.1, 20)
        a = float(rng.normal() * 3)
        b = a + lu(rng, 0.1, 20)
        da, db = m - math.sqrt(2 * v), m + math.sqrt(2 * v)
        qa, qb = m - math.sqrt(5 / 3 * v), m + math.sqrt(5 / 3 * v)
        lm = float(rng.choice([0.5, 0.3, 1.0]))
        sh = (8.5 * s - m) + 1.0 / lm       # lmbda*(x+shift)+1 > 0 for |z| < 8.5
        tests = [
            ("array_to_uniform", dict(field=x, mean=m, var=v, low=low, high=high), lambda y: np.clip((y - low) / (high - low), 0, 1)),
            ("array_to_lognormal", dict(field=(x - m) / s * 0.7 + 0.3), lambda y: stats.lognorm.cdf(y, s=0.7, scale=math.exp(0.3))),
            ("array_to_arcsin", dict(field=x, mean=m, var=v, a=a, b=b), lambda y: cdf_arcsine(y, a, b)),
            ("array_to_arcsin", dict(field=x, mean=m, var=v), lambda y: cdf_arcsine(y, da, db)),
            ("array_to_uquad", dict(field=x, mean=m, var=v, a=a, b=b), lambda y: cdf_uquad(y, a, b)),
            ("array_to_uquad", dict(field=x, mean=m, var=v), lambda y: cdf_uquad(y, qa, qb)),
            ("array_zinnharvey", dict(field=x, conn="high", mean=m, var=v), lambda y: stats.norm.cdf(y, m, s)),
            ("array_zinnharvey", dict(field=x, conn="low", mean=m, var=v), lambda y: stats.norm.cdf(y, m, s)),
            ("array_boxcox", dict(field=x, lmbda=lm, shift=sh), lambda y: stats.norm.cdf((y ** lm - 1) / lm, m + sh, s)),
            ("array_boxcox", dict(field=(x - m) / s, lmbda=0, shift=0.5), lambda y: stats.norm.cdf(np.log(y), 0.5, 1.0)),
        ]
        for name, kw, cdf in tests:
            out = impl_call(getattr(A, name), **kw)
            d = 1.0 if is_err(out) else ks_distance(out, cdf)
            ctx.count(("ks", name, rep, len(kw)), hist=dict(probe="ks:" + name))
            if not d <= eps:
                report(ctx, "probe: Kolmogorov distance, %s" % name,
                              "%s: distance %.4g of %d transformed normal samples to the documented law exceeds the DKW bound %.4g" % (name, d, n, eps),
                              dict(function=name, n=n, seed=ctx.seed, rep=rep, mean=m, sigma=s,
                                   args={k: v_ for k, v_ in kw.items() if not isinstance(v_, np.ndarray)}, distance=d, bound=eps),
                              key="ks:%s" % name)
        # force_moments: exactly the requested sample moments
        for tm, tv in ((0.0, 1.0), (float(rng.normal() * 10), lu(rng, 1e-3, 1e3))):
            out = impl_call(A.array_force_moments, x, tm, tv)
            ctx.count(("moments", rep, tm != 0.0), hist=dict(probe="force_moments"))
            if is_err(out) or not property_holds("array_force_moments", dict(field=x, mean=tm, var=tv), out):
                report(ctx, "probe: force_moments exact moments", "sample mean/variance after array_force_moments differ from the requested ones",
                              dict(n=n, seed=ctx.seed, mean=tm, var=tv, got=None if is_err(out) else [float(np.mean(out)), float(np.var(out))]),
                              key="moments:force")
        # discrete 'equal': equal-probability classes; binary-like split at the mean
        for k in (2, 3, 7):
            vals = np.sort(rng.normal(size=k)) + np.arange(k)
            out = impl_call(A.array_discrete, x, vals, "equal", m, v)
            ctx.count(("equal", rep, k), hist=dict(probe="discrete-equal"))
            bad = is_err(out)
            if not bad:
                cnt = np.array([(out == q).sum() for q in vals])
                se = math.sqrt(n * (1.0 / k) * (1 - 1.0 / k))
                bad = cnt.sum() != n or bool((np.abs(cnt - n / k) > 6.5 * se).any())
            if bad:
                report(ctx, "probe: discrete 'equal' classes", "classes of array_discrete(thresholds='equal') are not equally likely for normal input",
                              dict(n=n, seed=ctx.seed, k=k, counts=None if is_err(out) else cnt.tolist()), key="equal:classes")


def probe_partition(ctx, rng):
    """discrete / binary: output only the given values, partitioned at the stated thresholds"""
    from gstools.transform import array as A
    reps = 250 if ctx.tier == "quick" else 3000
    for rep in range(reps):
        n = int(rng.choice([1, 2, 7, 50, 400]))
        x, m, s = gen_field(rng, n)
        k = int(rng.integers(2, 9))
        vals = rng.normal(m, 2 * s, size=k)
        mode = ["arithmetic", "equal", "given", "given-ndarray", "binary"][rep % 5]
        if mode == "arithmetic":
            thr = "arithmetic"
        elif mode == "equal":
            thr = "equal"
        elif mode == "binary":
            vals = vals[:2]
            thr = [float(rng.normal(m, s))]
        else:
            t = np.sort(rng.normal(m, s, size=k - 1))
            if n > 1:
                x[0] = t[0]                     # exactly on a threshold: belongs to the lower class
            thr = t if mode == "given-ndarray" else list(t)
        out = impl_call(A.array_discrete, x, vals if rep % 2 else list(vals), thr, m, s * s)
        ctx.count(("partition", mode, k, n > 1), hist=dict(probe="partition:" + mode))
        ok = (not is_err(out)) and discrete_statement(x, vals, thr, out, m, s * s)
        if not ok:
            report(ctx, "probe: discrete partition (%s thresholds)" % mode,
                          "array_discrete%s" % (" raised %s" % out[2] if is_err(out) else " output is not the value of the class thr[i-1] < x <= thr[i]"),
                          dict(mode=mode, field=hexl(x), values=hexl(vals), thresholds=(thr if isinstance(thr, str) else hexl(thr)),
                               thresholds_type=type(thr).__name__, mean=m, var=s * s, out=(list(out) if is_err(out) else hexl(out))),
                          key="partition:%s" % mode)


# --------------------------------------------------------------------------- Field.transform wrappers

NAMES = ["field", "aux", "t1", "t2", "t3"]
METHODS = ["binary", "discrete", "boxcox", "zinnharvey", "normal_force_moments", "normal_to_lognormal",
           "normal_to_uniform", "normal_to_arcsin", "normal_to_uquad"]


def make_field(cfg, n):
    import gstools as gs
    model = gs.Exponential(dim=1, var=cfg["var"], nugget=cfg["nugget"], len_scale=1.0)
    norm = None
    if cfg["ncode"] == 1:
        norm = gs.normalizer.LogNormal()
    elif cfg["ncode"] == 2:
        norm = gs.normalizer.BoxCox(lmbda=cfg["lmbda"])
    trend = None
    if cfg["trend"] == "const":
        trend = cfg["t0"]
    elif cfg["trend"] == "linear":
        t0, t1 = cfg["t0"], cfg["t1"]
        trend = lambda xx: t0 + t1 * xx  # noqa: E731
    fld = gs.SRF(model, mean=cfg["mean"], normalizer=norm, trend=trend)
    pos = np.arange(n, dtype=float)
    fld.set_pos([pos], "unstructured")
    return fld, pos


def trend_values(cfg, pos):
    if cfg["trend"] == "none":
        return None
    if cfg["trend"] == "const":
        return np.full(len(pos), cfg["t0"])
    return cfg["t0"] + cfg["t1"] * pos


def gen_cfg(rng):
    ncode = int(rng.choice([0, 0, 1, 2]))
    return dict(mean=float(rng.choice([0.0, 1.5, -2.0, float(rng.normal() * 3)])), var=lu(rng, 0.1, 9), nugget=float(rng.choice([0.0, 0.0, 0.3])),
                ncode=ncode, lmbda=float(rng.choice([0.3, 0.7, -0.4, 0.0])) if ncode == 2 else 0.0,
                trend=str(rng.choice(["none", "none", "const", "linear"])), t0=float(rng.normal()), t1=float(rng.normal() * 0.1))


def gen_method(rng, mean, sill):
    """(method name for Field.transform, python kwargs, model encoding (code, mode, p1, p2, p3))"""
    name = METHODS[int(rng.integers(len(METHODS)))]
    sd = math.sqrt(sill)
    if name == "binary":
        d = None if rng.random() < 0.5 else float(rng.normal(mean, sd))
        u = None if rng.random() < 0.5 else float(rng.normal(mean + 1, sd))
        lo = None if rng.random() < 0.5 else float(rng.normal(mean - 1, sd))
        kw = {}
        if d is not None or rng.random() < 0.3:
            kw["divide"] = d
        if u is not None:
            kw["upper"] = u
        if lo is not None:
            kw["lower"] = lo
        return name, kw, (0, 0, opt(d), opt(u), opt(lo))
    if name == "discrete":
        k = int(rng.integers(2, 6))
        vals = np.round(rng.normal(mean, 2 * sd, size=k), 3)
        mode = int(rng.integers(3))
        if mode == 2:
            thr = np.sort(rng.normal(mean, sd, size=k - 1))
            if rng.random() < 0.15:
                thr = thr[:-1]
            return name, dict(values=list(vals), thresholds=list(thr)), (1, 2, vals, thr, E)
        return name, dict(values=list(vals), thresholds=["arithmetic", "equal"][mode]), (1, mode, vals, E, E)
    if name == "boxcox":
        lm = float(rng.choice([1.0, 0.5, 0.3, -0.4, 0.0]))
        sh = float(rng.choice([0.0, 2.0]))
        return name, dict(lmbda=lm, shift=sh), (2, 0, np.array([lm, sh]), E, E)
    if name == "zinnharvey":
        conn = str(rng.choice(["high", "low"]))
        return name, dict(conn=conn), (3, 1 if conn == "high" else 0, E, E, E)
    if name == "normal_force_moments":
        return name, {}, (4, 0, E, E, E)
    if name == "normal_to_lognormal":
        return name, {}, (5, 0, E, E, E)
    if name == "normal_to_uniform":
        low = float(rng.normal())
        high = low + lu(rng, 0.1, 10)
        if rng.random() < 0.3:
            return name, {}, (6, 0, np.array([0.0, 1.0]), E, E)
        return name, dict(low=low, high=high), (6, 0, np.array([low, high]), E, E)
    a = None if rng.random() < 0.5 else float(rng.normal(mean - 2, 1))
    b = None if rng.random() < 0.5 else float(rng.normal(mean + 3, 1))
    kw = {}
    if a is not None:
        kw["a"] = a
    if b is not None:
        kw["b"] = b
    return name, kw, (7 if name == "normal_to_arcsin" else 8, 0, opt(a), opt(b), E)


def valid_for_process(cfg, data, tr):
    """is the stored data inside the normalizer's range after detrending (otherwise the Normalizer turns it into NaN,
    which is C18's subject and outside the transformation model)"""
    if cfg["ncode"] == 0:
        return True
    d = data - (0.0 if tr is None else tr)
    return bool(np.isfinite(d).all() and (d > 1e-12).all())


def wrapper_correspondence(ctx, rng, drv):
    """operation sequences on a Field with stored fields: after every Field.transform call compare the returned values,
    the error kind, the list of stored names and every stored field with the model's transform_step"""
    nseq = 150 if ctx.tier == "quick" else 1500
    nops = 0
    for seq in range(nseq):
        cfg = gen_cfg(rng)
        n = int(rng.choice([1, 3, 8, 24]))
        fld, pos = make_field(cfg, n)
        sill = float(fld.model.sill)
        tr = trend_values(cfg, pos)
        # stored start fields: in normal space z ~ N(mean, sill), stored = denormalize(z) + trend
        state_names = []
        state_rows = []
        for nm in NAMES[: int(rng.integers(1, 3))]:
            z = rng.normal(cfg["mean"], math.sqrt(sill), size=n)
            with warnings.catch_warnings():
                warnings.simplefilter("ignore")
                dat = np.array(fld.normalizer.denormalize(z), dtype=float) + (0.0 if tr is None else tr)
            if not np.isfinite(dat).all():
                dat = np.abs(z) + 1.0 + (0.0 if tr is None else tr)
            fld.post_field(dat, name=nm, process=False, save=True)
            state_names.append(NAMES.index(nm))
            state_rows.append(dat.copy())
        for op in range(int(rng.integers(1, 6))):
            if op > 0 and rng.random() < 0.35:
                # history: change a parameter of the SAME Field object in place between two calls; the next result must be the one
                # of the present parameter values (the model is called with the present configuration, it has no memory)
                what = str(rng.choice(["mean", "var", "nugget", "trend", "normalizer"]))
                cfg = dict(cfg)
                if what == "mean":
                    cfg["mean"] = float(rng.choice([0.0, -1.0, 2.5, float(rng.normal() * 2)]))
                    fld.mean = cfg["mean"]
                elif what == "var":
                    cfg["var"] = lu(rng, 0.1, 9)
                    fld.model.var = cfg["var"]
                elif what == "nugget":
                    cfg["nugget"] = float(rng.choice([0.0, 0.3, 1.0]))
                    fld.model.nugget = cfg["nugget"]
                elif what == "trend":
                    cfg.update(trend=str(rng.choice(["none", "const", "linear"])), t0=float(rng.normal()), t1=float(rng.normal() * 0.1))
                    t0_, t1_ = cfg["t0"], cfg["t1"]
                    fld.trend = None if cfg["trend"] == "none" else t0_ if cfg["trend"] == "const" else (lambda xx, t0_=t0_, t1_=t1_: t0_ + t1_ * xx)
                else:
                    import gstools as gs
                    cfg["ncode"] = int(rng.choice([0, 1, 2]))
                    cfg["lmbda"] = float(rng.choice([0.3, 0.7, -0.4, 0.0])) if cfg["ncode"] == 2 else 0.0
                    fld.normalizer = None if cfg["ncode"] == 0 else gs.normalizer.LogNormal() if cfg["ncode"] == 1 else gs.normalizer.BoxCox(lmbda=cfg["lmbda"])
                sill = float(fld.model.sill)
                tr = trend_values(cfg, pos)
                ctx.count(("history", what), hist=dict(history_change=what))
            mname, kw, enc = gen_method(rng, cfg["mean"], sill)
            present = list(fld.field_names)
            src = str(rng.choice(present)) if rng.random() < 0.93 else "t3"
            store = [True, False, "t1", "t2", src][int(rng.integers(5))]
            process = bool(rng.random() < 0.55)
            keep_mean = bool(rng.random() < 0.5)
            src_data = np.array(fld[src], dtype=float) if src in present else None
            if process and src_data is not None and not valid_for_process(cfg, src_data, tr):
                process = False
            if mname == "normal_force_moments" and src_data is not None:
                # sqrt(var / var_in) on a (nearly) constant field is 0/0-conditioned: the result is rounding noise of the
                # summation order on both sides (e.g. after a discrete step put every cell into one class): use another method
                dd = src_data - (tr if (tr is not None and process) else 0.0)
                if not np.isfinite(dd).all() or np.ptp(dd) <= 1e-6 * (1.0 + np.max(np.abs(dd))):
                    mname, kw, enc = "normal_to_lognormal", {}, (5, 0, E, E, E)
            before = {k: np.array(fld[k], dtype=float).copy() for k in present}
            ri = impl_call(fld.transform, mname, field=src, store=store, process=process, keep_mean=keep_mean, **kw)
            store_enc = ("z", -2) if store is True else ("z", -1) if store is False else ("z", NAMES.index(store))
            rm = drv.call("transform_step", NAN, cfg["mean"], sill, ("n", cfg["ncode"]), cfg["lmbda"], tr is not None,
                          tr if tr is not None else E, np.array(state_names, dtype=np.int64), np.array(state_rows).reshape(len(state_rows), n),
                          ("n", enc[0]), ("n", enc[1]), enc[2], enc[3], enc[4], ("z", NAMES.index(src)), store_enc, process, keep_mean)
            nops += 1
            ctx.count(("wrapper", mname, process, keep_mean, cfg["ncode"], cfg["trend"], type(store).__name__, is_err(ri)),
                      hist=dict(wrapper=mname, process=process, keep_mean=keep_mean, normalizer=cfg["ncode"], trend=cfg["trend"],
                                store=str(store) if isinstance(store, bool) else "name", wrapper_outcome="raises" if is_err(ri) else "value"))
            ctx.sample(dict(wrapper=mname, kwargs={k: (v if not isinstance(v, list) else len(v)) for k, v in kw.items()}, process=process, keep_mean=keep_mean, store=store))
            case = dict(cfg=cfg, n=n, method=mname, kwargs=kw, field=src, store=store, process=process, keep_mean=keep_mean,
                        stored={NAMES[i]: hexl(r) for i, r in zip(state_names, state_rows)})
            scale_out = None
            ok = True
            store_bad = None
            if is_err(ri) or isinstance(rm, (int, np.integer)):
                ok = same(ri, rm if isinstance(rm, (int, np.integer)) else None, None) if is_err(ri) else False
                if is_err(ri) and not ok:
                    pass
                # an exception must leave the stored fields alone
                if is_err(ri):
                    ok = ok and list(fld.field_names) == present and all(C.bit_equal(before[k], fld[k]) for k in present)
            else:
                names_m, rows_m, out_m = rm
                rows_m = np.atleast_2d(rows_m)
                names_i = [NAMES.index(k) for k in fld.field_names]
                scale_out = 1.0 + np.abs(ri) + (np.abs(tr) if tr is not None else 0.0) + abs(cfg["mean"])
                # NaN cells of the source (left by an earlier step, e.g. force_moments of a single value) are outside the
                # property's domain; array_discrete leaves such cells uninitialised (np.empty_like): not compared
                undef = np.isnan(src_data) if mname in ("binary", "discrete") else np.zeros(n, dtype=bool)
                tgt = src if store is True else store
                ri = np.where(undef, NAN, ri)
                out_m = np.where(undef, NAN, out_m)
                ok = names_i == [int(k) for k in names_m] and close(ri, out_m, rtol=1e-9, scale=scale_out)
                if names_i != [int(k) for k in names_m]:
                    store_bad = "stored names %s, expected %s" % ([NAMES[k] for k in names_i], [NAMES[int(k)] for k in names_m])
                if ok:
                    for k, row in zip(names_i, rows_m):
                        cur = np.array(fld[NAMES[k]], dtype=float)
                        if NAMES[k] == tgt:
                            cur, row = np.where(undef, NAN, cur), np.where(undef, NAN, row)
                        if not close(cur, row, rtol=1e-9, scale=1.0 + np.abs(cur)):
                            ok = False
                            store_bad = "stored field '%s' is not the one predicted (target of this call: %s)" % (NAMES[k], tgt)
                if ok:
                    state_names = [int(k) for k in names_m]
                    state_rows = [np.array(fld[NAMES[k]], dtype=float).copy() for k in state_names]   # re-synchronise on the implementation
            if not ok:
                report(ctx, "correspondence: Field.transform('%s')" % mname,
                              "Field.transform wrapper and model disagree (returned values / error kind / stored fields)" + (
                                  "" if store_bad is None else ": " + store_bad + " — the statement of C19_transform_store fails on this history"),
                              dict(case, impl=(list(ri) if is_err(ri) else hexl(ri)),
                                   model=(int(rm) if isinstance(rm, (int, np.integer)) else [list(map(int, rm[0])), hexl(rm[2])])),
                              key=("corr:wrapper:%s" % mname) if store_bad is None else "corr:wrapper-store", no_input=(store_bad is None))
                break
    ctx.notes.append("wrapper correspondence: %d Field.transform calls in %d operation sequences" % (nops, nseq))


def probe_wrappers(ctx, rng):
    """every wrapper x process x keep_mean x normalizer x trend on large iid normal-space samples: the value handed to the
    target law follows it (Kolmogorov distance, DKW 1e-9), exact moments, partitions; guard behaviour"""
    import gstools as gs
    n = 200000 if ctx.tier == "quick" else 1500000
    eps = dkw(n)
    combos = [(False, True, 0, "none"), (True, True, 0, "none"), (True, False, 0, "none"), (True, True, 1, "linear"),
              (True, False, 1, "const"), (True, False, 2, "none"), (True, True, 2, "linear")]
    for process, keep_mean, ncode, trend in combos:
        cfg = dict(mean=float(rng.choice([0.8, -1.2, 2.0])), var=lu(rng, 0.3, 2.0), nugget=float(rng.choice([0.0, 0.2])), ncode=ncode,
                   lmbda=0.3, trend=trend, t0=float(rng.normal()), t1=1e-5)
        if ncode == 2:
            # BoxCox(0.3).denormalize is defined on (-1/0.3, inf) only (values outside become NaN: C18's subject):
            # keep mean - 8.5 sigma inside that range so that every transformed value can be post-processed
            cfg.update(mean=2.5, var=lu(rng, 0.05, 0.3), nugget=0.0)
        fld, pos = make_field(cfg, n)
        sill = float(fld.model.sill)
        sd = math.sqrt(sill)
        m = cfg["mean"]
        tr = trend_values(cfg, pos)
        z = rng.normal(m, sd, size=n)
        if ncode == 2:
            z = np.clip(z, -1 / 0.3 + 1e-3, None)          # inside BoxCox's denormalize range (|z-m| > 7 sigma otherwise)
        with warnings.catch_warnings():
            warnings.simplefilter("ignore")
            stored = np.array(fld.normalizer.denormalize(z), dtype=float) + (0.0 if tr is None else tr)
        fld.post_field(stored, name="field", process=False, save=True)
        shift = 0.0 if (keep_mean or not process) else m        # what is added back after the transformation
        marg = m - shift                                          # mean handed to the array function

        def normal_space(out):
            """undo the post-processing: value of the transformed field in normal space, minus the re-added mean"""
            if not process:
                return out
            with warnings.catch_warnings():
                warnings.simplefilter("ignore")
                return np.array(fld.normalizer.normalize(out - (0.0 if tr is None else tr)), dtype=float) - shift

        low, high = -1.0 + 0.5 * float(np.clip(rng.normal(), -2, 2)), 2.5     # > -1/0.3: inside BoxCox(0.3)'s denormalize range
        a, b = marg - 3.0, marg + 1.0
        vals = np.array([-1.0, 0.5, 2.0, 3.5]) + marg
        tests = [
            ("normal_to_uniform", dict(low=low, high=high), lambda y: np.clip((y - low) / (high - low), 0, 1)),
            ("normal_to_arcsin", dict(a=a, b=b), lambda y: cdf_arcsine(y, a, b)),
            ("normal_to_arcsin", {}, lambda y: cdf_arcsine(y, marg - math.sqrt(2 * sill), marg + math.sqrt(2 * sill))),
            ("normal_to_uquad", dict(a=a, b=b), lambda y: cdf_uquad(y, a, b)),
            ("normal_to_uquad", {}, lambda y: cdf_uquad(y, marg - math.sqrt(5 / 3 * sill), marg + math.sqrt(5 / 3 * sill))),
            ("zinnharvey", dict(conn="high"), lambda y: stats.norm.cdf(y, marg, sd)),
            ("zinnharvey", dict(conn="low"), lambda y: stats.norm.cdf(y, marg, sd)),
        ]
        if ncode == 0:      # with a LogNormal / BoxCox normalizer exp(z) is post-processed by another exp / power: overflows
            tests.append(("normal_to_lognormal", {}, lambda y: stats.norm.cdf(np.log(y), marg, sd)))
        for mname, kw, cdf in tests:
            out = impl_call(fld.transform, mname, field="field", store="t1", process=process, keep_mean=keep_mean, **kw)
            ctx.count(("wks", mname, process, keep_mean, ncode, trend, len(kw)), hist=dict(probe="wrapper-ks:" + mname))
            if is_err(out):
                d = 1.0
            else:
                w = normal_space(out)
                d = ks_distance(w, cdf) if np.isfinite(w).all() else 1.0
            same_stored = (not is_err(out)) and C.bit_equal(fld["t1"], out) and close(fld["field"], stored, rtol=1e-12)
            if not d <= eps or not same_stored:
                report(ctx, "probe: wrapper Kolmogorov distance, %s" % mname,
                              "Field.transform('%s', process=%s, keep_mean=%s): distance %.4g to the documented law exceeds the DKW bound %.4g%s"
                              % (mname, process, keep_mean, d, eps, "" if same_stored else " / stored fields wrong"),
                              dict(method=mname, kwargs=kw, process=process, keep_mean=keep_mean, cfg=cfg, n=n, seed=ctx.seed, distance=d, bound=eps,
                                   error=(list(out) if is_err(out) else None)),
                              key="wks:%s:%s:%s" % (mname, process, keep_mean))
        # force moments: exact sample moments in normal space
        out = impl_call(fld.transform, "normal_force_moments", field="field", store=False, process=process, keep_mean=keep_mean)
        ctx.count(("wmoments", process, keep_mean, ncode, trend), hist=dict(probe="wrapper-force_moments"))
        w = None if is_err(out) else normal_space(out)
        if is_err(out) or abs(np.mean(w) - marg) > 1e-8 * (abs(marg) + sd) or abs(np.var(w) - sill) > 1e-8 * sill:
            report(ctx, "probe: wrapper force_moments", "normal_force_moments does not give the field's mean and the model's sill as sample moments",
                          dict(process=process, keep_mean=keep_mean, cfg=cfg, n=n, seed=ctx.seed,
                               got=None if w is None else [float(np.mean(w)), float(np.var(w))], want=[marg, sill],
                               error=(list(out) if is_err(out) else None)), key="wmoments:%s:%s" % (process, keep_mean))
        # discrete (three modes, list and ndarray thresholds) and binary: partition in normal space
        zz = z - shift
        thr_given = np.array([-0.7, 0.1, 0.9]) * sd + marg
        for mode, kw in (("arithmetic", dict(values=vals, thresholds="arithmetic")), ("equal", dict(values=vals, thresholds="equal")),
                         ("given", dict(values=list(vals), thresholds=list(thr_given))), ("given-ndarray", dict(values=vals, thresholds=thr_given)),
                         ("binary", dict()), ("binary-args", dict(divide=marg + 0.3 * sd, upper=marg + 3.0, lower=marg - 0.5))):
            if mode.startswith("binary"):
                out = impl_call(fld.transform, "binary", field="field", store=False, process=process, keep_mean=keep_mean, **kw)
                bv = [kw.get("lower", marg - sd), kw.get("upper", marg + sd)]
                bt = [kw.get("divide", marg)]
            else:
                out = impl_call(fld.transform, "discrete", field="field", store=False, process=process, keep_mean=keep_mean, **kw)
                bv, bt = kw["values"], kw["thresholds"]
            ctx.count(("wpartition", mode, process, keep_mean, ncode, trend), hist=dict(probe="wrapper-partition:" + mode))
            ok = not is_err(out)
            if ok:
                w = normal_space(out)
                # post/pre-processing round trip: snap to the nearest admissible value before the exact class comparison
                bvs = np.sort(np.asarray(bv, dtype=float))
                near = bvs[np.argmin(np.abs(w[:, None] - bvs[None, :]), axis=1)]
                ok = bool(np.allclose(w, near, rtol=1e-9, atol=1e-9)) and discrete_statement(zz, bv, bt, near, marg, sill)
                if ok and mode in ("equal", "binary"):
                    k = len(bvs)
                    cnt = np.array([(near == q).sum() for q in bvs])
                    ok = bool((np.abs(cnt - n / k) <= 6.5 * math.sqrt(n * (1 / k) * (1 - 1 / k))).all())
            if not ok:
                report(ctx, "probe: wrapper partition (%s)" % mode,
                              "Field.transform discrete/binary (%s, process=%s, keep_mean=%s)%s" % (
                                  mode, process, keep_mean, " raised %s" % out[2] if is_err(out) else ": output is not the value of the class of the input"),
                              dict(mode=mode, process=process, keep_mean=keep_mean, cfg=cfg, n=n, seed=ctx.seed, thresholds_type=type(bt).__name__,
                                   error=(list(out) if is_err(out) else None)), key="wpartition:%s" % mode)
    # method-name dispatch of transform.apply (short aliases, user functions, unknown names)
    f = gs.SRF(gs.Gaussian(dim=1, var=2.0), mean=0.7, normalizer=gs.normalizer.LogNormal(), trend=lambda x: 0.1 * x)
    p5 = np.arange(40.0)
    f.set_pos([p5], "unstructured")
    z5 = rng.normal(0.7, math.sqrt(2.0), size=40)
    f.post_field(np.exp(z5) + 0.1 * p5, name="field", process=False, save=True)
    for full, alias, kw in (("normal_to_uniform", "uniform", dict(low=-1.0, high=2.0)), ("normal_to_arcsin", "arcsin", {}), ("normal_to_uquad", "uquad", {}),
                            ("normal_to_lognormal", "lognormal", {}), ("normal_force_moments", "force_moments", {})):
        for km in (True, False):
            a1 = impl_call(f.transform, full, store=False, process=True, keep_mean=km, **kw)
            a2 = impl_call(f.transform, alias, store=False, process=True, keep_mean=km, **kw)
            ctx.count(("alias", alias, km), hist=dict(probe="dispatch"))
            if is_err(a1) or is_err(a2) or not C.bit_equal(a1, a2):
                report(ctx, "probe: transform.apply dispatch", "Field.transform('%s') and Field.transform('%s') differ" % (full, alias),
                              dict(full=full, alias=alias, keep_mean=km), key="dispatch:%s" % alias)
    for km in (True, False):
        got = impl_call(f.transform, "function", function=lambda d, c: c * d + 1.0, c=0.5, store=False, process=True, keep_mean=km)
        sh5 = 0.0 if km else 0.7
        want = np.exp(0.5 * (np.log(np.exp(z5)) - sh5) + 1.0 + sh5) + 0.1 * p5
        ctx.count(("function", km), hist=dict(probe="dispatch"))
        if is_err(got) or not close(got, want, rtol=1e-9, scale=np.abs(want) + 1.0):
            report(ctx, "probe: apply_function processing", "Field.transform('function', process=True, keep_mean=%s) is not post(f(pre(field)))" % km,
                          dict(keep_mean=km, got=(list(got) if is_err(got) else hexl(got)), want=hexl(want)), key="dispatch:function")
    got = impl_call(f.transform, "no_such_transformation", store=False)
    ctx.count(("unknown",), hist=dict(probe="dispatch"))
    if not (is_err(got) and got[0] == "err" and got[1] == 1):
        report(ctx, "probe: transform.apply dispatch", "unknown method name did not raise ValueError", dict(got=str(got)), key="dispatch:unknown")
    # _check_for_default_normal: transformations that need the mean/variance refuse non-normal fields when process=False
    model = gs.Gaussian(dim=1, var=1.0)
    guard_cfgs = [("normalizer", dict(normalizer=gs.normalizer.LogNormal())), ("trend", dict(trend=1.0)), ("mean callable", dict(mean=lambda x: x)),
                  ("mean None", dict(mean=None))]
    for what, kw in guard_cfgs:
        f = gs.SRF(model, **kw)
        f.set_pos([np.arange(5.0)], "unstructured")
        f.post_field(np.arange(5.0) + 1, name="field", process=False, save=True)
        for mname, mk in (("zinnharvey", {}), ("normal_force_moments", {}), ("normal_to_uniform", {}), ("normal_to_arcsin", {}),
                          ("normal_to_uquad", {}), ("binary", {}), ("discrete", dict(values=[1.0, 2.0], thresholds="equal"))):
            out = impl_call(f.transform, mname, store=False, **mk)
            ctx.count(("guard", what, mname), hist=dict(probe="guard"))
            if not (is_err(out) and out[0] == "err" and out[1] == 1) or not C.bit_equal(f["field"], np.arange(5.0) + 1):
                report(ctx, "probe: _check_for_default_normal", "Field.transform('%s') on a field with %s and process=False did not raise ValueError" % (mname, what),
                              dict(method=mname, config=what, got=(list(out) if is_err(out) else hexl(out))), key="guard:%s:%s" % (mname, what))


# --------------------------------------------------------------------------- boundary / falsy option values

def zero_variants():
    """values of a numeric option that are 0 but differ in Python type / truthiness protocol"""
    return [("int0", 0), ("float0", 0.0), ("negzero", -0.0), ("np.float64", np.float64(0.0)), ("np.int64", np.int64(0)), ("0-d array", np.zeros(()))]


def falsy_options(ctx, rng, drv):
    """every numeric option of every array transformation takes the value 0 in all its spellings (0, 0.0, -0.0, numpy zeros):
    an explicit 0 must be used as given (never replaced by a default); implementation vs model, and the pointwise
    property statement with the option = 0"""
    from gstools.transform import array as A
    reps = 1 if ctx.tier == "quick" else 4
    for rep in range(reps):
        n = int(rng.choice([5, 12]))
        m = float(rng.choice([1.7, -2.3, 0.6]))
        s = lu(rng, 0.3, 2.0)
        x = rng.normal(m, s, size=n)
        x[0] = 0.0
        v = s * s
        pos = lambda: lu(rng, 0.5, 6.0)  # noqa: E731
        vals = [-1.5, 0.0, 2.0]
        # (function, option set to 0, remaining keyword arguments, model call given the float value of the option)
        plans = [
            ("array_to_uniform", "low", dict(mean=m, var=v, high=pos()), lambda d, z, k: d.call("to_uniform", x, opt(k["mean"]), opt(k["var"]), z, k["high"])),
            ("array_to_uniform", "high", dict(mean=m, var=v, low=-pos()), lambda d, z, k: d.call("to_uniform", x, opt(k["mean"]), opt(k["var"]), k["low"], z)),
            ("array_to_uniform", "mean", dict(var=v, low=-1.0, high=pos()), lambda d, z, k: d.call("to_uniform", x, opt(z), opt(k["var"]), k["low"], k["high"])),
            ("array_to_uniform", "var", dict(mean=m, low=-1.0, high=pos()), lambda d, z, k: d.call("to_uniform", x, opt(k["mean"]), opt(z), k["low"], k["high"])),
            ("array_zinnharvey", "mean", dict(var=v, conn="high"), lambda d, z, k: d.call("zinnharvey", x, True, opt(z), opt(k["var"]))),
            ("array_zinnharvey", "var", dict(mean=m, conn="low"), lambda d, z, k: d.call("zinnharvey", x, False, opt(k["mean"]), opt(z))),
            ("array_force_moments", "mean", dict(var=pos()), lambda d, z, k: d.call("force_moments", x, z, k["var"])),
            ("array_force_moments", "var", dict(mean=m), lambda d, z, k: d.call("force_moments", x, k["mean"], z)),
            ("array_boxcox", "lmbda", dict(shift=0.4), lambda d, z, k: d.call("boxcox", x, z, k["shift"])),
            ("array_boxcox", "shift", dict(lmbda=float(rng.choice([0.5, 0.3, 0.0]))), lambda d, z, k: d.call("boxcox", x, k["lmbda"], z)),
            ("array_discrete", "mean", dict(values=vals, thresholds="equal", var=v), lambda d, z, k: d.call("discrete", NAN, x, np.array(vals), ("n", 1), E, opt(z), opt(k["var"]))),
            ("array_discrete", "var", dict(values=vals, thresholds="equal", mean=m), lambda d, z, k: d.call("discrete", NAN, x, np.array(vals), ("n", 1), E, opt(k["mean"]), opt(z))),
        ]
        for fn, code in (("array_to_arcsin", "to_arcsin"), ("array_to_uquad", "to_uquad")):
            plans += [
                (fn, "a", dict(mean=m, var=v, b=pos()), lambda d, z, k, code=code: d.call(code, x, opt(k["mean"]), opt(k["var"]), opt(z), opt(k["b"]))),
                (fn, "b", dict(mean=m, var=v, a=-pos()), lambda d, z, k, code=code: d.call(code, x, opt(k["mean"]), opt(k["var"]), opt(k["a"]), opt(z))),
                (fn, "a", dict(mean=m, var=v, b=None), lambda d, z, k, code=code: d.call(code, x, opt(k["mean"]), opt(k["var"]), opt(z), E)) if m + math.sqrt(v) > 0.2 else None,
                (fn, "mean", dict(var=v, a=-pos(), b=pos()), lambda d, z, k, code=code: d.call(code, x, opt(z), opt(k["var"]), opt(k["a"]), opt(k["b"]))),
                (fn, "mean", dict(var=v, a=None, b=None), lambda d, z, k, code=code: d.call(code, x, opt(z), opt(k["var"]), E, E)),
                (fn, "var", dict(mean=m, a=-pos(), b=pos()), lambda d, z, k, code=code: d.call(code, x, opt(k["mean"]), opt(z), opt(k["a"]), opt(k["b"]))),
            ]
        for plan in plans:
            if plan is None:
                continue
            fn, optname, kw, model = plan
            for vname, zero in zero_variants():
                kwargs = dict(kw)
                kwargs[optname] = zero
                ri = impl_call(getattr(A, fn), x, **kwargs)
                rm = model(drv, float(zero), kw)
                ctx.count(("falsy", fn, optname, vname, tuple(sorted(k for k, v_ in kw.items() if v_ is None))), hist=dict(falsy_option="%s.%s" % (fn, optname)))
                ok = same(ri, rm, 1.0 + np.abs(rm) if isinstance(rm, np.ndarray) else None)
                if not ok:
                    pk = dict(kw, field=x)
                    pk[optname] = float(zero)
                    prop_ok = property_holds(fn, pk, ri) if optname != "var" else None
                    report(ctx, "correspondence: %s with %s = %s (%s)" % (fn, optname, repr(zero), vname),
                           "an explicitly given %s = 0 is not used as given by %s%s" % (optname, fn, "" if prop_ok is None else (
                               ": the property statement for the requested value %s on this input" % ("holds" if prop_ok else "FAILS"))),
                           dict(function=fn, option=optname, value=repr(zero), value_type=type(zero).__name__, field=hexl(x),
                                kwargs={k: (v_ if not isinstance(v_, np.ndarray) else hexl(v_)) for k, v_ in kw.items()},
                                impl=(hexl(ri) if not is_err(ri) else list(ri)), model=(hexl(rm) if isinstance(rm, np.ndarray) else rm)),
                           key="falsy:%s:%s" % (fn, optname), no_input=(prop_ok is True))
        # discrete / binary: the value 0 among the values and among the thresholds
        for vname, zero in zero_variants():
            for values, thr in (([-1.0, zero, 2.5], [-0.5, 1.0]), ([-1.0, 1.0, 2.5], [zero, 1.5]), ([zero, 3.0], [zero]), ([-2.0, zero], [0.7])):
                ri = impl_call(A.array_discrete, x, values, thr)
                fv, ft = np.array([float(q) for q in values]), np.array([float(q) for q in thr])
                rm = drv.call("discrete", NAN, x, fv, ("n", 2), ft, E, E)
                ctx.count(("falsy", "array_discrete", vname, len(values)), hist=dict(falsy_option="array_discrete.values/thresholds"))
                if is_err(ri) or not isinstance(rm, np.ndarray) or not bool((ri == rm).all()) or not discrete_statement(x, fv, ft, ri, m, v):
                    report(ctx, "correspondence: array_discrete with a value / threshold 0 (%s)" % vname,
                           "array_discrete does not use a zero value / threshold as given",
                           dict(field=hexl(x), values=[repr(q) for q in values], thresholds=[repr(q) for q in thr],
                                impl=(hexl(ri) if not is_err(ri) else list(ri)), model=(hexl(rm) if isinstance(rm, np.ndarray) else rm)),
                           key="falsy:array_discrete:values")


# --------------------------------------------------------------------------- mesh x dim x mean/trend kind x normalizer x flags cells

GRID_SHAPES = {1: [(6,), (7,), (1,), (2,)], 2: [(3, 3), (4, 2), (2, 1), (1, 1)], 3: [(2, 2, 2), (3, 2, 2), (3, 1, 1), (1, 2, 1)]}


def cell_methods(marg, sd):
    """(label, Field.transform name, kwargs, model encoding, uses the mean argument) — every transformation, with regular and with
    zero-valued options; all target values stay inside BoxCox(0.3)'s denormalize range (> -10/3) after the mean is re-added"""
    z = zero_variants()
    vals = np.array([-1.0, 0.0, 2.0, 3.5]) + 0.0
    thr = np.array([-0.6, 0.0, 0.8]) * sd + marg
    ms = [
        ("binary", "binary", {}, (0, 0, E, E, E), True),
        ("binary-args", "binary", dict(divide=marg + 0.2 * sd, upper=marg + 1.0, lower=marg - 0.4), (0, 0, opt(marg + 0.2 * sd), opt(marg + 1.0), opt(marg - 0.4)), False),
        ("binary-zeros", "binary", dict(divide=z[0][1], upper=1.5, lower=z[3][1]), (0, 0, opt(0.0), opt(1.5), opt(0.0)), False),
        ("binary-divide", "binary", dict(divide=marg + 0.3 * sd), (0, 0, opt(marg + 0.3 * sd), E, E), "raise"),
        ("binary-divide-upper", "binary", dict(divide=marg - 0.2 * sd, upper=marg + 1.0), (0, 0, opt(marg - 0.2 * sd), opt(marg + 1.0), E), "raise"),
        ("discrete-arithmetic", "discrete", dict(values=vals, thresholds="arithmetic"), (1, 0, vals, E, E), False),
        ("discrete-equal", "discrete", dict(values=list(vals), thresholds="equal"), (1, 1, vals, E, E), True),
        ("discrete-given", "discrete", dict(values=list(vals), thresholds=thr), (1, 2, vals, thr, E), False),
        ("boxcox", "boxcox", dict(lmbda=0.5, shift=z[1][1]), (2, 0, np.array([0.5, 0.0]), E, E), False),
        ("boxcox-log", "boxcox", dict(lmbda=z[0][1], shift=0.3), (2, 0, np.array([0.0, 0.3]), E, E), False),
        ("zinnharvey-high", "zinnharvey", dict(conn="high"), (3, 1, E, E, E), True),
        ("zinnharvey-low", "zinnharvey", dict(conn="low"), (3, 0, E, E, E), True),
        ("force_moments", "normal_force_moments", {}, (4, 0, E, E, E), True),
        ("lognormal", "normal_to_lognormal", {}, (5, 0, E, E, E), False),
        ("uniform", "normal_to_uniform", dict(low=-1.5, high=2.0), (6, 0, np.array([-1.5, 2.0]), E, E), True),
        ("uniform-default", "normal_to_uniform", {}, (6, 0, np.array([0.0, 1.0]), E, E), True),
        ("uniform-zero", "normal_to_uniform", dict(low=z[4][1], high=2.5), (6, 0, np.array([0.0, 2.5]), E, E), True),
        ("uniform-zero-high", "normal_to_uniform", dict(low=-2.0, high=z[2][1]), (6, 0, np.array([-2.0, -0.0]), E, E), True),
    ]
    for nm, code in (("arcsin", 7), ("uquad", 8)):
        full = "normal_to_" + nm
        ms += [
            (nm + "-default", full, {}, (code, 0, E, E, E), True),
            (nm, full, dict(a=marg - 1.5, b=marg + 2.0), (code, 0, opt(marg - 1.5), opt(marg + 2.0), E), True),
            (nm + "-a0", full, dict(a=z[0][1], b=3.0), (code, 0, opt(0.0), opt(3.0), E), True),
            (nm + "-b0", full, dict(a=-2.0, b=z[1][1]), (code, 0, opt(-2.0), opt(0.0), E), True),
            (nm + "-a0-only", full, dict(a=z[5][1]), (code, 0, opt(0.0), E, E), True),
        ]
    return ms


def grid_cells(ctx, rng, drv):
    """{every transformation, regular and zero-valued options} x {process} x {keep_mean} x {unstructured, structured} x dim 1..3 x
    {equal, unequal axis lengths} x mean {constant, callable} x trend {None, constant, callable} x normalizer {none, LogNormal, BoxCox}:
    Field.transform against the model pipeline  remove trend / normalize / remove mean -> array transformation -> re-add / denormalize /
    re-add, with mean and trend evaluated on the mesh by this harness (np.meshgrid(indexing='ij') for structured grids).
    Constant mean: the Gallina wrapper (extracted) does the whole pipeline; callable mean (outside the Gallina record): the array stage
    is the extracted model, the pre/post steps are done here with the field's Normalizer object."""
    import gstools as gs
    frac = 0.35 if ctx.tier == "quick" else 1.0
    ncells = 0
    for dim in (1, 2, 3):
        for shape in GRID_SHAPES[dim]:
            for mesh in ("unstructured", "structured"):
                for mean_kind in ("const", "callable"):
                    for trend_kind in ("none", "const", "callable"):
                        for ncode in (0, 1, 2):
                            if rng.random() > frac:
                                continue
                            npts = int(np.prod(shape))
                            if mesh == "structured":
                                axes = tuple(np.sort(rng.uniform(0, 3, size=k)) for k in shape)
                                grid = np.meshgrid(*axes, indexing="ij")
                                pos_arg, fshape = axes, tuple(shape)
                            else:
                                pts = rng.uniform(0, 3, size=(dim, npts))
                                grid = [pts[i] for i in range(dim)]
                                pos_arg, fshape = pts, (npts,)
                            cf = rng.normal(size=4) * 0.15
                            lin = lambda *p, cf=cf: cf[0] * p[0] + (cf[1] * p[1] + cf[3] * p[0] * p[1] if len(p) > 1 else 0.0) + (cf[2] * p[2] if len(p) > 2 else 0.0)  # noqa: E731
                            m0 = float(rng.choice([2.5, 2.2]))
                            t0 = float(rng.normal())
                            mean = m0 if mean_kind == "const" else (lambda *p: m0 + 0.5 * lin(*p))
                            trend = None if trend_kind == "none" else t0 if trend_kind == "const" else (lambda *p: t0 + 2.0 * lin(*p))
                            mean_vals = np.full(fshape, m0) if mean_kind == "const" else m0 + 0.5 * lin(*grid)
                            trend_vals = None if trend_kind == "none" else np.full(fshape, t0) if trend_kind == "const" else t0 + 2.0 * lin(*grid)
                            var, nug = lu(rng, 0.04, 0.09), float(rng.choice([0.0, 0.01]))
                            model = gs.Exponential(dim=dim, var=var, nugget=nug, len_scale=1.0)
                            norm = None if ncode == 0 else gs.normalizer.LogNormal() if ncode == 1 else gs.normalizer.BoxCox(lmbda=0.3)
                            fld = gs.SRF(model, mean=mean, normalizer=norm, trend=trend)
                            fld.set_pos(pos_arg, mesh)
                            sill = float(fld.model.sill)
                            sd = math.sqrt(sill)
                            zs = rng.normal(mean_vals, sd)
                            with warnings.catch_warnings():
                                warnings.simplefilter("ignore")
                                stored = np.array(fld.normalizer.denormalize(zs), dtype=float).reshape(fshape) + (0.0 if trend_vals is None else trend_vals)
                            fld.post_field(stored, name="field", process=False, save=True)
                            cfgd = dict(dim=dim, shape=list(shape), mesh=mesh, mean=mean_kind, trend=trend_kind, normalizer=ncode, m0=m0, t0=t0,
                                        coef=[float(c) for c in cf], var=var, nugget=nug,
                                        pos=[hexl(a) for a in (pos_arg if mesh == "structured" else list(pos_arg))], stored=hexl(stored))
                            default_normal = ncode == 0 and trend_kind == "none" and mean_kind == "const"
                            for process in (False, True):
                                for keep_mean in ((True, False) if process else (True,)):
                                    marg = 0.0 if (process and not keep_mean) else m0
                                    for label, mname, kw, enc, uses_mean in cell_methods(marg, sd):
                                        store = "t1" if (ncells % 3 == 0) else False
                                        ri = impl_call(fld.transform, mname, field="field", store=store, process=process, keep_mean=keep_mean, **kw)
                                        ncells += 1
                                        ctx.count(("cell", label, process, keep_mean, mesh, dim, shape[0] == shape[-1] if dim > 1 else True, mean_kind, trend_kind, ncode),
                                                  hist=dict(cell_method=label, cell_mesh="%s-%dd" % (mesh, dim), cell_mean=mean_kind, cell_trend=trend_kind,
                                                            cell_normalizer=ncode, cell_process="%s/%s" % (process, keep_mean)))
                                        expect_raise = False
                                        if mean_kind == "const":
                                            rm = drv.call("wrapper", NAN, m0, sill, ("n", ncode), 0.3, trend_vals is not None,
                                                          trend_vals.ravel() if trend_vals is not None else E, ("n", enc[0]), ("n", enc[1]), enc[2], enc[3], enc[4],
                                                          process, keep_mean, stored.ravel())
                                        else:
                                            guarded = uses_mean
                                            if not process and uses_mean == "raise":
                                                rm, expect_raise = None, True       # not guarded (divide given) but mean + sqrt(sill) with a callable mean: TypeError
                                            elif not process:
                                                rm = 1 if guarded else drv.call("wrapper", NAN, 0.0, sill, ("n", 0), 0.3, False, E, ("n", enc[0]), ("n", enc[1]),
                                                                                enc[2], enc[3], enc[4], False, True, stored.ravel())
                                            elif keep_mean and uses_mean:
                                                rm, expect_raise = None, True       # float(callable) / callable + float: TypeError in the array function
                                            else:
                                                with warnings.catch_warnings():
                                                    warnings.simplefilter("ignore")
                                                    d = stored - (0.0 if trend_vals is None else trend_vals)
                                                    d = np.array(fld.normalizer.normalize(d), dtype=float).reshape(fshape)
                                                    if not keep_mean:
                                                        d = d - mean_vals
                                                    rm = drv.call("wrapper", NAN, 0.0, sill, ("n", 0), 0.3, False, E, ("n", enc[0]), ("n", enc[1]),
                                                                  enc[2], enc[3], enc[4], False, True, d.ravel())
                                                    if isinstance(rm, np.ndarray):
                                                        o = rm.reshape(fshape) + (0.0 if keep_mean else mean_vals)
                                                        o = np.array(fld.normalizer.denormalize(o), dtype=float).reshape(fshape)
                                                        rm = (o + (0.0 if trend_vals is None else trend_vals)).ravel()
                                        if expect_raise:
                                            ok = is_err(ri)
                                        elif is_err(ri) or isinstance(rm, (int, np.integer)):
                                            ok = same(ri, rm, None)
                                        else:
                                            ok = ri.shape == fshape and close(ri.ravel(), rm, rtol=1e-9, scale=1.0 + np.abs(rm))
                                            if ok and store == "t1":
                                                ok = C.bit_equal(fld["t1"], ri)
                                        ok = ok and C.bit_equal(fld["field"], stored)
                                        if not ok:
                                            report(ctx, "correspondence: Field.transform('%s') on a %s %d-d mesh %s" % (mname, mesh, dim, list(shape)),
                                                   "Field.transform(%s, process=%s, keep_mean=%s) with %s mean, %s trend, normalizer %d differs from "
                                                   "remove -> array transformation -> apply on the field's own mesh" % (label, process, keep_mean, mean_kind, trend_kind, ncode),
                                                   dict(cfgd, method=mname, label=label, kwargs={k: (repr(v_) if not isinstance(v_, (list, np.ndarray)) else hexl(v_)) for k, v_ in kw.items()},
                                                        process=process, keep_mean=keep_mean, store=store,
                                                        impl=(list(ri) if is_err(ri) else dict(shape=list(ri.shape), values=hexl(ri))),
                                                        expected=("raises" if expect_raise else int(rm) if isinstance(rm, (int, np.integer)) else hexl(rm))),
                                                   key="cell:%s" % label)
    ctx.notes.append("mesh/dim/mean/trend/normalizer/flag cells: %d Field.transform calls" % ncells)


# --------------------------------------------------------------------------- round 4: thresholds, scale ratios, store selection, input classes

EPS = float(np.finfo(float).eps)


def threshold_approach(ctx, rng, drv):
    """every branch threshold of the transformation code is approached geometrically from both sides (10^-j, j = 1..12, and the
    neighbouring floats): np.isclose(lmbda, 0) of array_boxcox / BoxCox (1e-8), the cut-off lmbda*x+1 = 0, the sign masks of
    _uniform_to_uquad (u = 1/2), the class boundaries of array_discrete.  Implementation vs model, and the statement itself with a
    tolerance from the conditioning of the documented formula (Box-Cox round trip: error of (b^(1/l))^l ~ eps*b/|l|)."""
    from gstools.transform import array as A
    from gstools.normalizer import BoxCox
    import gstools as gs
    x = np.concatenate([rng.normal(0.3, 0.8, size=12), [0.0, 1.0, -1.0, 2.5]])
    lambdas = [s * 10.0 ** -j for j in range(1, 13) for s in (1.0, -1.0)]
    lambdas += [1e-8, -1e-8, float(np.nextafter(1e-8, 1)), float(np.nextafter(1e-8, 0)), 3e-8, -3e-8, 3e-6, -3e-6, 5e-5, 2e-4, -2e-4]
    fld = gs.SRF(gs.Gaussian(dim=1, var=1.0), mean=0.3)
    fld.set_pos([np.arange(len(x), dtype=float)], "unstructured")
    fld.post_field(x, name="field", process=False, save=True)
    for lm in lambdas:
        for sh in (0.0, 0.7):
            r = x + sh
            ri = impl_call(A.array_boxcox, x, lm, sh)
            rm = drv.call("boxcox", x, lm, sh)
            ctx.count(("threshold", "boxcox", lm, sh), hist=dict(threshold="array_boxcox lmbda -> 0"))
            case = dict(function="array_boxcox", field=hexl(x), lmbda=lm, shift=sh)
            if is_err(ri):
                report(ctx, "probe: array_boxcox near lmbda = 0", "array_boxcox raised %s" % ri[2], case, key="threshold:boxcox")
                continue
            with warnings.catch_warnings():
                warnings.simplefilter("ignore")
                back = np.array(BoxCox(lmbda=lm).normalize(ri), dtype=float)
            tol = 8 * EPS * (1 + np.abs(r)) if abs(lm) <= 1e-8 else 32 * EPS * (1 + np.abs(lm * r)) / abs(lm) + 8 * EPS * (1 + np.abs(r))
            inv_ok = bool((np.abs(back - r) <= tol).all())
            if not inv_ok:
                report(ctx, "probe: array_boxcox inverts the BoxCox normalizer (lmbda = %g)" % lm,
                       "BoxCox(lmbda).normalize(array_boxcox(x, lmbda, shift)) differs from x + shift by %.3g (conditioning bound %.3g)" % (
                           float(np.max(np.abs(back - r))), float(np.max(tol))),
                       dict(case, out=hexl(ri), back=hexl(back)), key="threshold:boxcox-inverse")
            if not close(ri, rm, rtol=1e-9, scale=np.abs(rm)):
                report(ctx, "correspondence: array_boxcox near lmbda = 0 (lmbda = %g)" % lm,
                       "implementation and model disagree on array_boxcox (inverse-of-normalizer statement %s on this input)" % ("holds" if inv_ok else "FAILS"),
                       dict(case, impl=hexl(ri), model=hexl(rm)), key="threshold:boxcox-corr", no_input=inv_ok)
            rw = impl_call(fld.transform, "boxcox", lmbda=lm, shift=sh, store=False)
            if is_err(rw) or not C.bit_equal(rw, ri):
                report(ctx, "probe: Field.transform('boxcox') near lmbda = 0", "Field.transform('boxcox') differs from array_boxcox on the stored field",
                       dict(case, got=(list(rw) if is_err(rw) else hexl(rw))), key="threshold:boxcox-wrapper")
        # the normalizer formula itself
        y = np.exp(rng.normal(size=8))
        ni = impl_call(lambda: BoxCox(lmbda=lm).normalize(y))
        nm = drv.call("boxcox_normalize", y, lm)
        ctx.count(("threshold", "BoxCox.normalize", lm), hist=dict(threshold="BoxCox.normalize lmbda -> 0"))
        if is_err(ni) or not close(ni, nm, rtol=1e-9, scale=np.abs(nm) + (0.0 if abs(lm) <= 1e-8 else 16 * EPS / abs(lm) / 1e-9)):
            report(ctx, "correspondence: BoxCox.normalize near lmbda = 0 (lmbda = %g)" % lm, "implementation and model disagree on BoxCox.normalize",
                   dict(data=hexl(y), lmbda=lm, impl=(list(ni) if is_err(ni) else hexl(ni)), model=hexl(nm)), key="threshold:normalize", no_input=True)
    # cut-off of array_boxcox: lmbda * (x + shift) + 1 -> 0 from both sides
    for lm in (0.5, 2.0, -0.4):
        root = -1.0 / lm
        xs = np.array([root + s * abs(root) * 10.0 ** -j for j in range(1, 15) for s in (1, -1)] + [root, np.nextafter(root, 9), np.nextafter(root, -9)])
        ri = impl_call(A.array_boxcox, xs, lm, 0.0)
        rm = drv.call("boxcox", xs, lm, 0.0)
        ctx.count(("threshold", "boxcox-cutoff", lm), hist=dict(threshold="array_boxcox cut-off"))
        if is_err(ri) or not close(ri, rm, rtol=1e-9, scale=np.abs(rm)):
            report(ctx, "correspondence: array_boxcox at the cut-off", "implementation and model disagree on array_boxcox where lmbda*x+1 changes sign",
                   dict(field=hexl(xs), lmbda=lm, impl=(list(ri) if is_err(ri) else hexl(ri)), model=hexl(rm)), key="threshold:cutoff", no_input=True)
    # sign masks of _uniform_to_uquad at u = 1/2, directly and through array_to_uquad
    for rep in range(3):
        a = float(rng.normal() * 3)
        b = a + lu(rng, 0.05, 30)
        u = np.array([0.5 + s * 10.0 ** -j for j in range(1, 17) for s in (1, -1)] + [0.5, np.nextafter(0.5, 1), np.nextafter(0.5, 0)])
        ri = impl_call(A._uniform_to_uquad, u, a, b)
        rm = drv.call("uniform_to_uquad", u, a, b)
        ctx.count(("threshold", "uquad", rep), hist=dict(threshold="_uniform_to_uquad u -> 1/2"))
        st_ok = (not is_err(ri)) and bool((np.abs(cdf_uquad(ri, a, b) - u) <= 64 * EPS).all()) and bool((np.diff(ri[np.argsort(u, kind="stable")]) >= 0).all())
        if is_err(ri) or not st_ok or not close(ri, rm, rtol=1e-9, scale=abs(a) + abs(b)):
            report(ctx, "probe: _uniform_to_uquad around u = 1/2", "_uniform_to_uquad: cdf(T(u)) = u / monotonicity %s around the branch point; model comparison %s" % (
                "holds" if st_ok else "FAILS", "ok" if (not is_err(ri) and close(ri, rm, rtol=1e-9, scale=abs(a) + abs(b))) else "differs"),
                   dict(u=hexl(u), a=a, b=b, impl=(list(ri) if is_err(ri) else hexl(ri)), model=hexl(rm)), key="threshold:uquad", no_input=st_ok)
        m, s = float(rng.normal() * 2), lu(rng, 0.1, 5)
        xq = np.array([m + sg * s * 10.0 ** -j for j in range(0, 15) for sg in (1, -1)] + [m])
        kw = dict(field=xq, mean=m, var=s * s, a=a, b=b)
        ro = impl_call(A.array_to_uquad, **kw)
        rq = drv.call("to_uquad", xq, opt(m), opt(s * s), opt(a), opt(b))
        ok_s = (not is_err(ro)) and property_holds("array_to_uquad", kw, ro)
        if not ok_s or not close(ro, rq, rtol=1e-9, scale=abs(a) + abs(b)):
            report(ctx, "probe: array_to_uquad around the mean", "array_to_uquad around x = mean: statement %s" % ("holds" if ok_s else "FAILS"),
                   dict(field=hexl(xq), mean=m, var=s * s, a=a, b=b, impl=(list(ro) if is_err(ro) else hexl(ro))), key="threshold:uquad-array", no_input=bool(ok_s))
    # class boundaries of array_discrete
    thr = np.array([-0.5, 0.25, 1.0])
    vals = np.array([3.0, -1.0, 0.5, 7.0])
    xd = [t + s * 10.0 ** -j for t in thr for j in range(1, 17) for s in (1, -1)] + list(thr) + [np.nextafter(t, 9) for t in thr] + [np.nextafter(t, -9) for t in thr]
    xd = np.array(xd, dtype=float)
    for tt in (list(thr), thr):
        ri = impl_call(A.array_discrete, xd, vals, tt)
        rm = drv.call("discrete", NAN, xd, vals, ("n", 2), thr, E, E)
        ctx.count(("threshold", "discrete", type(tt).__name__), hist=dict(threshold="array_discrete class boundaries"))
        if is_err(ri) or not bool((ri == rm).all()) or not discrete_statement(xd, vals, thr, ri, 0.0, 1.0):
            report(ctx, "probe: array_discrete at the class boundaries", "array_discrete: class of a value next to a threshold is wrong",
                   dict(field=hexl(xd), values=hexl(vals), thresholds=hexl(thr), impl=(list(ri) if is_err(ri) else hexl(ri))), key="threshold:discrete")


def exact_moments(a):
    """exact rational sample mean and population variance of an array of doubles"""
    from fractions import Fraction
    fr = [Fraction(float(v)) for v in np.asarray(a, dtype=float).ravel()]
    n = len(fr)
    m = sum(fr) / n
    v = sum((q - m) ** 2 for q in fr) / n
    return m, v


def scale_ratios(ctx, rng, drv):
    """|mean| / std of the input from 1 to 1e8 (both signs, two scales) for every transformation that uses moments.
    force_moments instantiates the theorem C19_force_moments_exact: the EXACT rational sample mean / variance of the returned doubles
    against the requested ones, tolerance from the conditioning of the documented two-pass formula
    (mean: eps*(ratio*sqrt(var) + |mean|); variance: relative eps*(1 + |mean|/sqrt(var)) + eps*ratio — not eps*ratio^2).
    Transformations that estimate mean / variance from the data (mean=None, var=None) and the Field.transform wrappers: pointwise
    statement with the exact rational moments, tolerance 1e-9 + 64*eps*ratio (the standardised value (x-m)/s has that conditioning)."""
    from gstools.transform import array as A
    import gstools as gs
    n = 120 if ctx.tier == "quick" else 400
    for k in range(0, 9):
        R = 10.0 ** k
        for sd in ((1.0, 3e-3) if ctx.tier == "quick" else (1.0, 3e-3, 40.0)):
            sign = 1.0 if (k + int(sd < 1)) % 2 == 0 else -1.0
            mean_in = sign * R * sd
            x = mean_in + sd * rng.normal(size=n)
            me, ve = exact_moments(x)
            mf, vf = float(me), float(ve)
            tolz = 1e-9 + 64 * EPS * R
            tolm = 1e-9 + 4 * n * EPS * R           # sequential (model) vs pairwise (numpy) summation of the mean
            case0 = dict(ratio=R, std=sd, n=n, field=hexl(x))
            # ---- force moments: exact statement
            for tm, tv in ((0.0, 1.0), (mean_in, sd * sd), (-3.0 * R, 4.0), (0.25, 1e-6)):
                ri = impl_call(A.array_force_moments, x, tm, tv)
                rm = drv.call("force_moments", x, tm, tv)
                ctx.count(("ratio", "force_moments", k, sd, tm == 0.0), hist=dict(scale_ratio="force_moments 1e%d" % k))
                case = dict(case0, function="array_force_moments", mean=tm, var=tv)
                bad = is_err(ri) or not np.isfinite(ri).all()
                if not bad:
                    mo, vo = exact_moments(ri)
                    rq = abs(tm) / math.sqrt(tv)
                    tol_mean = 64 * EPS * (R * math.sqrt(tv) + abs(tm) + math.sqrt(tv))
                    tol_var = 64 * EPS * (1 + rq) + 4 * EPS * R
                    bad = abs(float(mo - Fraction_of(tm))) > tol_mean or abs(float(vo / Fraction_of(tv)) - 1.0) > tol_var
                    case.update(sample_mean=float(mo), sample_var=float(vo), tol_mean=tol_mean, tol_var_rel=tol_var)
                if bad:
                    report(ctx, "probe: force_moments exact moments, |mean|/std = 1e%d" % k,
                           "array_force_moments: exact sample mean / variance of the result differ from the requested ones beyond the conditioning of the two-pass formula",
                           dict(case, out=(list(ri) if is_err(ri) else hexl(ri))), key="ratio:force_moments")
                elif not close(ri, rm, rtol=tolm, scale=abs(tm) + math.sqrt(tv) * (1 + np.abs(x - mf) / math.sqrt(vf))):
                    report(ctx, "correspondence: array_force_moments, |mean|/std = 1e%d" % k, "implementation and model disagree on array_force_moments (exact-moment statement holds)",
                           dict(case, impl=hexl(ri), model=hexl(rm)), key="ratio:force_moments-corr", no_input=True)
            # ---- moments estimated from the data / given
            z = (x - mf) / math.sqrt(vf)
            low, high = -1.5, 4.0
            da, db = mf - math.sqrt(2 * vf), mf + math.sqrt(2 * vf)
            qa, qb = mf - math.sqrt(5 / 3 * vf), mf + math.sqrt(5 / 3 * vf)
            for given in (False, True):
                mv = dict(mean=mf, var=vf) if given else dict(mean=None, var=None)
                om, ov = opt(mv["mean"]), opt(mv["var"])
                tests = [
                    ("array_to_uniform", dict(low=low, high=high), lambda d: d.call("to_uniform", x, om, ov, low, high),
                     lambda o: np.abs((o - low) / (high - low) - special.ndtr(z)), abs(low) + abs(high), None),
                    ("array_to_arcsin", {}, lambda d: d.call("to_arcsin", x, om, ov, E, E),
                     lambda o: np.abs(o - stats.arcsine.ppf(special.ndtr(z), loc=da, scale=db - da)) / math.sqrt(vf), abs(mf) + 2 * math.sqrt(vf), None),
                    ("array_to_uquad", {}, lambda d: d.call("to_uquad", x, om, ov, E, E),
                     lambda o: np.abs(cdf_uquad(o, qa, qb) - special.ndtr(z)), abs(mf) + 2 * math.sqrt(vf), None),
                    ("array_zinnharvey", dict(conn="low"), lambda d: d.call("zinnharvey", x, False, om, ov),
                     lambda o: np.abs(special.ndtr((o - mf) / math.sqrt(vf)) - (2 * special.ndtr(np.abs(z)) - 1)), None, "zh"),
                    ("array_zinnharvey", dict(conn="high"), lambda d: d.call("zinnharvey", x, True, om, ov),
                     lambda o: np.abs(special.ndtr((o - mf) / math.sqrt(vf)) - (2 - 2 * special.ndtr(np.abs(z)))), None, "zh"),
                ]
                for name, kw, model, stmt, sc, kind in tests:
                    ri = impl_call(getattr(A, name), x, **dict(mv, **kw))
                    rm = model(drv)
                    ctx.count(("ratio", name, k, sd, given, kw.get("conn")), hist=dict(scale_ratio="%s 1e%d" % (name, k)))
                    case = dict(case0, function=name, given=given, kwargs=kw)
                    st_ok = (not is_err(ri)) and bool((stmt(ri) <= tolz).all())
                    if kind == "zh":
                        w = (2.0 + 1.0 / np.maximum(np.abs(z), 1e-300))
                        keep = np.abs(z) > 1e-3
                        c_ok = (not is_err(ri)) and close(ri[keep], rm[keep], rtol=(1e-9 if given else tolm), scale=(abs(mf) + math.sqrt(vf) * (1 + np.abs(z)) * w)[keep])
                    else:
                        c_ok = (not is_err(ri)) and close(ri, rm, rtol=(1e-9 if given else tolm), scale=sc)
                    if not st_ok:
                        report(ctx, "probe: %s, |mean|/std = 1e%d" % (name, k),
                               "%s (mean/var %s): F_target(T x) differs from Phi((x-m)/s) with the exact sample moments beyond 1e-9 + 64 eps ratio" % (name, "given" if given else "estimated from the data"),
                               dict(case, out=(list(ri) if is_err(ri) else hexl(ri))), key="ratio:%s" % name)
                    elif not c_ok:
                        report(ctx, "correspondence: %s, |mean|/std = 1e%d" % (name, k), "implementation and model disagree on %s (statement holds)" % name,
                               dict(case, impl=hexl(ri), model=hexl(rm)), key="ratio:%s-corr" % name, no_input=True)
                # discrete 'equal' (normal quantiles of the moments) and 'arithmetic'
                vals = np.array([mf - sd, mf + 0.5 * sd, mf + 2 * sd, mf - 3 * sd])
                for mode, code in (("equal", 1), ("arithmetic", 0)):
                    kwd = dict(values=vals, thresholds=mode, **({} if mode == "arithmetic" else mv))
                    ri = impl_call(A.array_discrete, x, **kwd)
                    rm = drv.call("discrete", NAN, x, vals, ("n", code), E, om if mode == "equal" else E, ov if mode == "equal" else E)
                    ctx.count(("ratio", "discrete", mode, k, sd, given), hist=dict(scale_ratio="array_discrete-%s 1e%d" % (mode, k)))
                    if mode == "equal":
                        thr_ = stats.norm.ppf(np.arange(1, 4) / 4, loc=mf, scale=math.sqrt(vf))
                        vs = vals
                    else:
                        vs = np.sort(vals)
                        thr_ = (vs[1:] + vs[:-1]) / 2
                    near = np.min(np.abs(x[:, None] - thr_[None, :]), axis=1) <= (1e-9 + 8 * n * EPS * R) * sd
                    cls = np.searchsorted(thr_, x, side="left")
                    ok = (not is_err(ri)) and isinstance(rm, np.ndarray) and bool(np.isin(ri, vals).all()) and bool(((ri == vs[cls]) | near).all()) and bool(((ri == rm) | near).all())
                    if not ok:
                        report(ctx, "probe: array_discrete '%s', |mean|/std = 1e%d" % (mode, k), "array_discrete(thresholds='%s') does not put the values into the classes of the documented thresholds" % mode,
                               dict(case0, function="array_discrete", mode=mode, given=given, values=hexl(vals), out=(list(ri) if is_err(ri) else hexl(ri))), key="ratio:discrete-%s" % mode)
            # ---- through Field.transform: field mean = mean_in, sill = sd^2
            fld = gs.SRF(gs.Gaussian(dim=1, var=0.75 * sd * sd, nugget=0.25 * sd * sd), mean=mean_in)
            fld.set_pos([np.arange(n, dtype=float)], "unstructured")
            fld.post_field(x, name="field", process=False, save=True)
            sill = float(fld.model.sill)
            zs = (x - mean_in) / math.sqrt(sill)
            wtests = [("normal_to_uniform", dict(low=low, high=high), lambda o, sh: np.abs((o - sh - low) / (high - low) - special.ndtr(zs))),
                      ("normal_to_uquad", dict(a=-2.0, b=1.0), lambda o, sh: np.abs(cdf_uquad(o - sh, -2.0, 1.0) - special.ndtr(zs))),
                      ("zinnharvey", dict(conn="low"), lambda o, sh: np.abs(special.ndtr((o - mean_in) / math.sqrt(sill)) - (2 * special.ndtr(np.abs(zs)) - 1)))]
            for process, keep_mean in ((False, True), (True, True), (True, False)):
                sh = mean_in if (process and not keep_mean) else 0.0
                for mname, kw, stmt in wtests:
                    ri = impl_call(fld.transform, mname, store=False, process=process, keep_mean=keep_mean, **kw)
                    ctx.count(("ratio", "wrapper", mname, k, sd, process, keep_mean), hist=dict(scale_ratio="Field.transform 1e%d" % k))
                    # re-adding the mean rounds the result to eps*|mean|: in units of the target interval that is eps*ratio*std
                    tolw = 1e-9 + 64 * EPS * R * max(1.0, sd)
                    if is_err(ri) or not bool((stmt(ri, sh) <= tolw).all()):
                        report(ctx, "probe: Field.transform('%s'), |mean|/std = 1e%d" % (mname, k),
                               "Field.transform('%s', process=%s, keep_mean=%s): statement fails for a field with a large mean / std ratio" % (mname, process, keep_mean),
                               dict(case0, method=mname, kwargs=kw, process=process, keep_mean=keep_mean, mean=mean_in, sill=sill,
                                    out=(list(ri) if is_err(ri) else hexl(ri))), key="ratio:wrapper:%s" % mname)
                ri = impl_call(fld.transform, "normal_force_moments", store=False, process=process, keep_mean=keep_mean)
                ctx.count(("ratio", "wrapper", "force_moments", k, sd, process, keep_mean), hist=dict(scale_ratio="Field.transform 1e%d" % k))
                bad = is_err(ri) or not np.isfinite(ri).all()
                if not bad:
                    mo, vo = exact_moments(ri)
                    # with keep_mean=False the mean is re-added after the array function: one more rounding of size eps*|mean| per cell
                    bad = abs(float(mo) - mean_in) > 64 * EPS * (R * sd + abs(mean_in) + sd) or abs(float(vo) / sill - 1.0) > 64 * EPS * (1 + R) + 4 * EPS * R
                if bad:
                    report(ctx, "probe: Field.transform('normal_force_moments'), |mean|/std = 1e%d" % k,
                           "normal_force_moments(process=%s, keep_mean=%s): exact sample moments of the result are not the field mean / model sill" % (process, keep_mean),
                           dict(case0, process=process, keep_mean=keep_mean, mean=mean_in, sill=sill, out=(list(ri) if is_err(ri) else hexl(ri))), key="ratio:wrapper:force_moments")


def Fraction_of(v):
    from fractions import Fraction
    return Fraction(float(v))


STORE_METHODS = [("binary", {}), ("discrete", dict(values=[0.0, 1.0, 2.5], thresholds="arithmetic")), ("discrete", dict(values=[0.0, 1.0, 2.5], thresholds="equal")),
                 ("boxcox", dict(lmbda=0.5)), ("zinnharvey", {}), ("normal_force_moments", {}), ("normal_to_lognormal", {}), ("normal_to_uniform", {}),
                 ("normal_to_arcsin", {}), ("normal_to_uquad", {}), ("function", dict(function=lambda d: 2.0 * d + 1.0)),
                 ("lognormal", {}), ("uniform", {})]


def probe_store(ctx, rng):
    """source-field selection x store argument for every transformation wrapper (statement of C19_transform_store): several stored
    fields, field= each of them, store in {True, False, new name, another existing name, the source name}; afterwards EVERY stored field
    is checked: the target holds the returned array, all others are bit-identical, the name list grows only by a new name"""
    import gstools as gs
    n = 9
    names = ["field", "second", "third"]
    for process in (False, True):
        for mname, kw in STORE_METHODS:
            for src in names:
                for store in (True, False, "fresh", names[(names.index(src) + 1) % 3], src):
                    fld = gs.SRF(gs.Exponential(dim=1, var=1.3), mean=0.8)
                    fld.set_pos([np.arange(n, dtype=float)], "unstructured")
                    data = {}
                    for nm in names:
                        data[nm] = rng.normal(0.8, math.sqrt(1.3), size=n)
                        fld.post_field(data[nm], name=nm, process=False, save=True)
                    keep_mean = bool(rng.random() < 0.5)
                    # the same call on a fresh object that stores nothing gives the expected values
                    ref_f = gs.SRF(gs.Exponential(dim=1, var=1.3), mean=0.8)
                    ref_f.set_pos([np.arange(n, dtype=float)], "unstructured")
                    ref_f.post_field(data[src], name="field", process=False, save=True)
                    want = impl_call(ref_f.transform, mname, field="field", store=False, process=process, keep_mean=keep_mean, **kw)
                    got = impl_call(fld.transform, mname, field=src, store=store, process=process, keep_mean=keep_mean, **kw)
                    ctx.count(("store", mname, str(kw.get("thresholds")), src, str(store) if isinstance(store, bool) else ("same" if store == src else store), process),
                              hist=dict(store_probe="%s/%s" % (src, store if isinstance(store, bool) else ("source name" if store == src else store))))
                    target = src if store is True else None if store is False else store
                    exp_names = names + ([target] if target is not None and target not in names else [])
                    problems = []
                    if is_err(got) or is_err(want) or not C.bit_equal(got, want):
                        problems.append("returned values differ from the transformation of the selected field")
                    if list(fld.field_names) != exp_names:
                        problems.append("stored names %s, expected %s" % (list(fld.field_names), exp_names))
                    if not problems:
                        for nm in exp_names:
                            cur = np.array(fld[nm], dtype=float)
                            if nm == target:
                                if not C.bit_equal(cur, got):
                                    problems.append("'%s' should hold the returned array" % nm)
                            elif not C.bit_equal(cur, data[nm]):
                                problems.append("stored field '%s' was changed" % nm)
                    if problems:
                        report(ctx, "probe: stored fields after Field.transform('%s', field='%s', store=%r)" % (mname, src, store),
                               "; ".join(problems),
                               dict(method=mname, kwargs={k: (v if not callable(v) else "lambda d: 2 d + 1") for k, v in kw.items()}, field=src, store=store, process=process,
                                    keep_mean=keep_mean, stored={k: hexl(v) for k, v in data.items()}, names_after=list(fld.field_names)),
                               key="store:%s" % ("True" if store is True else "False" if store is False else "name"))


def input_classes(ctx, rng):
    """the field (and numeric options) in every container / dtype a caller may pass: list, tuple, float32, integer arrays, 0-d array,
    numpy scalar, Python float, one-element list, 2-d array, non-contiguous view; options as numpy scalars of several dtypes.
    Each result must equal the one for the equivalent contiguous float64 array (float32: to float32 accuracy)."""
    from gstools.transform import array as A
    x = rng.normal(1.2, 0.9, size=12)
    xi = np.round(x * 3).astype(np.int64)
    m, v = 1.2, 0.81
    fns = [
        ("array_to_uniform", dict(mean=m, var=v, low=-1.0, high=3.0)), ("array_to_arcsin", dict(mean=m, var=v)), ("array_to_arcsin", dict(mean=m, var=v, a=-2.0, b=5.0)),
        ("array_to_uquad", dict(mean=m, var=v)), ("array_to_uquad", dict(mean=m, var=v, a=-2.0, b=5.0)), ("array_zinnharvey", dict(conn="high", mean=m, var=v)),
        ("array_zinnharvey", dict(conn="low", mean=m, var=v)), ("array_force_moments", dict(mean=0.5, var=2.0)), ("array_to_lognormal", {}),
        ("array_boxcox", dict(lmbda=0.5, shift=1.0)), ("array_boxcox", dict(lmbda=0, shift=0)),
        ("array_discrete", dict(values=[0.5, 1.5, 2.5], thresholds="arithmetic")), ("array_discrete", dict(values=[0.5, 1.5, 2.5], thresholds="equal", mean=m, var=v)),
        ("array_discrete", dict(values=[0.5, 1.5, 2.5], thresholds=[0.9, 1.8])), ("array_discrete", dict(values=(0.5, 1.5), thresholds=(1.1,))),
    ]
    big = np.zeros((12, 3))
    big[:, 1] = x
    for name, kw in fns:
        f = getattr(A, name)
        base = impl_call(f, x, **kw)
        base_i = impl_call(f, xi.astype(float), **kw)
        variants = [("list", list(x), base, 1e-12), ("tuple", tuple(x), base, 1e-12), ("float32", x.astype(np.float32), impl_call(f, x.astype(np.float32).astype(float), **kw), 3e-5),
                    ("int64", xi, base_i, 1e-12), ("int32", xi.astype(np.int32), base_i, 1e-12), ("list of int", [int(q) for q in xi], base_i, 1e-12),
                    ("2-d", x.reshape(3, 4), None if is_err(base) or name == "array_force_moments" and False else (base.reshape(3, 4) if not is_err(base) else base), 1e-12),
                    ("non-contiguous view", big[:, 1], base, 1e-12), ("reversed view", x[::-1], None, 1e-12),
                    ("Fortran-ordered 2-d", np.asfortranarray(x.reshape(3, 4)), (base.reshape(3, 4) if not is_err(base) else base), 1e-12),
                    ("(n,1) column", x.reshape(12, 1), (base.reshape(12, 1) if not is_err(base) else base), 1e-12)]
        if name != "array_force_moments":     # the sample variance of a single value is 0: 0/0 by definition
            one = impl_call(f, x[:1], **kw) if not (kw.get("mean", 0) is None) else None
            variants += [("0-d array", np.array(x[0]), one, 1e-12), ("numpy scalar", np.float64(x[0]), one, 1e-12), ("python float", float(x[0]), one, 1e-12),
                         ("one-element list", [float(x[0])], one, 1e-12)]
        for vname, arg, want, rt in variants:
            got = impl_call(f, arg, **kw)
            ctx.count(("input-class", name, vname, str(kw.get("thresholds"))[:8]), hist=dict(input_class=vname))
            if vname == "reversed view":
                want = base[::-1] if not is_err(base) else base
                if name == "array_force_moments" or kw.get("mean", 0) is None:
                    rt = 1e-12
            if is_err(want):
                ok = is_err(got) and got[:2] == want[:2]
            else:
                ok = (not is_err(got)) and np.asarray(got).size == np.asarray(want).size and close(np.ravel(got), np.ravel(want), rtol=rt, scale=1.0 + np.abs(np.ravel(want)))
                if ok and vname in ("2-d", "Fortran-ordered 2-d"):
                    ok = np.shape(got) == (3, 4) and bool(np.allclose(got, np.reshape(want, (3, 4)), rtol=1e-12, atol=0, equal_nan=True))
                if ok and vname == "(n,1) column":
                    ok = np.shape(got) == (12, 1)
            if not ok:
                report(ctx, "probe: %s with the field given as %s" % (name, vname),
                       "%s(field as %s) differs from the result for the equivalent float64 array" % (name, vname),
                       dict(function=name, kwargs={k: (list(v_) if isinstance(v_, tuple) else v_) for k, v_ in kw.items()}, field_class=vname,
                            field=hexl(np.ravel(np.asarray(arg, dtype=float))), got=(list(got) if is_err(got) else hexl(got)), want=(list(want) if is_err(want) else hexl(want))),
                       key="input-class:%s:%s" % (name, vname))
        if name == "array_discrete":
            xn = x.copy()
            xn[[2, 7]] = np.nan
            got = impl_call(f, xn, **{k: v_ for k, v_ in kw.items()})
            ctx.count(("input-class", name, "NaN cells", str(kw.get("thresholds"))[:8]), hist=dict(input_class="NaN cells"))
            fin = ~np.isnan(xn)
            if is_err(got) or is_err(base) or not np.isnan(got[~fin]).all() or not bool((got[fin] == base[fin]).all()):
                report(ctx, "probe: array_discrete with NaN cells", "array_discrete: NaN cells must stay NaN and must not influence the other cells",
                       dict(function=name, kwargs={k: (list(v_) if isinstance(v_, tuple) else v_) for k, v_ in kw.items()}, field=hexl(xn),
                            got=(list(got) if is_err(got) else hexl(got))), key="input-class:array_discrete:nan")
        # numeric options as numpy scalars of other dtypes
        num = {k: v_ for k, v_ in kw.items() if isinstance(v_, (int, float)) and not isinstance(v_, bool)}
        for tname, conv in (("np.float32", np.float32), ("np.float64", np.float64), ("0-d array", lambda q: np.array(q, dtype=float)), ("np.int64 (integral values)", None)):
            if conv is None:
                kw2 = {k: (np.int64(v_) if float(v_).is_integer() else v_) for k, v_ in kw.items() if k in num}
            else:
                kw2 = {k: conv(v_) for k, v_ in num.items()}
            kwf = dict(kw, **{k: float(v_) for k, v_ in kw2.items()})
            want = impl_call(f, x, **kwf)
            got = impl_call(f, x, **dict(kw, **kw2))
            ctx.count(("option-class", name, tname), hist=dict(input_class="options as " + tname))
            ok = (is_err(want) and is_err(got) and got[:2] == want[:2]) or (not is_err(want) and not is_err(got) and close(got, want, rtol=1e-12, scale=1.0 + np.abs(want)))
            if not ok:
                report(ctx, "probe: %s with options given as %s" % (name, tname), "%s: options as %s give another result than the same values as Python floats" % (name, tname),
                       dict(function=name, kwargs={k: repr(v_) for k, v_ in dict(kw, **kw2).items()}, field=hexl(x), got=(list(got) if is_err(got) else hexl(got)),
                            want=(list(want) if is_err(want) else hexl(want))), key="option-class:%s" % name)


# --------------------------------------------------------------------------- round 5: integer-typed options, layouts, object semantics

def int_spellings(v):
    """an integer value in the integer types a caller may pass"""
    out = [("int", int(v)), ("np.int64", np.int64(v)), ("np.int32", np.int32(v)), ("np.int16", np.int16(v)), ("0-d int array", np.array(int(v)))]
    # unsigned numpy scalars are left out: np.uint8(5) - (-3) raises OverflowError in numpy itself (loud, not a GSTools matter)
    return out


def integer_options(ctx, rng, drv):
    """EVERY numeric option of every transformation (array functions and Field.transform wrappers, field mean / trend / model variance
    included) as an integer-typed value with |value| >= 2, positive and negative, in all integer spellings (int, np.int64/32/16,
    0-d integer array), one option at a time and all together: the result must be the one of the same values given as floats
    (numpy helpers keep integer dtypes: np.reciprocal(2) == 0, 2 ** -1 raises, int8 overflows)."""
    from gstools.transform import array as A
    import gstools as gs
    x = np.concatenate([rng.normal(0.4, 1.1, size=14), [0.0, 2.0, -3.0]])
    xp = np.abs(x) * 0.2                                    # Box-Cox with negative lmbda: keep lmbda*(x+shift)+1 > 0 for most cells
    plans = [
        ("array_to_uniform", x, dict(mean=2, var=4, low=-3, high=5)), ("array_to_uniform", x, dict(mean=-3, var=2, low=2, high=3)),
        ("array_to_arcsin", x, dict(mean=2, var=2, a=-3, b=5)), ("array_to_arcsin", x, dict(mean=-2, var=3)),
        ("array_to_uquad", x, dict(mean=2, var=2, a=-3, b=5)), ("array_to_uquad", x, dict(mean=-2, var=3)),
        ("array_to_uquad", x, dict(mean=2, var=4, a=-2)), ("array_to_arcsin", x, dict(mean=-3, var=4, b=2)),
        ("array_zinnharvey", x, dict(conn="high", mean=2, var=3)), ("array_zinnharvey", x, dict(conn="low", mean=-2, var=2)),
        ("array_force_moments", x, dict(mean=3, var=2)), ("array_force_moments", x, dict(mean=-2, var=5)),
        ("array_boxcox", x, dict(lmbda=2, shift=3)), ("array_boxcox", x, dict(lmbda=3, shift=2)), ("array_boxcox", x, dict(lmbda=2, shift=-2)),
        ("array_boxcox", xp, dict(lmbda=-2, shift=0)), ("array_boxcox", xp, dict(lmbda=-3, shift=0)), ("array_boxcox", x, dict(lmbda=5, shift=2)),
        ("array_discrete", x, dict(values=[-2, 2, 5], thresholds="equal", mean=2, var=3)),
    ]
    for fn, data, kw in plans:
        f = getattr(A, fn)
        num = [k for k, v_ in kw.items() if isinstance(v_, int) and not isinstance(v_, bool)]
        want = impl_call(f, data, **{k: (float(v_) if k in num else v_) for k, v_ in kw.items()})
        subsets = [[k] for k in num] + [num]
        for sub in subsets:
            for idx in range(6):
                kw2 = dict(kw)
                tn = None
                for k in num:
                    sp = int_spellings(kw[k])
                    if k in sub:
                        tn, val = sp[idx % len(sp)]
                        kw2[k] = val
                    else:
                        kw2[k] = float(kw[k])
                got = impl_call(f, data, **kw2)
                ctx.count(("int-option", fn, "+".join(sub), idx, tuple(sorted(kw.items(), key=str))[0:1] and str(sorted(kw.items(), key=str))),
                          hist=dict(int_option="%s.%s" % (fn, "+".join(sub) if len(sub) == 1 else "all")))
                ok = (is_err(want) and is_err(got) and got[:2] == want[:2]) or (
                    not is_err(want) and not is_err(got) and close(got, want, rtol=1e-12, scale=1.0 + np.abs(np.nan_to_num(want, posinf=0.0, neginf=0.0))))
                if not ok:
                    report(ctx, "probe: %s with integer-typed %s" % (fn, ", ".join(sub)),
                           "%s: %s given as integer(s) (%s) give another result than the same value(s) as floats" % (fn, ", ".join(sub), tn),
                           dict(function=fn, kwargs={k: "%s(%r)" % (type(v_).__name__, v_.tolist() if isinstance(v_, np.ndarray) else v_) for k, v_ in kw2.items()},
                                field=hexl(data), got=(list(got) if is_err(got) else hexl(got)), want=(list(want) if is_err(want) else hexl(want))),
                           key="int-option:%s:%s" % (fn, "+".join(sub) if len(sub) == 1 else "all"))
    # values / thresholds of array_discrete as integer lists and integer arrays
    for values, thr in (([-2, 2, 5], [-1, 3]), ([3, -3], [2]), ([-2, 0, 2, 7], "arithmetic")):
        wantd = impl_call(A.array_discrete, x, [float(q) for q in values], thr if isinstance(thr, str) else [float(q) for q in thr])
        for tname, conv in (("list of int", lambda q: [int(i) for i in q]), ("int64 array", lambda q: np.array(q, dtype=np.int64)), ("int8 array", lambda q: np.array(q, dtype=np.int8)),
                            ("tuple of np.int32", lambda q: tuple(np.int32(i) for i in q))):
            gotd = impl_call(A.array_discrete, x, conv(values), thr if isinstance(thr, str) else conv(thr))
            ctx.count(("int-option", "array_discrete", tname, len(values)), hist=dict(int_option="array_discrete.values/thresholds"))
            if is_err(wantd) or is_err(gotd) or not bool((gotd == wantd).all()):
                report(ctx, "probe: array_discrete with integer values / thresholds (%s)" % tname, "array_discrete: integer-typed values / thresholds change the result",
                       dict(field=hexl(x), values=values, thresholds=thr, container=tname, got=(list(gotd) if is_err(gotd) else hexl(gotd)),
                            want=(list(wantd) if is_err(wantd) else hexl(wantd))), key="int-option:array_discrete:values")
    # Field.transform wrappers: integer options, integer field mean / trend / model variance
    n = len(x)
    wplans = [("normal_to_uniform", dict(low=-3, high=2)), ("normal_to_arcsin", dict(a=-2, b=5)), ("normal_to_uquad", dict(a=-3, b=4)), ("normal_to_uquad", dict(b=6)),
              ("boxcox", dict(lmbda=2, shift=3)), ("boxcox", dict(lmbda=3, shift=2)), ("binary", dict(divide=2, upper=5, lower=-3)), ("binary", dict(upper=4)),
              ("discrete", dict(values=[-2, 2, 5], thresholds=[1, 3])), ("discrete", dict(values=[-2, 2, 5], thresholds="equal")), ("zinnharvey", {}),
              ("normal_force_moments", {}), ("normal_to_lognormal", {})]
    for idx, (mean_i, var_i, trend_i) in enumerate(((2, 3, None), (-2, 2, 3), (3, 4, -2))):
        def build(as_int, spell):
            cv = (lambda q: int_spellings(q)[spell % len(int_spellings(q))][1]) if as_int else float
            fld = gs.SRF(gs.Gaussian(dim=1, var=cv(var_i), len_scale=2), mean=cv(mean_i), trend=None if trend_i is None else cv(trend_i))
            fld.set_pos([np.arange(n, dtype=float)], "unstructured")
            fld.post_field(x * math.sqrt(var_i) + mean_i + (trend_i or 0), name="field", process=False, save=True)
            return fld
        for spell in range(3):
            for process in ((True, False) if trend_i is None else (True,)):
                for mname, kw in wplans:
                    kwi = {k: ([int_spellings(q)[spell % len(int_spellings(q))][1] for q in v_] if isinstance(v_, list) else v_ if isinstance(v_, str) else int_spellings(v_)[spell % len(int_spellings(v_))][1])
                           for k, v_ in kw.items()}
                    kwf = {k: ([float(q) for q in v_] if isinstance(v_, list) else v_ if isinstance(v_, str) else float(v_)) for k, v_ in kw.items()}
                    keep_mean = bool((spell + idx) % 2)
                    want = impl_call(build(False, 0).transform, mname, store=False, process=process, keep_mean=keep_mean, **kwf)
                    got = impl_call(build(True, spell).transform, mname, store=False, process=process, keep_mean=keep_mean, **kwi)
                    ctx.count(("int-option", "wrapper", mname, str(sorted(kw)), idx, spell, process), hist=dict(int_option="Field.transform " + mname))
                    ok = (is_err(want) and is_err(got) and got[:2] == want[:2]) or (not is_err(want) and not is_err(got) and close(got, want, rtol=1e-12, scale=1.0 + np.abs(want)))
                    if not ok:
                        report(ctx, "probe: Field.transform('%s') with integer-typed options / field parameters" % mname,
                               "Field.transform('%s', process=%s): integer-typed options, mean, trend or variance give another result than the same values as floats" % (mname, process),
                               dict(method=mname, kwargs={k: repr(v_) for k, v_ in kwi.items()}, mean=repr(int_spellings(mean_i)[spell % len(int_spellings(mean_i))][1]), var=var_i, trend=trend_i,
                                    process=process, keep_mean=keep_mean, field=hexl(x * math.sqrt(var_i) + mean_i + (trend_i or 0)),
                                    got=(list(got) if is_err(got) else hexl(got)), want=(list(want) if is_err(want) else hexl(want))), key="int-option:wrapper:%s" % mname)


def object_semantics(ctx, rng):
    """results are functions of the object's own present parameters and of the call's arguments only: keyword order of the **kwargs API,
    copy.deepcopy of the Field, other Field objects created / transformed in between (no shared state), memory layout of structured fields"""
    import copy
    import gstools as gs

    def make(mean, norm, trend, seed_data):
        f = gs.SRF(gs.Exponential(dim=2, var=0.6, nugget=0.1), mean=mean, normalizer=norm, trend=trend)
        ax = (np.linspace(0, 2, 4), np.linspace(0, 1, 3))
        f.set_pos(ax, "structured")
        f.post_field(seed_data, name="field", process=False, save=True)
        return f
    z = rng.normal(1.4, math.sqrt(0.7), size=(4, 3))
    methods = [("normal_to_uniform", dict(low=-1.0, high=2.0)), ("normal_to_arcsin", dict(a=-2.0, b=3.0)), ("normal_to_uquad", dict(b=4.0, a=-1.0)),
               ("boxcox", dict(lmbda=0.5, shift=1.0)), ("binary", dict(divide=1.2, upper=3.0, lower=0.5)), ("discrete", dict(values=[0.0, 1.0, 3.0], thresholds=[1.0, 2.0])),
               ("zinnharvey", dict(conn="low")), ("normal_force_moments", {}), ("normal_to_lognormal", {})]
    for norm_kind in (0, 1):
        for process in (False, True):
            if norm_kind and not process:
                continue
            norm = gs.normalizer.LogNormal() if norm_kind else None
            data = np.exp(z) if norm_kind else z
            fld = make(1.4, norm, None, data)
            for mname, kw in methods:
                flags = dict(store=False, process=process, keep_mean=False)
                ref = impl_call(fld.transform, mname, **dict(kw, **flags))
                variants = []
                # keyword order
                allkw = dict(kw, **flags)
                variants.append(("reversed keyword order", impl_call(fld.transform, mname, **dict(reversed(list(allkw.items()))))))
                variants.append(("flags before options", impl_call(fld.transform, mname, **dict(list(flags.items()) + list(kw.items())))))
                # deep copy behaves like the original and is independent of it
                cp = copy.deepcopy(fld)
                variants.append(("copy.deepcopy of the field", impl_call(cp.transform, mname, **allkw)))
                impl_call(cp.transform, mname, **dict(allkw, store=True))
                if not C.bit_equal(fld["field"], data):
                    variants.append(("original changed by a transformation stored in its deep copy", ("err", 0, "changed")))
                # interference: other objects with other parameters are created and transformed in between
                other = make(-3.0, gs.normalizer.BoxCox(lmbda=0.3), 0.5, np.abs(z) + 1.0)
                impl_call(other.transform, mname, **dict(kw, store=True, process=True, keep_mean=True))
                other2 = gs.SRF(gs.Gaussian(dim=1, var=9.0), mean=7.0)
                other2.set_pos([np.arange(5.0)], "unstructured")
                other2.post_field(np.arange(5.0) + 6, name="field", process=False, save=True)
                impl_call(other2.transform, mname, **dict(kw, store="x", process=False))
                variants.append(("after transforming other Field objects", impl_call(fld.transform, mname, **allkw)))
                # memory layout of the stored field
                for lname, arr in (("Fortran-ordered stored field", np.asfortranarray(data)), ("transposed-view stored field", np.ascontiguousarray(data.T).T),
                                   ("strided stored field", np.repeat(data, 2, axis=1)[:, ::2])):
                    f2 = make(1.4, norm, None, data)
                    setattr(f2, "field", arr)
                    variants.append((lname, impl_call(f2.transform, mname, **allkw)))
                for vname, got in variants:
                    ctx.count(("object", mname, vname, norm_kind, process), hist=dict(object_semantics=vname))
                    tight = mname != "normal_force_moments" or "stored field" not in vname        # summation order follows the memory layout
                    ok = (is_err(ref) and is_err(got) and got[:2] == ref[:2]) or (not is_err(ref) and not is_err(got) and got.shape == ref.shape and (
                        C.bit_equal(got, ref) if tight else close(got, ref, rtol=1e-12, scale=1.0 + np.abs(ref))))
                    if not ok:
                        report(ctx, "probe: Field.transform('%s') — %s" % (mname, vname),
                               "Field.transform('%s', process=%s): the result depends on %s" % (mname, process, vname),
                               dict(method=mname, kwargs=kw, process=process, normalizer=norm_kind, variant=vname, field=hexl(data),
                                    got=(list(got) if is_err(got) else hexl(got)), want=(list(ref) if is_err(ref) else hexl(ref))), key="object:%s" % vname)


# --------------------------------------------------------------------------- round 6: documented default rules

def default_rules(ctx, rng):
    """every documented default of the wrappers and array functions against an independent formula: binary (divide = mean,
    upper/lower = mean +- sqrt(sill), each given or defaulted independently of the others), discrete thresholds 'arithmetic' (default) /
    'equal' with the field mean and the model SILL, uniform on [0, 1], arcsine / U-quadratic bounds mean -+ sqrt(2 sill) / sqrt(5/3 sill)
    with a and b given or defaulted independently, zinnharvey conn = 'high', boxcox lmbda = 1 / shift = 0, force_moments to the field mean
    and sill, and the flag defaults field='field', store=True, process=False, keep_mean=True"""
    import gstools as gs
    from gstools.transform import array as A
    n = 400
    for rep, (m, var, nug) in enumerate(((1.7, 0.8, 0.45), (-2.4, 2.0, 0.0), (0.9, 0.3, 1.1))):
        sill = var + nug
        sd = math.sqrt(sill)
        x = rng.normal(m, sd, size=n)

        def fresh():
            f = gs.SRF(gs.Exponential(dim=1, var=var, nugget=nug, len_scale=3.0), mean=m)
            f.set_pos([np.arange(n, dtype=float)], "unstructured")
            f.post_field(x, name="field", process=False, save=True)
            return f
        fld = fresh()
        for process, keep_mean in ((False, True), (True, True), (True, False)):
            shift = m if (process and not keep_mean) else 0.0
            marg = m - shift
            pre = x - shift
            z = (pre - marg) / sd
            flags = dict(store=False, process=process, keep_mean=keep_mean)
            checks = []          # (label, method, kwargs, expected array in the pre-processed space)
            # binary: each of divide / upper / lower given or defaulted
            for d in (None, marg + 0.7 * sd, marg - 1.3 * sd):
                for u in (None, marg + 2.5):
                    for lo in (None, marg - 4.0):
                        kw = {k: v_ for k, v_ in (("divide", d), ("upper", u), ("lower", lo)) if v_ is not None}
                        de = marg if d is None else d
                        ue = marg + sd if u is None else u
                        le = marg - sd if lo is None else lo
                        checks.append(("binary(%s)" % ",".join(sorted(kw)) , "binary", kw, np.where(pre <= de, le, ue), 0.0))
            vals = np.array([marg + 2.0, marg - 1.0, marg + 0.3, marg - 2.5])
            vs = np.sort(vals)
            mids = (vs[1:] + vs[:-1]) / 2
            checks.append(("discrete default thresholds", "discrete", dict(values=vals), vs[np.searchsorted(mids, pre, side="left")], 0.0))
            checks.append(("discrete arithmetic", "discrete", dict(values=vals, thresholds="arithmetic"), vs[np.searchsorted(mids, pre, side="left")], 0.0))
            q = stats.norm.ppf(np.arange(1, 4) / 4, loc=marg, scale=sd)
            near = np.min(np.abs(pre[:, None] - q[None, :]), axis=1) <= 1e-9 * (abs(marg) + sd)
            checks.append(("discrete equal (field mean, model sill)", "discrete", dict(values=vals, thresholds="equal"), np.where(near, np.nan, vals[np.searchsorted(q, pre, side="left")]), 0.0))
            u01 = special.ndtr(z)
            checks.append(("uniform default [0, 1]", "normal_to_uniform", {}, u01, 1e-12))
            checks.append(("uniform low only", "normal_to_uniform", dict(low=-2.0), u01 * 3.0 - 2.0, 1e-12))
            checks.append(("uniform high only", "normal_to_uniform", dict(high=5.0), u01 * 5.0, 1e-12))
            for name, fac, ppf in (("arcsin", 2.0, lambda uu, a, b: stats.arcsine.ppf(uu, loc=a, scale=b - a)), ("uquad", 5.0 / 3.0, None)):
                for a in (None, marg - 3.0):
                    for b in (None, marg + 4.5):
                        ae = marg - math.sqrt(fac * sill) if a is None else a
                        be = marg + math.sqrt(fac * sill) if b is None else b
                        kw = {k: v_ for k, v_ in (("a", a), ("b", b)) if v_ is not None}
                        if ppf is not None:
                            checks.append(("%s(%s)" % (name, ",".join(sorted(kw))), "normal_to_" + name, kw, ppf(u01, ae, be), 1e-9 * (abs(ae) + abs(be))))
                        else:
                            checks.append(("%s(%s)" % (name, ",".join(sorted(kw))), "normal_to_" + name, kw, ("uquad-cdf", ae, be), 1e-9))
            wlow = stats.norm.ppf(np.clip(2 * special.ndtr(np.abs(z)) - 1, 1e-300, 1)) * sd + marg
            checks.append(("zinnharvey default conn = high", "zinnharvey", {}, 2 * marg - wlow, 1e-8 * (abs(marg) + sd * (1 + np.abs((wlow - marg) / sd)))))
            checks.append(("zinnharvey low", "zinnharvey", dict(conn="low"), wlow, 1e-8 * (abs(marg) + sd * (1 + np.abs((wlow - marg) / sd)))))
            checks.append(("boxcox defaults lmbda = 1, shift = 0", "boxcox", {}, np.maximum(pre + 1.0, 0.0), 1e-12 * (1 + np.abs(pre))))
            checks.append(("boxcox lmbda only", "boxcox", dict(lmbda=0.5), np.maximum(0.5 * pre + 1.0, 0.0) ** 2, 1e-12 * (1 + pre * pre)))
            checks.append(("boxcox shift only", "boxcox", dict(shift=2.0), np.maximum(pre + 3.0, 0.0), 1e-12 * (3 + np.abs(pre))))
            checks.append(("lognormal", "normal_to_lognormal", {}, np.exp(pre), 1e-12 * np.exp(pre)))
            for label, mname, kw, want, tol in checks:
                got = impl_call(fld.transform, mname, **dict(kw, **flags))
                ctx.count(("default", label, process, keep_mean, rep), hist=dict(default_rule=label.split("(")[0]))
                if is_err(got):
                    ok = False
                elif isinstance(want, tuple):
                    ok = bool((np.abs(cdf_uquad(got - shift, want[1], want[2]) - u01) <= 1e-9).all()) and bool((got - shift >= want[1]).all()) and bool((got - shift <= want[2]).all())
                else:
                    cmp_ = ~np.isnan(want)
                    ok = bool((np.abs((got - shift) - want)[cmp_] <= np.broadcast_to(tol, want.shape)[cmp_] + 4 * EPS * (abs(shift) + np.abs(want[cmp_]))).all())
                if not ok:
                    report(ctx, "probe: documented defaults, %s" % label,
                           "Field.transform('%s', %s, process=%s, keep_mean=%s) does not follow the documented defaults (field mean %.3g, sill %.3g)" % (
                               mname, ", ".join("%s=%.4g" % (k, v_) if isinstance(v_, float) else "%s=..." % k for k, v_ in kw.items()) or "no options", process, keep_mean, m, sill),
                           dict(method=mname, kwargs={k: (v_ if not isinstance(v_, np.ndarray) else hexl(v_)) for k, v_ in kw.items()}, process=process, keep_mean=keep_mean,
                                mean=m, var=var, nugget=nug, field=hexl(x), got=(list(got) if is_err(got) else hexl(got)),
                                expected=(hexl(want + shift) if not isinstance(want, tuple) else ["U-quadratic on", want[1] + shift, want[2] + shift])),
                           key="default:%s" % label.split("(")[0])
            # force moments: the field's mean and the model's sill
            got = impl_call(fld.transform, "normal_force_moments", **flags)
            ctx.count(("default", "force_moments", process, keep_mean, rep), hist=dict(default_rule="force_moments"))
            if is_err(got) or abs(np.mean(got) - m) > 1e-10 * (abs(m) + sd) or abs(np.var(got) - sill) > 1e-10 * sill:
                report(ctx, "probe: documented defaults, normal_force_moments", "normal_force_moments does not force the field mean and the model sill (variance + nugget)",
                       dict(process=process, keep_mean=keep_mean, mean=m, var=var, nugget=nug, field=hexl(x), got=(list(got) if is_err(got) else [float(np.mean(got)), float(np.var(got))])),
                       key="default:force_moments")
        # flag defaults: field='field', store=True, process=False, keep_mean=True
        for mname, kw in (("normal_to_uniform", {}), ("binary", dict(divide=m + 0.4)), ("zinnharvey", {}), ("normal_to_lognormal", {}), ("discrete", dict(values=[0.0, 1.0, 3.0]))):
            f1, f2 = fresh(), fresh()
            a1 = impl_call(f1.transform, mname, **kw)
            a2 = impl_call(f2.transform, mname, field="field", store=True, process=False, keep_mean=True, **kw)
            ctx.count(("default", "flags", mname, rep), hist=dict(default_rule="flags"))
            if is_err(a1) or is_err(a2) or not C.bit_equal(a1, a2) or list(f1.field_names) != ["field"] or not C.bit_equal(f1["field"], a1):
                report(ctx, "probe: documented defaults, flags of Field.transform('%s')" % mname,
                       "Field.transform without flags is not transform(field='field', store=True, process=False, keep_mean=True)",
                       dict(method=mname, kwargs=kw, mean=m, var=var, nugget=nug, field=hexl(x), names=list(f1.field_names)), key="default:flags")
        # array-level defaults
        xa = rng.normal(m, sd, size=60)
        ma, va = float(np.mean(xa)), float(np.var(xa))
        pairs = [("array_to_uniform()", A.array_to_uniform(xa), A.array_to_uniform(xa, ma, va, 0.0, 1.0)),
                 ("array_to_arcsin()", A.array_to_arcsin(xa), A.array_to_arcsin(xa, ma, va, ma - math.sqrt(2 * va), ma + math.sqrt(2 * va))),
                 ("array_to_uquad()", A.array_to_uquad(xa), A.array_to_uquad(xa, ma, va, ma - math.sqrt(5 / 3 * va), ma + math.sqrt(5 / 3 * va))),
                 ("array_to_uquad(a)", A.array_to_uquad(xa, ma, va, a=ma - 3), A.array_to_uquad(xa, ma, va, ma - 3, ma + math.sqrt(5 / 3 * va))),
                 ("array_to_arcsin(b)", A.array_to_arcsin(xa, ma, va, b=ma + 3), A.array_to_arcsin(xa, ma, va, ma - math.sqrt(2 * va), ma + 3)),
                 ("array_zinnharvey()", A.array_zinnharvey(xa), A.array_zinnharvey(xa, "high", ma, va)),
                 ("array_force_moments()", A.array_force_moments(xa), A.array_force_moments(xa, 0.0, 1.0)),
                 ("array_boxcox()", A.array_boxcox(xa), A.array_boxcox(xa, 1.0, 0.0)),
                 ("array_discrete()", A.array_discrete(xa, [2.0, -1.0, 0.5]), A.array_discrete(xa, [2.0, -1.0, 0.5], "arithmetic")),
                 ("array_discrete(equal)", A.array_discrete(xa, [2.0, -1.0, 0.5], "equal"), A.array_discrete(xa, [2.0, -1.0, 0.5], "equal", ma, va))]
        for label, a1, a2 in pairs:
            ctx.count(("default", "array", label, rep), hist=dict(default_rule="array functions"))
            if not close(a1, a2, rtol=1e-12, scale=1.0 + np.abs(a2)):
                report(ctx, "probe: documented defaults, %s" % label, "%s with defaulted arguments differs from the call with the documented default values" % label,
                       dict(call=label, field=hexl(xa), got=hexl(a1), want=hexl(a2)), key="default:array:%s" % label)


# --------------------------------------------------------------------------- run

def run(ctx):
    rng = C.Rng(ctx.seed, "C19")
    ctx.rule = ("cases = (array function | Field.transform wrapper) x size x mean/var given or estimated x bounds/values/threshold mode x "
                "process x keep_mean x normalizer x trend x store kind x outcome, plus zero-valued options in six spellings, in-place parameter changes "
                "between calls, mesh kind x dim x axis lengths x mean/trend kind cells, geometric approach to every branch threshold, mean/std ratios 1..1e8, "
                "field / option input classes, source-field x store selection; a case is non-trivial when the field has >= 2 cells; "
                "distinct = distinct option keys")
    ctx.trusted = [
        "Coq 8.16.1 kernel (coqc); no native_compute",
        "erf / erfinv (scipy.special) are oracle functions: section variables in every theorem with the hypotheses erf strictly increasing, "
        "odd, range (-1,1), erfinv(erf x) = x, erf(erfinv y) = y on (-1,1); the executable model asks scipy for their values",
        "Phi(z) = (1 + erf(z / sqrt 2)) / 2 is the standard normal cdf (definition of erf); the target cdfs (uniform, log-normal, arcsine, "
        "U-quadratic, half-normal) and the moment formulas of the arcsine / U-quadratic laws are taken from their definitions (C19_RInst.v)",
        "real instance C19_RInst.Rops (Rpow = integer powers for any base, Rpower for positive bases), comparisons by Rlt_dec/Rle_dec",
        "extraction (ExtrOcamlBasic only), OCaml 4.13, ocaml/proto.ml float instance (glibc libm), ocaml/drv_c19.ml",
        "hand model coq/c19/C19_Model.v tied to /repo by execution (this harness): numpy ufunc semantics, np.mean/np.var as plain sums",
        "numpy Generator (PCG64) delivers iid normal samples for the Kolmogorov probes",
    ]
    ctx.not_proved = [
        "that the input IS normal (hypothesis of the property): theorems are push-forward identities F_target(T x) = Phi((x-m)/sigma) with T monotone",
        "moments of the arcsine / U-quadratic laws are not derived from their cdfs by integration (probed numerically)",
        "IEEE rounding: theorems are over exact reals; the float instance of the same definitions is what the correspondence executes",
        "None means, invalid store names, vector fields: outside the modelled domain; NaN cells, non-float64 field containers and structured meshes are covered by probes / cells only; callable means are outside the Gallina record (covered by the mesh/mean/trend cells of the correspondence with the pre/post steps done by the harness)",
    ]
    for f in ("array_force_moments", "array_discrete", "array_* with mean=None / var=None (np.mean / np.var of the data)",
              "Field.transform wrappers (apply, binary, discrete, boxcox, zinnharvey, normal_*; process/keep_mean/store)"):
        ctx.tie[f] = "hand model + correspondence"
    for f, how in (("array_to_lognormal", "any number type"), ("array_to_uniform (mean, var given)", "any number type"),
                   ("array_zinnharvey (mean, var given; conn low / high)", "any number type"),
                   ("array_to_arcsin (given and default bounds)", "at R"), ("array_to_uquad (given and default bounds)", "at R"),
                   ("array_boxcox", "at R"), ("_uniform_to_arcsin", "at R"), ("_uniform_to_uquad", "at R"),
                   ("BoxCox._normalize", "at R"), ("BoxCox._denormalize", "at R")):
        ctx.tie[f] = "translated on this run (py2coq, gen/Formulas_gen.v) = hand model, Coq-checked %s (props C19_tie_*); + correspondence" % how
    proofs_ok = ctx.proofs("props/C19.v")
    tie_broken = []
    ok, out = C.build_driver("c19")
    drv = None
    if ok:
        drv = C.Driver("c19", oracle)
    else:
        tie_broken.append("extraction/driver build: " + out[-400:])
    try:
        n0 = len(ctx.violations)
        if drv is not None:
            # one PRNG stream per stage: a failure in one stage does not change the cases of the others
            array_correspondence(ctx, C.Rng(ctx.seed, "C19/array"), drv)
            wrapper_correspondence(ctx, C.Rng(ctx.seed, "C19/wrapper"), drv)
            falsy_options(ctx, C.Rng(ctx.seed, "C19/falsy"), drv)
            grid_cells(ctx, C.Rng(ctx.seed, "C19/cells"), drv)
            threshold_approach(ctx, C.Rng(ctx.seed, "C19/thresholds"), drv)
            scale_ratios(ctx, C.Rng(ctx.seed, "C19/ratios"), drv)
            integer_options(ctx, C.Rng(ctx.seed, "C19/intopts"), drv)
        n_corr = len(ctx.violations) - n0
        probe_store(ctx, C.Rng(ctx.seed, "C19/store"))
        input_classes(ctx, C.Rng(ctx.seed, "C19/classes"))
        object_semantics(ctx, C.Rng(ctx.seed, "C19/objects"))
        default_rules(ctx, C.Rng(ctx.seed, "C19/defaults"))
        probe_partition(ctx, C.Rng(ctx.seed, "C19/partition"))
        probe_pointwise(ctx, C.Rng(ctx.seed, "C19/pointwise"))
        probe_ks(ctx, C.Rng(ctx.seed, "C19/ks"))
        probe_wrappers(ctx, C.Rng(ctx.seed, "C19/wrappers"))
    finally:
        if drv:
            drv.close()
    if (tie_broken or not proofs_ok) and not ctx.violations:
        ctx.violation("proof/tie", "proof obligations or the model/code tie of C19 no longer check: %s" % (
            tie_broken or getattr(ctx, "proof_failure", {}).get("output_tail", "")[-600:]),
            dict(tie_broken=tie_broken, proof=getattr(ctx, "proof_failure", None)), no_input=True)


def replay(ctx, path):
    rec = json.load(open(path))
    print(json.dumps({k: rec[k] for k in ("stage", "what", "key", "seed", "tier")}, indent=1))
    # every case of a run is a function of (seed, tier): re-running with the recorded ones reproduces the recorded case
    ctx.seed = int(rec.get("seed", ctx.seed))
    ctx.tier = rec.get("tier", ctx.tier)
    run(ctx)
    return ctx.finish()
