"""MANIFEST.setup_cmd: offline build of the whole framework from files on disk."""
import os
import re
import sys

sys.path.insert(0, os.path.dirname(os.path.abspath(__file__)))
import common as C


def main():
    bad = C.forbidden_scan()
    if bad:
        print("forbidden vernacular:\n" + "\n".join(bad))
        return 1
    gen = C.regenerate()
    for k, v in gen.items():
        if v:
            print("translator failed for %s: %s" % (k, v))
            return 1
    try:
        import formulas
        formulas.regenerate_all()
    except ImportError:
        pass
    C.write_coqproject()
    import json
    claimed = [c["property_id"] for c in json.load(open(os.path.join(C.VERIF, "MANIFEST.json")))["checks"]]
    targets = ["props/%s.vo" % p for p in claimed if os.path.exists(os.path.join(C.COQ, "props", p + ".v"))]
    ok, out = C.coq_make(targets, timeout=3400)
    print(out[-3000:])
    if not ok:
        return 1
    rc = 0
    for f in sorted(os.listdir(os.path.join(C.COQ, "extract"))):
        m = re.match(r"^(\w+)_extract\.v$", f)
        if m:
            ok, out = C.build_driver(m.group(1))
            print("driver %s: %s" % (m.group(1), "ok" if ok else "FAILED\n" + out[-1500:]))
            rc |= 0 if (ok or m.group(1).upper() not in claimed) else 1
    return rc


sys.exit(main())
