"""C07 — conditioned random fields honour the data and never reuse stale kriging results.

stages: theorems props/C07.v ; extraction + driver (cache state machine `trace`, conditioning formula `cond_field`) ;
        corpus histories (the witnesses of the repaired defect) ;
        correspondence on random operation histories (<= 10 ops): branch reuse/recompute, stored names, and the returned
        field against a recomputation from the provenance the MODEL predicts (which conditions / model / mean-trend-
        normalizer / positions / seed the output was computed from) ;
        probes of the property statement on the implementation: every call equals a freshly built object (1e-12),
        honour-the-data for all kriging variants x models x dim 1-3 x seeds x mesh types, far-field limit,
        conditioning formula with nugget (recorded nugget noise), np.allclose window (known finding)."""
import copy
import json
import os

import numpy as np

import common as C

MODE_NO = 48            # modes of the randomization method in histories (cost only; any value works)
NC, NK, NP = 21, 3, 11  # trace row layout: result block, (cnames, knames, haspos), cur_desc + seeds of objects 0..2
OPN = ["Call", "SetPos", "SetCond:NewVals", "SetCond:NewPos", "SetCond:Refresh", "ModelInplace", "SetModel",
       "SetMean", "SetTrend", "SetNorm", "SetGen", "MutatePosInPlace", "DirectKrigeCall", "AssignPos", "ReassignSameModel",
       "MutateCondArrayInPlace", "SetCond:NewErr", "OtherObjects"]
NCOL = 11               # row = [code, haspos, base, jit, mesh, seed+1, nosave, chunk option, store-name set, ext-drift id]


def chunk_size_for(code, npts):
    """per-call chunk_size forwarded to the kriging call: 1, a value not dividing the number of points, more than all points"""
    if code == 1:
        return 1
    if code == 2:
        for c in range(npts - 1, 1, -1):
            if npts % c:
                return c
        return 1
    if code == 3:
        return npts + 3
    return None
NAMESETS = [["field", "raw_field", "raw_krige"], ["upd", "upd_raw", "upd_krige"], ["alt", "alt_raw", "alt_krige"]]
FIELD_CODES_C = {12 * ob + 3 * a + i: (ob, NAMESETS[a][i]) for ob in range(3) for a in range(3) for i in range(3)}
FIELD_CODES_K = {0: "field", 1: "krige_var"}


def dec_names(codes, table):
    return [table[int(c) - 1] for c in codes if int(c) > 0]


def ext_fun(*x, k=1):
    """k external drifts as functions of the position: shape (n,) for k = 1, (k, n) otherwise"""
    x0, xl = np.asarray(x[0], dtype=float), np.asarray(x[-1], dtype=float)
    rows = [0.3 * x0 + 0.1, 0.25 * np.sin(1.3 * x0) + 0.05 * xl + 0.2][:k]
    return rows[0] if k == 1 else np.array(rows)


def trend_fn(a):
    def f(*x):
        return a * x[0]
    f.coef = a
    return f


class World:
    """concrete objects behind the version numbers of the model.  Everything derives from `wseed`, so a history
    (wseed + op rows) can be replayed exactly."""

    def __init__(self, wseed):
        import gstools as gs
        self.gs = gs
        self.wseed = int(wseed)
        self.rng = C.Rng(self.wseed, "C07-world")
        r = self.rng
        self.dim = int(r.integers(1, 4))
        self.unbiased = bool(r.random() < 0.6)
        self.nc = int(r.integers(3, 6))
        self.nc = max(self.nc, self.dim + 3) if r.random() < 0.4 else self.nc
        self.drift = "linear" if self.nc >= self.dim + 3 and r.random() < 0.8 else None   # functional drift (universal kriging)
        # external drifts: none / one / two, WITH or without the functional drift (generic Krige class)
        self.next = int(r.choice([0, 0, 0, 1, 1, 2]))
        self.ext = self.next > 0
        if self.ext:
            self.nc = max(self.nc, self.dim + 3 + self.next)
        self.seed0 = int(r.integers(1, 1000))      # small: seeds are unary naturals in the extracted model
        # position pool: base -> per-axis coordinates in [1, 6] (so that the np.allclose window is >= 1e-5)
        self.bases = []
        for b in range(3):
            n = 2 + int(r.integers(0, 3))
            while True:
                ax = [np.sort(r.uniform(1.0, 6.0, n)) for _ in range(self.dim)]
                if all(len(o[0]) != n or max(np.max(np.abs(o[d] - ax[d])) for d in range(self.dim)) > 0.05 for o in self.bases):
                    break
            self.bases.append(ax)
        # base 3: base 2 shifted by 3e-4 — different positions (5x above the largest np.allclose tolerance 1e-8 + 1e-5*6 here),
        # but close enough that a sloppier comparison would confuse them
        self.bases.append([a + 3e-4 for a in self.bases[2]])
        # version tables (filled while the history runs, keyed by the MODEL's version numbers)
        self.cond = {}
        self.model = {}
        self.mtn = {}
        self.cur_cond = self.new_cond(True)
        self.cur_model = self.new_model()
        self.cur_mtn = dict(mean=None if self.unbiased and r.random() < 0.5 else float(r.normal()), trend=None, normalizer=None)

    def pos(self, base, jit, mesh):
        # base = pool index + 4 * variant, all of the same shape (reachable by editing a passed array in place), clearly different:
        # variant 1: every coordinate row / axis shifted by 0.37; variant 2: ONLY the last row / axis shifted by 0.41 (the other
        # rows / axes are kept: parallel profile lines, a grid with one axis exchanged); variant 3: only the first one shifted
        v, ax = base // 4, [a + jit * 2e-6 for a in self.bases[base % 4]]
        if v == 1:
            ax = [a + 0.37 for a in ax]
        elif v == 2:
            ax[-1] = ax[-1] + 0.41
        elif v == 3:
            ax[0] = ax[0] + 0.43
        return tuple(ax)   # same tuple of axes for both mesh types (unstructured: points (x_i, y_i, z_i))

    def user_pos(self, base, jit, mesh):
        """the object the CALLER passes: float64 ndarrays, which the implementation could alias.  The same object is passed
        again while its content is the requested position (so an in-place edit followed by csrf(pos) re-passes the edited array)"""
        u = getattr(self, "user", None)
        if u is not None and u["content"] == (base, jit) and u["mesh"] == mesh:
            return u["obj"]
        ax = self.pos(base, jit, mesh)
        if not mesh:
            obj = np.array(ax, dtype=np.double)                 # (dim, n) array
        elif self.dim == 1:
            obj = np.array(ax[0], dtype=np.double)              # a single axis
        else:
            obj = tuple(np.array(a, dtype=np.double) for a in ax)
        self.user = dict(obj=obj, content=(base, jit), mesh=mesh)
        return obj

    def mutate_user(self, base):
        """the caller edits the array passed last IN PLACE so that it holds position `base` (same shape)"""
        u = self.user
        ax = self.pos(base, 0, u["mesh"])
        if isinstance(u["obj"], tuple):
            for o, a in zip(u["obj"], ax):
                o[...] = a
        elif u["obj"].ndim == 2:
            u["obj"][...] = np.array(ax)
        else:
            u["obj"][...] = ax[0]
        u["content"] = (base, 0)

    def new_cond(self, new_pos, old=None):
        r = self.rng
        if new_pos or old is None:
            n = self.nc if old is None else int(r.integers(max(3, self.nc - 1), self.nc + 2))
            cp = [r.uniform(1.0, 6.0, n) for _ in range(self.dim)]
        else:
            cp = [a.copy() for a in old[0]]
        cv = r.normal(size=len(cp[0])) * 1.5 + 0.5
        ce = None if old is None else old[2]
        if old is None:
            k = r.random()         # explicit measurement error (exact=False): none ("nugget") / scalar / one value per point
            ce = None if k < 0.55 else (float(r.uniform(0.02, 0.4)) if k < 0.8 else r.uniform(0.02, 0.4, len(cv)))
        elif isinstance(ce, np.ndarray) and len(ce) != len(cv):
            ce = r.uniform(0.02, 0.4, len(cv))
        return (cp, cv, ce)

    def new_err(self, old):
        r = self.rng
        ce = float(r.uniform(0.02, 0.4)) if r.random() < 0.5 else r.uniform(0.02, 0.4, len(old[1]))
        return (old[0], old[1], ce)

    def new_model(self):
        gs, r = self.gs, self.rng
        cls = [gs.Exponential, gs.Gaussian][int(r.integers(2))]   # models with analytic sampling (no MCMC: cost only)
        kw = dict(dim=self.dim, var=float(r.uniform(0.5, 3.0)), len_scale=float(r.uniform(0.4, 2.0)))
        if self.dim > 1 and r.random() < 0.4:
            kw["anis"] = float(r.uniform(0.4, 0.9))
            kw["angles"] = float(r.uniform(0, 1.5))
        return cls(**kw)

    def new_normalizer(self):
        gs, r = self.gs, self.rng
        k = int(r.integers(3))
        if k == 0:
            return gs.normalizer.YeoJohnson(lmbda=float(r.uniform(0.6, 1.6)))
        if k == 1:
            return gs.normalizer.Modulus(lmbda=float(r.uniform(0.6, 1.6)))
        return gs.normalizer.Normalizer()

    def new_trend(self):
        r = self.rng
        if r.random() < 0.5:
            return float(r.normal())
        return trend_fn(float(r.uniform(-0.5, 0.5)))

    def target_ext(self, base, jit, mesh, xd=0):
        """external drift at the target points (flattened in C order for structured meshes); xd selects one of several
        clearly different drift value sets for the same points"""
        if not self.ext:
            return {}
        ax = self.pos(base, jit, mesh)
        if mesh:
            g = np.array(np.meshgrid(*ax, indexing="ij")).reshape(self.dim, -1)
        else:
            g = np.array(ax)
        return dict(ext_drift=np.array(ext_fun(*g, k=self.next) + xd * (0.4 + 0.5 * np.sin(3.0 * g[0])), dtype=np.double))

    def user_cond(self, cond):
        """the float64 arrays the CALLER passes as conditions (kept, so that they can be edited in place later)"""
        self.ucond = dict(pos=np.array(cond[0], dtype=np.double), val=np.array(cond[1], dtype=np.double))
        if isinstance(cond[2], np.ndarray):
            self.ucond["err"] = np.array(cond[2], dtype=np.double)
        if self.ext:
            self.ucond["ext"] = np.array(ext_fun(*cond[0], k=self.next), dtype=np.double)
        return self.ucond

    # ---- builders
    def krige(self, cond, model_mat, mtn, model_rhs=None):
        gs = self.gs
        kr = gs.krige.Krige(copy.deepcopy(model_mat), [a.copy() for a in cond[0]], cond[1].copy(),
                            drift_functions=self.drift, ext_drift=ext_fun(*cond[0], k=self.next) if self.ext else None,
                            mean=mtn["mean"], normalizer=copy.deepcopy(mtn["normalizer"]),
                            trend=mtn["trend"], unbiased=self.unbiased, **cerr_kw(cond))
        if model_rhs is not None:
            # right-hand sides from another model content than the inverted matrix (in-place change without refresh)
            gs.field.base.Field.model.fset(kr, copy.deepcopy(model_rhs))
        return kr

    def fresh_field(self, model, cond, mtn, seed, pos, mesh, ext_kw, mode_no=MODE_NO):
        kr = self.krige(cond, model, mtn)
        c = self.gs.CondSRF(kr, seed=seed, mode_no=mode_no)
        f = c(pos, mesh_type=mesh, **ext_kw)
        return f, dict(raw_krige=c.raw_krige, raw_field=c.raw_field, krige_var=c.krige.krige_var, krige_field=c.krige.field)


def cerr_kw(cond):
    ce = cond[2]
    return {} if ce is None else dict(cond_err=ce.copy() if isinstance(ce, np.ndarray) else ce)


def mesh_name(m):
    return "structured" if m else "unstructured"


def same_model(a, b):
    return type(a) is type(b) and a == b


def mtn_repr(m):
    t = m["trend"]
    return dict(mean=m["mean"], trend=("%g*x" % t.coef) if callable(t) else t, normalizer=repr(m["normalizer"]))


def gen_rows(rng, nops, allow_jit):
    """random history as rows [code, haspos, base, jit, mesh, seed+1, nosave, chunk, name set]; mostly valid, some calls
    before any position"""
    rows = []
    cur = None        # (base, jit, mesh) last passed = content of the caller's array
    # the store-name sets used by this history: mostly the default, often two or three different ones
    nsets = [[0], [0, 1], [0, 1, 2], [1, 2]][int(rng.choice(4, p=[0.45, 0.3, 0.15, 0.1]))]
    # the number of CondSRF objects sharing the one Krige object
    nobj = int(rng.choice([1, 2, 3], p=[0.5, 0.3, 0.2]))

    def new_base():
        """a new position id: a random pool entry, or one that KEEPS some coordinate rows / axes of the present positions"""
        if cur is not None and rng.random() < 0.4:
            b = cur[0] % 4 + 4 * int(rng.choice([2, 3, 0]))
            if b != cur[0]:
                return b
        return int(rng.integers(4)) + 4 * int(rng.choice([0, 0, 0, 2, 3]))

    def call_row(haspos, b=0, j=0, m=0):
        row = [0, haspos, b, j, m, 0, 0, 0, int(nsets[int(rng.integers(len(nsets)))]), int(rng.choice([0, 0, 0, 1, 2])), int(rng.integers(nobj))]
        if rng.random() < 0.5:
            row[5] = 1 + int(rng.integers(1, 2000))
        if rng.random() < 0.12:
            row[6] = 1                                       # raw kriging field not stored
        if rng.random() < 0.4:
            row[7] = int(rng.integers(1, 4))                 # chunk_size: 1 / not dividing / > number of points
        return row
    while len(rows) < nops:
        u = rng.random()
        if cur is not None and u < 0.13:
            v = rng.random()
            if v < 0.4:
                # the caller edits the passed array in place ... and (mostly) passes it again
                b = (cur[0] + 4) % 8
                rows.append([11, 1, b, 0, cur[2]])
                cur = (b, 0, cur[2])
                if rng.random() < 0.7:
                    rows.append(call_row(1, b, 0, cur[2]))
            elif v < 0.75:
                row = [12, 0, 0, 0, 0, 0, 0, 0, 0, int(rng.choice([0, 0, 1]))]
                if rng.random() < 0.75:
                    b, m = new_base(), int(rng.random() < 0.3)
                    if rng.random() < 0.3:
                        b, m = cur[0], cur[2]
                    row[1:5] = [1, b, 0, m]
                    cur = (b, 0, m)
                rows.append(row)
            else:
                b = new_base()
                rows.append([13, 1, b, 0, cur[2]])
                cur = (b, 0, cur[2])
            continue
        u = rng.random()
        if u < 0.38 or (len(rows) == 0 and u < 0.8):
            if cur is None and rng.random() < 0.12:
                rows.append(call_row(0))                     # call without any position: ValueError
            elif cur is None or rng.random() < 0.55:
                if cur is not None and rng.random() < 0.45:
                    b, j, m = cur                            # identical position again
                    if allow_jit and rng.random() < 0.5:
                        j = int(rng.integers(0, 4))
                else:
                    b, j, m = new_base(), 0, int(rng.random() < 0.3)
                    if cur is not None and rng.random() < 0.25:
                        b, m = cur[0], 1 - cur[2]            # same points, other mesh type
                rows.append(call_row(1, b, j, m))
                cur = (b, j, m)
            else:
                rows.append(call_row(0))
        elif u < 0.44:
            b, j, m = new_base(), 0, int(rng.random() < 0.3)
            if cur is not None and rng.random() < 0.3:
                b, j, m = cur
                if allow_jit:
                    j = int(rng.integers(0, 4))
            rows.append([1, 1, b, j, m, 0, 0, 0, 0, 0, int(rng.integers(nobj))])
            cur = (b, j, m)
        elif u < 0.53:
            rows.append([2])
        elif u < 0.58:
            rows.append([3])
        elif u < 0.62:
            rows.append([4])
        elif u < 0.72:
            rows.append([5])                                 # in-place model edit ...
            v = rng.random()
            if v < 0.4:
                rows.append([4])                             # ... followed by the documented refresh
            elif v < 0.75:
                rows.append([14])                            # ... or by re-assigning the same (edited) object
        elif u < 0.78:
            rows.append([6])
        elif u < 0.83:
            rows.append([7])
        elif u < 0.87:
            rows.append([8])
        elif u < 0.91:
            rows.append([9])
        elif u < 0.94:
            rows.append([10, 0, 0, 0, 0, 1 + int(rng.integers(1, 2000)), 0, 0, 0, 0, int(rng.integers(nobj))])
        elif u < 0.955:
            rows.append([14])
        elif u < 0.97:
            rows.append([16])                                # set_condition(cond_err=...)
        elif u < 0.985:
            rows.append([17])                                # other CondSRF / Krige objects are built and called
        else:
            rows.append([15])                                # the caller edits cond_pos / cond_val / ext_drift arrays in place
    return rows


def store_kw(r):
    """store option of a call: default names, a custom name set, and/or the raw kriging field not stored"""
    if r[8] == 0 and not r[6]:
        return {}
    nm = NAMESETS[r[8]] if r[8] else [True, True, True]
    return dict(store=[nm[0], nm[1], False if r[6] else nm[2]])


class HistoryRunner:
    """runs one history on the implementation, on the extracted model, compares, and probes the property"""

    def __init__(self, ctx, drv, tie_broken):
        self.ctx, self.drv, self.tie_broken = ctx, drv, tie_broken

    def run(self, wseed, rows, origin="random"):
        import gstools as gs
        ctx = self.ctx
        w = World(wseed)
        rows = [(list(map(int, r)) + [0] * NCOL)[:NCOL] for r in rows]
        # make the history end with an up-to-date call (the property's "next field")
        dirty = False
        haspos = False
        for r in rows:
            if r[0] == 5:
                dirty = True
            if r[0] in (2, 3, 4, 6, 14, 16):
                dirty = False
            if r[0] in (0, 1, 12, 13) and r[1]:
                haspos = True
        if dirty:
            rows.append([4, 0, 0, 0, 0, 0, 0])
        rows.append([0, 0, 0, 0, 0, 0, 0] if haspos else [0, 1, 0, 0, 0, 0, 0])
        rows = [(r + [0] * NCOL)[:NCOL] for r in rows]
        if not w.ext:
            for r in rows:
                r[9] = 0            # no external drift in this world
        nobj = 1 + max(r[10] for r in rows)
        case = dict(history=dict(wseed=int(wseed), rows=rows), dim=w.dim, ext_drifts=w.next, unbiased=w.unbiased, drift=w.drift,
                    condsrf_objects_on_one_krige=nobj, ops=[OPN[r[0]] for r in rows], origin=origin)
        trace = None
        mrows = [r for r in rows if r[0] != 17]          # "OtherObjects" is not an operation of the model (nothing may change)
        if self.drv is not None:
            trace = self.drv.call("trace", True, True, True, True, True, True, True, True, ("n", w.seed0), np.array(mrows, dtype=np.int64))
            if isinstance(trace, tuple) and trace and trace[0] == "error":
                self.tie_broken.append("model trace failed: %r" % (trace,))
                trace = None
        # ---- the implementation object
        live_model = copy.deepcopy(w.cur_model)
        uc = w.user_cond(w.cur_cond)
        ckw = {} if w.cur_cond[2] is None else dict(cond_err=uc.get("err", w.cur_cond[2]))
        try:
            kr = gs.krige.Krige(live_model, uc["pos"], uc["val"], drift_functions=w.drift, ext_drift=uc.get("ext"),
                                mean=w.cur_mtn["mean"], normalizer=None, trend=None, unbiased=w.unbiased, **ckw)
            # several CondSRF objects share the ONE Krige object (different seeds / mode numbers)
            objs = [gs.CondSRF(kr, seed=w.seed0 + ob, mode_no=MODE_NO + 8 * ob) for ob in range(nobj)]
        except Exception as e:  # noqa
            ctx.violation("probe: history", "building Krige / CondSRF with documented options raised %r" % (e,),
                          dict(case, cond_pos=np.array(w.cur_cond[0]).tolist(), cond_val=np.asarray(w.cur_cond[1]).tolist(), model=repr(live_model)),
                          key="history:exception:construction")
            return case
        csrf = objs[0]
        calls = [0]
        orig = kr._summate

        def counting(*a, **k):
            calls[0] += 1
            return orig(*a, **k)
        kr._summate = counting
        w.cur_mtn = dict(mean=kr.mean, trend=None, normalizer=kr.normalizer)
        w.cond[0], w.model[0], w.mtn[0] = w.cur_cond, copy.deepcopy(live_model), dict(w.cur_mtn)
        cur_seed = [w.seed0 + ob for ob in range(3)]
        cur_pos = None          # (base, jit, mesh)
        recs, ti = [], 0
        dirty = False
        jittered = False
        cur_xd = 0              # id of the external drift values last given for the target points
        last_change = "none"
        kv_pos = None           # the positions Krige's stored fields were computed on (csrf.pos = ... does not delete them)
        for i, r in enumerate(rows):
            code = r[0]
            kind, out, reuse = 0, None, None
            csrf = objs[r[10]]
            try:
                if code == 17:
                    self.other_objects(w)
                elif code == 0:
                    calls[0] = 0
                    sd = np.nan if r[5] == 0 else r[5] - 1
                    if r[5]:
                        cur_seed[r[10]] = r[5] - 1
                    kind = 2
                    if r[1]:
                        if cur_pos is not None and cur_pos[0] == r[2] and cur_pos[2] == r[4] and cur_pos[1] != r[3]:
                            jittered = True
                        cur_pos = (r[2], r[3], r[4])
                        kw = store_kw(r)
                        if r[7]:
                            n1 = len(w.bases[r[2] % 4][0])
                            kw["chunk_size"] = chunk_size_for(r[7], n1 ** w.dim if r[4] else n1)
                        kw.update(w.target_ext(r[2], r[3], r[4], r[9]))
                        cur_xd = r[9]
                        out = csrf(w.user_pos(r[2], r[3], r[4]), seed=sd, mesh_type=mesh_name(r[4]), **kw)
                    else:
                        kw = store_kw(r)
                        if cur_pos is not None:
                            if r[7]:
                                n1 = len(w.bases[cur_pos[0] % 4][0])
                                kw["chunk_size"] = chunk_size_for(r[7], n1 ** w.dim if cur_pos[2] else n1)
                            kw.update(w.target_ext(*cur_pos, r[9]))
                            if cur_xd != r[9]:
                                last_change = "Call:other-ext_drift"
                            cur_xd = r[9]
                        out = csrf(seed=sd, **kw)
                    if r[6]:
                        last_change = "Call:store-raw_krige=False"
                    elif r[8]:
                        last_change = "Call:custom-store-names"
                    out = np.array(out, copy=True)
                    reuse = calls[0] == 0
                    if not reuse:
                        kv_pos = (cur_pos, cur_xd)
                elif code == 1:
                    if cur_pos is not None and cur_pos[0] == r[2] and cur_pos[2] == r[4] and cur_pos[1] != r[3]:
                        jittered = True
                    cur_pos = (r[2], r[3], r[4])
                    csrf.set_pos(w.user_pos(r[2], r[3], r[4]), mesh_name(r[4]))
                    cur_xd = r[9]
                elif code == 2:
                    w.cur_cond = w.new_cond(False, w.cur_cond)
                    w.ucond["val"] = np.array(w.cur_cond[1], dtype=np.double)      # a new array of the caller
                    csrf.krige.set_condition(cond_val=w.ucond["val"])
                    dirty, last_change = False, OPN[code]
                elif code == 3:
                    w.cur_cond = w.new_cond(True, w.cur_cond)
                    uc = w.user_cond(w.cur_cond)
                    # a scalar measurement error is NOT repeated (it must persist); a per-point one is given for the new points
                    ckw = dict(cond_err=uc["err"]) if "err" in uc else {}
                    csrf.krige.set_condition(uc["pos"], uc["val"], ext_drift=uc.get("ext"), **ckw)
                    dirty, last_change = False, OPN[code]
                elif code == 4:
                    csrf.krige.set_condition()
                    dirty = False
                elif code == 5:
                    ek = w.rng.random()
                    if ek < 0.45 or (w.dim == 1 and ek < 0.75):
                        csrf.model.len_scale = csrf.model.len_scale * (1.7 if w.rng.random() < 0.5 else 0.6)
                    elif ek < 0.75:
                        if w.rng.random() < 0.5:
                            csrf.model.anis = [min(0.95, max(0.2, a * (0.6 if a > 0.5 else 1.6))) for a in np.atleast_1d(csrf.model.anis)]
                        else:
                            csrf.model.angles = np.atleast_1d(csrf.model.angles) + 0.6
                    else:
                        csrf.model.var = csrf.model.var * 1.5
                    dirty, last_change = True, OPN[code]
                elif code == 6:
                    csrf.model = w.new_model()
                    dirty, last_change = False, OPN[code]
                elif code == 7:
                    w.cur_mtn = dict(w.cur_mtn, mean=float(w.rng.normal() * 2))
                    csrf.mean = w.cur_mtn["mean"]
                    last_change = OPN[code]
                elif code == 8:
                    w.cur_mtn = dict(w.cur_mtn, trend=w.new_trend())
                    csrf.trend = w.cur_mtn["trend"]
                    last_change = OPN[code]
                elif code == 9:
                    csrf.normalizer = w.new_normalizer()
                    w.cur_mtn = dict(w.cur_mtn, normalizer=csrf.normalizer)
                    last_change = OPN[code]
                elif code == 10:
                    cur_seed[r[10]] = r[5] - 1
                    csrf.set_generator("RandMeth", seed=cur_seed[r[10]], mode_no=MODE_NO + 8 * r[10])
                elif code == 11:
                    # the stored positions must not follow the caller's edit (cur_pos unchanged)
                    w.mutate_user(r[2])
                    last_change = OPN[code]
                elif code == 12:
                    last_change = OPN[code]
                    if r[1]:
                        if cur_pos is not None and cur_pos[0] == r[2] and cur_pos[2] == r[4] and cur_pos[1] != r[3]:
                            jittered = True
                        new_pos = (r[2], r[3], r[4])
                        arg = w.user_pos(r[2], r[3], r[4])
                        cur_pos = new_pos
                        cur_xd = r[9]
                        csrf.krige(arg, mesh_type=mesh_name(r[4]), **w.target_ext(r[2], r[3], r[4], r[9]))
                    else:
                        csrf.krige(**(w.target_ext(*cur_pos, cur_xd) if cur_pos is not None else {}))
                    kv_pos = (cur_pos, cur_xd)
                elif code == 13:
                    last_change = OPN[code]
                    m = cur_pos[2] if cur_pos is not None else 0
                    if cur_pos is not None and cur_pos[0] == r[2] and cur_pos[1] != r[3]:
                        jittered = True
                    csrf.pos = w.user_pos(r[2], r[3], m)
                    cur_pos = (r[2], r[3], m)
                    cur_xd = r[9]
                elif code == 16:
                    w.cur_cond = w.new_err(w.cur_cond)
                    if isinstance(w.cur_cond[2], np.ndarray):
                        w.ucond["err"] = np.array(w.cur_cond[2], dtype=np.double)
                        csrf.krige.set_condition(cond_err=w.ucond["err"])
                    else:
                        w.ucond.pop("err", None)
                        csrf.krige.set_condition(cond_err=w.cur_cond[2])
                    dirty, last_change = False, OPN[code]
                elif code == 14:
                    csrf.model = csrf.model         # the same (possibly edited) object
                    dirty, last_change = False, OPN[code]
                elif code == 15:
                    # the caller edits arrays passed earlier as conditions; the conditions of the object must not follow
                    which = [k for k in ("val", "pos", "ext", "err") if k in w.ucond]
                    which = which[int(w.rng.integers(len(which)))]
                    w.ucond[which] += 0.7
                    last_change = OPN[code] + ":" + which
            except ValueError as e:
                if code in (0, 12) and cur_pos is None and "no position tuple" in str(e):
                    kind = 1
                else:
                    ctx.violation("probe: history", "unexpected %s in op %d (%s): %s" % (type(e).__name__, i, OPN[code], e),
                                  dict(case, failed_op=i), key="history:exception:" + OPN[code])
                    return
            except Exception as e:  # noqa
                ctx.violation("probe: history", "unexpected %s in op %d (%s): %s" % (type(e).__name__, i, OPN[code], e),
                              dict(case, failed_op=i), key="history:exception:" + OPN[code])
                return
            # ---- RECORD only: no reference object is built before the whole history has run (another CondSRF created or
            # called in between could mask or cause cross-object effects)
            recs.append(dict(i=i, r=r, code=code, kind=kind, out=out, reuse=reuse, ti=(None if code == 17 else ti),
                             model_now=copy.deepcopy(kr.model), cur_cond=w.cur_cond,
                             cur_mtn=dict(w.cur_mtn, normalizer=copy.deepcopy(w.cur_mtn["normalizer"])), seeds=list(cur_seed),
                             cur_pos=cur_pos, cur_xd=cur_xd, dirty=dirty, kv_here=(kv_pos == (cur_pos, cur_xd)), jittered=jittered,
                             last_change=last_change, snap=self.snapshot(objs, kr, r, kind)))
            if code != 17:
                ti += 1
        # ---- closing step (outside the model trace): a call AT the present conditioning points
        closing = None
        try:
            cp = np.array(w.cur_cond[0])
            ekw = dict(ext_drift=ext_fun(*cp, k=w.next)) if w.ext else {}
            condK = kmat_cond(kr)
            cout = np.array(objs[0](cp.copy(), **ekw), copy=True)
            closing = dict(out=cout, kvar=np.array(kr.krige_var, copy=True), raw=np.array(objs[0].raw_field, copy=True), condK=condK,
                           model=copy.deepcopy(kr.model), seed=cur_seed[0], cur_cond=w.cur_cond,
                           cur_mtn=dict(w.cur_mtn, normalizer=copy.deepcopy(w.cur_mtn["normalizer"])), ekw=ekw)
        except Exception as e:  # noqa
            ctx.violation("probe: history", "exception in the closing call at the conditioning points: %r" % (e,), case, key="history:exception:closing")
            return case
        return self.verify(w, wseed, recs, trace, case, closing)

    @staticmethod
    def snapshot(objs, kr, r, kind):
        """copies of everything that is compared later"""
        def cp(a):
            return None if a is None else np.array(a, copy=True)
        sn = dict(cnames=[list(c.field_names) for c in objs], knames=list(kr.field_names), haspos=kr.pos is not None,
                  cond_val=cp(kr.cond_val), cond_pos=cp(kr.cond_pos), cond_ext=cp(kr.cond_ext_drift), cond_err=cp(kr.cond_err),
                  kmat=cp(kr._krige_mat), kpos=cp(kr._krige_pos), kcond=cp(kr._krige_cond),
                  krige_var=cp(kr.krige_var) if "krige_var" in kr.field_names else None,
                  krige_field=cp(kr.field) if "field" in kr.field_names else None)
        if kind == 2:
            c, nm = objs[r[10]], NAMESETS[r[8]]
            sn["stored"] = dict(raw_field=cp(c[nm[1]]), krige_var=cp(kr.krige_var), krige_field=cp(kr.field))
            if not r[6]:        # a call that does not store the raw kriging field leaves a previously stored one alone
                sn["stored"]["raw_krige"] = cp(c[nm[2]])
        return sn

    def other_objects(self, w):
        """interference: other CondSRF objects on ANOTHER Krige object are built and called (must not influence anything)"""
        gs = w.gs
        if getattr(w, "other", None) is None:
            okr = gs.krige.Ordinary(gs.Gaussian(dim=w.dim, var=0.7, len_scale=1.1), w.rng.uniform(1, 6, size=(w.dim, 4)), w.rng.normal(size=4))
            w.other = [gs.CondSRF(okr, seed=3, mode_no=16), gs.CondSRF(okr, seed=4, mode_no=24)]
        p = w.rng.uniform(1, 6, size=(w.dim, 3))
        w.other[0](p)
        w.other[1]()
        w.other[0].krige.set_condition(cond_val=w.rng.normal(size=4))
        w.other[1]()
        gs.CondSRF(gs.krige.Simple(gs.Exponential(dim=w.dim), w.rng.uniform(1, 6, size=(w.dim, 3)), w.rng.normal(size=3)), seed=1, mode_no=16)(p)

    def verify(self, w, wseed, recs, trace, case, closing):
        try:
            return self._verify(w, wseed, recs, trace, case, closing)
        except Exception as e:  # noqa
            import traceback
            self.ctx.violation("probe: history", "a reference object built from the present settings of the history raised %r" % (e,),
                               dict(case, traceback=traceback.format_exc()[-1500:]), key="history:exception:reference")
            return case

    def _verify(self, w, wseed, recs, trace, case, closing):
        ctx = self.ctx
        for rec in recs:
            i, r, code, kind, out, reuse = rec["i"], rec["r"], rec["code"], rec["kind"], rec["out"], rec["reuse"]
            model_now, cur_pos, cur_xd, dirty, jittered, last_change = (rec[k] for k in ("model_now", "cur_pos", "cur_xd", "dirty", "jittered", "last_change"))
            w.cur_cond, w.cur_mtn = rec["cur_cond"], rec["cur_mtn"]
            sn, ob = rec["snap"], r[10]
            cur_seed = rec["seeds"][ob]
            # ---- correspondence with the model trace
            if trace is not None and rec["ti"] is not None:
                row = [int(x) for x in trace[rec["ti"]]]
                res, st = row[:NC], row[NC:]
                ncn, nkn = st[:27], st[27:29]
                st = [0, 0] + st[29:]          # [_, _, haspos, cur_desc (8), seeds (3)]
                cd = dict(pos=(st[3], st[4]), ext=st[5], mesh=st[6], cond=st[7], matmodel=st[8], model=st[9], mtn=st[10], seeds=st[11:14])
                # bind the model's new version numbers to the concrete contents installed by this operation
                w.cond.setdefault(cd["cond"], w.cur_cond)
                w.model.setdefault(cd["model"], model_now)
                w.mtn.setdefault(cd["mtn"], dict(w.cur_mtn))
                mnames = dec_names(ncn, FIELD_CODES_C)
                obs = dict(kind=kind, cnames=sn["cnames"], knames=sn["knames"], haspos=sn["haspos"], seeds=rec["seeds"][:len(sn["cnames"])])
                exp = dict(kind=res[0], cnames=[[n for (o, n) in mnames if o == k] for k in range(len(sn["cnames"]))],
                           knames=dec_names(nkn, FIELD_CODES_K), haspos=bool(st[2]), seeds=cd["seeds"][:len(sn["cnames"])])
                if kind == 2:
                    obs["reuse"] = bool(reuse)
                    exp["reuse"] = bool(res[1])
                if obs != exp:
                    self.tie_broken.append("op %d (%s) of history wseed=%d: implementation %r, model %r" % (i, OPN[code], wseed, obs, exp))
                    case["tie_mismatch"] = dict(op=i, observed=obs, model=exp)
                    trace = None        # keep checking the history: the property probe looks for a failing input
                # settings the model believes are current must be the harness' current contents
                elif not (same_model(w.model[cd["model"]], model_now) and w.cond[cd["cond"]] is w.cur_cond
                          and mtn_repr(w.mtn[cd["mtn"]]) == mtn_repr(w.cur_mtn)):
                    self.tie_broken.append("op %d (%s) wseed=%d: model version numbers do not follow the installed settings" % (i, OPN[code], wseed))
                    trace = None
                elif kind == 2 and res[0] == 2:
                    k = dict(pos=(res[2], res[3]), ext=res[4], mesh=res[5], cond=res[6], matmodel=res[7], model=res[8], mtn=res[9])
                    v = dict(pos=(res[10], res[11]), ext=res[12], mesh=res[13], cond=res[14], matmodel=res[15], model=res[16], mtn=res[17])
                    gmodel, gseed, post = res[18], res[19], res[20]
                    try:
                        expf = self.expected(w, k, v, gmodel, gseed, post, cur_pos, MODE_NO + 8 * ob)
                    except Exception as e:  # noqa
                        self.tie_broken.append("recomputation from the model's provenance failed: %r" % (e,))
                        expf = None
                        trace = None
                    sc = max(1.0, float(np.max(np.abs(expf)))) if expf is not None else 1.0
                    if expf is not None and (expf.shape != out.shape or not np.all(np.abs(expf - out) <= 1e-11 * sc)):
                        self.tie_broken.append("op %d of history wseed=%d: returned field is not the one computed from the provenance the model predicts "
                                               "(max diff %.3g)" % (i, wseed, float(np.max(np.abs(expf - out))) if expf.shape == out.shape else np.nan))
                        case["tie_mismatch"] = dict(op=i, provenance=dict(k=k, v=v, gmodel=gmodel, seed=gseed, post=post))
                        # fall through to the property probe below: it decides whether this is a counter-example
            # ---- after EVERY step: the kriging setup of the object equals that of a fresh Krige built from the present values
            bad = self.check_setup(w, sn, model_now, dirty, cur_pos if rec["kv_here"] else None, cur_xd)
            if bad:
                ctx.violation("probe: kriging setup after a history vs freshly built Krige",
                              "after op %d (%s) %s differ(s) from a Krige freshly built from the present model / conditions / mean-trend-normalizer"
                              % (i, OPN[code], ", ".join(bad)), dict(case, failed_op=i, differing=bad, model=repr(model_now), mtn=mtn_repr(w.cur_mtn)),
                              key="history:setup-stale-after:" + (last_change if code not in (0, 1, 10) else OPN[code]))
                return case
            # ---- property probe: a freshly built object returns the identical field
            if kind == 2 and not dirty:
                b, j, m = cur_pos
                fresh, fstored = w.fresh_field(model_now, w.cur_cond, w.cur_mtn, cur_seed, w.pos(b, j, m), mesh_name(m), w.target_ext(b, j, m, cur_xd),
                                               MODE_NO + 8 * ob)
                sc = max(1.0, float(np.max(np.abs(fresh))))
                ctx.count(None)
                stored = sn["stored"]
                bad_stored = [n for n in stored if np.shape(stored[n]) != np.shape(fstored[n]) or
                              not np.all(np.abs(np.asarray(stored[n]) - fstored[n]) <= 1e-12 * max(1.0, float(np.max(np.abs(fstored[n])))))]
                if fresh.shape != out.shape or not np.all(np.abs(fresh - out) <= 1e-12 * sc) or bad_stored:
                    diff = float(np.max(np.abs(fresh - out))) if fresh.shape == out.shape else float("nan")
                    case["stale_stored_fields"] = bad_stored
                    if jittered:
                        key = "pos-window:np.allclose"
                    else:
                        key = "history:stale-after:" + last_change
                    ctx.violation("probe: call after a history vs freshly built object",
                                  "field returned after op %d (%s of CondSRF object %d, reuse=%s) differs from the field of a freshly built object "
                                  "(max abs diff %.3g; stored fields that differ: %s; last change: %s)" % (i, OPN[code], ob, reuse, diff, bad_stored, last_change),
                                  dict(case, failed_op=i, max_abs_diff=diff, model=repr(model_now), mtn=mtn_repr(w.cur_mtn),
                                       got=[C.fhex(x) for x in out.ravel()[:40]], fresh=[C.fhex(x) for x in fresh.ravel()[:40]]), key=key)
                    return case
        return self.exactness(w, closing, case)

    def check_setup(self, w, sn, model_now, dirty, cur_pos, cur_xd=0):
        bad = []

        def differ(a, b):
            a, b = np.asarray(a, dtype=float), np.asarray(b, dtype=float)
            return a.shape != b.shape or not np.all(np.abs(a - b) <= 1e-12 * max(1.0, float(np.max(np.abs(b))) if b.size else 1.0))
        if differ(sn["cond_val"], w.cur_cond[1]):
            bad.append("cond_val")
        if differ(sn["cond_pos"], np.array(w.cur_cond[0])):
            bad.append("cond_pos")
        if w.ext and differ(sn["cond_ext"], np.atleast_2d(ext_fun(*w.cur_cond[0], k=w.next))):
            bad.append("cond_ext_drift")
        if differ(sn["cond_err"], float(model_now.nugget) if w.cur_cond[2] is None else w.cur_cond[2]):
            bad.append("cond_err")
        if dirty or bad:
            return bad
        fk = w.krige(w.cur_cond, model_now, w.cur_mtn)
        if differ(sn["kmat"], fk._krige_mat):
            bad.append("inverted kriging matrix")
        if differ(sn["kpos"], fk._krige_pos):
            bad.append("isometrized conditioning positions")
        if differ(sn["kcond"], fk._krige_cond):
            bad.append("prepared conditioning values")
        if not bad and cur_pos is not None and sn["krige_var"] is not None and sn["krige_field"] is not None:
            b, j, m = cur_pos
            f, v = fk(w.pos(b, j, m), mesh_type=mesh_name(m), store=False, **w.target_ext(b, j, m, cur_xd))
            if differ(sn["krige_var"], v):
                bad.append("stored krige_var")
            if differ(sn["krige_field"], f):
                bad.append("stored kriging field")
        return bad

    def exactness(self, w, cl, case):
        ctx = self.ctx
        eps = np.finfo(float).eps
        w.cur_cond, w.cur_mtn = cl["cur_cond"], cl["cur_mtn"]
        cp, cv = np.array(w.cur_cond[0]), np.asarray(w.cur_cond[1])
        out, kvar, raw, condK = cl["out"], cl["kvar"], cl["raw"], cl["condK"]
        try:
            fresh, _ = w.fresh_field(cl["model"], w.cur_cond, w.cur_mtn, cl["seed"], cp.copy(), "unstructured", cl["ekw"])
        except Exception as e:  # noqa
            ctx.violation("probe: history", "exception in the fresh reference of the closing call: %r" % (e,), case, key="history:exception:closing")
            return case
        ctx.count(None)
        if fresh.shape != out.shape or not np.all(np.abs(fresh - out) <= 1e-12 * max(1.0, float(np.max(np.abs(fresh))))):
            ctx.violation("probe: call after a history vs freshly built object", "closing call at the conditioning points differs from a fresh object by %.3g"
                          % (float(np.max(np.abs(fresh - out))) if fresh.shape == out.shape else np.nan), case, key="history:stale-at-closing-call")
            return case
        if condK < 1e8 and w.cur_cond[2] is None:        # zero measurement error: the data are honoured exactly
            var = float(cl["model"].var)
            scale = 1.0 + float(np.max(np.abs(cv)))
            # deviation allowed in the normalized space (solver accuracy + sqrt of the remaining variance), mapped through the
            # denormalisation with a generous factor (its slope is bounded by (1+|y|)^2 for the normalizers used)
            tol = (1e3 * eps * condK * scale + np.sqrt(np.maximum(kvar, 0) / var) * np.abs(raw) * (1 + 1e-9)) * 20 * (1 + np.abs(cv)) ** 2 + 1e-9 * scale
            if not np.all(np.abs(out - cv) <= tol):
                i = int(np.argmax(np.abs(out - cv) - tol))
                ctx.violation("probe: honour the data after a history", "after the history the field at conditioning point %d is %r, datum %r (allowed deviation %.3g)"
                              % (i, float(out[i]), float(cv[i]), float(tol[i])), dict(case, kriging_matrix_cond=condK), key="history:data-not-honoured")
                return case
        return None

    def expected(self, w, k, v, gmodel, gseed, post, cur_pos, mode_no=MODE_NO):
        """the field computed independently from the provenance the model predicts"""
        gs = w.gs

        def raw_krige(d):
            mm, mr = w.model[d["matmodel"]], w.model[d["model"]]
            kr = w.krige(w.cond[d["cond"]], mm, w.mtn[d["mtn"]], None if d["matmodel"] == d["model"] else mr)
            return kr(w.pos(d["pos"][0], d["pos"][1], d["mesh"]), mesh_type=mesh_name(d["mesh"]), post_process=False, store=False,
                      **w.target_ext(d["pos"][0], d["pos"][1], d["mesh"], d["ext"]))
        rk, kv = raw_krige(k)
        if v != k:
            _, kv = raw_krige(v)
        b, j, m = cur_pos
        pos = w.pos(b, j, m)
        mod = w.model[gmodel]
        raw = gs.SRF(copy.deepcopy(mod), seed=gseed, mode_no=mode_no)(pos, mesh_type=mesh_name(m), store=False)
        shape = raw.shape
        rc = self.drv.call("cond_field", float(mod.nugget), float(mod.var), np.ravel(rk), np.ravel(kv), np.ravel(raw), np.zeros(raw.size))
        mt = w.mtn[post]
        fld = gs.field.Field(copy.deepcopy(mod), mean=mt["mean"], normalizer=copy.deepcopy(mt["normalizer"]), trend=mt["trend"])
        return np.array(fld(pos, field=np.reshape(rc, shape), mesh_type=mesh_name(m), store=False), copy=True)


# ------------------------------------------------------------------------------------------------ other probes
def kmat_cond(kr):
    """condition number of the kriging matrix (rebuilt as in Krige._get_krige_mat, before inversion)"""
    inv = kr._inv
    got = {}
    try:
        kr._inv = lambda mat: got.setdefault("K", mat.copy())
        kr._get_krige_mat()
    finally:
        del kr._inv
    return float(np.linalg.cond(got["K"]))


def honour_probe(ctx, rng, drv, reps):
    import gstools as gs
    eps = np.finfo(float).eps
    # the five kriging classes + the generic Krige class with functional AND external drifts (1 and 2), unbiased on / off
    variants = ["Simple", "Ordinary", "Universal", "ExtDrift", "Detrended", "Krige:lin+ext1:unb", "Krige:lin+ext1", "Krige:lin+ext2:unb", "Krige:lin+ext2"]
    models = [gs.Exponential, gs.Gaussian, gs.Spherical, gs.Stable, gs.Matern]
    for rep in range(reps):
        # every cell variant x dim x {no nugget, nugget with exact=True} is enumerated (not drawn)
        for variant, dim, nug in [(v, d, g) for v in variants for d in (1, 2, 3) for g in (0.0, 0.2)]:
            if True:
                mcls = models[int(rng.integers(len(models)))]
                mesh = int(rng.random() < 0.35)
                # conditioning points on grid nodes with spacing >= 1 (well separated w.r.t. the length scale)
                axes = [np.sort(rng.choice(np.arange(1.0, 7.0), size=3 if dim > 1 else 5, replace=False)) for _ in range(dim)]
                grid = np.array(np.meshgrid(*axes, indexing="ij")).reshape(dim, -1)
                nc = int(rng.integers(3, min(6, grid.shape[1]) + 1))
                if variant == "Universal":
                    nc = max(nc, dim + 3)       # enough data for the linear drift
                if variant.startswith("Krige:"):
                    nc = min(grid.shape[1], dim + 5)
                sel = rng.choice(grid.shape[1], size=nc, replace=False)
                cp = grid[:, sel]
                cv = rng.normal(size=nc) * 2
                model = mcls(dim=dim, var=float(rng.uniform(0.5, 2.0)), len_scale=float(rng.uniform(0.5, 1.2)), nugget=nug)
                kw = dict(exact=True) if nug > 0 else {}
                call_kw = {}
                ed_fun = lambda *x: 0.3 * x[0] + 0.1        # noqa: E731  external drift as a function of position
                try:
                    kr = None
                    if variant.startswith("Krige:"):
                        nxt = 2 if "ext2" in variant else 1
                        ed_fun = lambda *x: ext_fun(*x, k=nxt)        # noqa: E731
                        kr = gs.krige.Krige(model, cp, cv, drift_functions="linear", ext_drift=ed_fun(*cp), unbiased=variant.endswith(":unb"), **kw)
                except Exception as e:  # noqa
                    ctx.violation("probe: honour the data", "building %s raised %r" % (variant, e),
                                  dict(probe="honour-data", variant=variant, dim=dim, model=repr(model), cond_pos=cp.tolist(), cond_val=cv.tolist()),
                                  key="honour:exception:" + variant)
                    continue
                if kr is not None:
                    pass
                elif variant == "Simple":
                    kr = gs.krige.Simple(model, cp, cv, mean=float(rng.normal()), **kw)
                elif variant == "Ordinary":
                    kr = gs.krige.Ordinary(model, cp, cv, **kw)
                elif variant == "Universal":
                    kr = gs.krige.Universal(model, cp, cv, "linear", **kw)
                elif variant == "ExtDrift":
                    kr = gs.krige.ExtDrift(model, cp, cv, ed_fun(*cp), **kw)
                else:
                    kr = gs.krige.Detrended(model, cp, cv, trend_fn(0.4), **kw)
                if mesh:
                    pos = tuple(axes)
                    tgt = np.array(np.meshgrid(*axes, indexing="ij"))
                    at = [tuple(int(np.where(axes[d] == cp[d, i])[0][0]) for d in range(dim)) for i in range(nc)]
                else:
                    extra = rng.uniform(0.5, 7.5, size=(dim, 6))
                    perm = rng.permutation(nc + 6)          # conditioning points spread over the target list (and over chunks)
                    pos = np.hstack([cp, extra])[:, perm]
                    tgt = pos
                    at = [(int(np.where(perm == i)[0][0]),) for i in range(nc)]
                npts = int(np.prod(tgt.shape[1:]))
                if variant == "ExtDrift" or variant.startswith("Krige:"):
                    call_kw["ext_drift"] = ed_fun(*tgt.reshape(dim, -1))
                try:
                    condK = kmat_cond(kr)
                except Exception:  # noqa
                    condK = float("inf")
                key = ("honour", variant, dim, mcls.__name__, nug > 0, mesh)
                if not condK < 1e9:
                    ctx.count(None, hist=dict(probe="honour-data:skipped (kriging matrix numerically singular)"))
                    continue
                chunk_codes = [int(c) for c in rng.permutation(4)]
                for si, seed in enumerate([int(s) for s in rng.integers(1, 10 ** 6, size=3)]):
                    ccode = chunk_codes[si]
                    chunk = chunk_size_for(ccode, npts)
                    ckw = dict(call_kw, chunk_size=chunk) if chunk is not None else dict(call_kw)
                    ctx.count(key + (ccode,), hist=dict(probe="honour-data", variant=variant, dim=dim, model=mcls.__name__, nugget=nug > 0,
                                                        mesh=mesh_name(mesh), chunk_size=["none", "1", "not dividing", "> n"][ccode]))
                    case = dict(probe="honour-data", variant=variant, dim=dim, model=repr(model), mesh=mesh_name(mesh), seed=seed,
                                cond_pos=cp.tolist(), cond_val=cv.tolist(), kriging_matrix_cond=condK, chunk_size=chunk, n_points=npts,
                                pos=[np.asarray(a).tolist() for a in pos] if mesh else np.asarray(pos).tolist())
                    try:
                        kr.delete_fields()
                        csrf = gs.CondSRF(kr, seed=seed, mode_no=64)
                        fld = np.array(csrf(pos, seed=seed, mesh_type=mesh_name(mesh), **ckw), copy=True)
                        kvar = np.array(csrf.krige.krige_var, copy=True)
                        raw = np.array(csrf.raw_field, copy=True)
                        if chunk is not None:
                            # the same call without chunking (nugget noise: same seed, same stream position)
                            kr.delete_fields()
                            ref = gs.CondSRF(kr, seed=seed, mode_no=64)(pos, seed=seed, mesh_type=mesh_name(mesh), **call_kw)
                            if not np.all(np.abs(ref - fld) <= 1e-12 * (1 + np.abs(ref))):
                                ctx.violation("probe: chunk_size", "CondSRF(..., chunk_size=%d) differs from the unchunked call by %.3g (%d target points)"
                                              % (chunk, float(np.max(np.abs(ref - fld))), npts), case, key="chunk:%s" % variant)
                                continue
                    except Exception as e:  # noqa
                        ctx.violation("probe: honour the data", "exception %r" % (e,), case, key="honour:exception:" + variant)
                        continue
                    # solver accuracy: the kriging part is exact up to cond(K)*eps; the random part is scaled by
                    # sqrt(krige_var/var), and krige_var = max(sill - k.Kinv.k, 0) is zero up to cond(K)*eps*sill
                    sill = model.sill
                    scale = 1.0 + float(np.max(np.abs(cv)))
                    tol_var = 1e3 * eps * condK * sill
                    for i, ix in enumerate(at):
                        kv_i = float(kvar[ix])
                        dev = abs(float(fld[ix]) - cv[i])
                        tol = 1e3 * eps * condK * scale + np.sqrt(max(kv_i, 0.0) / model.var) * abs(float(raw[ix])) * (1 + 1e-9) + \
                            (np.sqrt(min(max(kv_i, 0.0), nug) / nug) * 6 * np.sqrt(nug) if nug > 0 else 0.0)
                        if not (kv_i <= tol_var and dev <= tol and np.isfinite(float(fld[ix]))):
                            ctx.violation("probe: honour the data",
                                          "conditioned field at conditioning point %d is %r, datum %r (kriging variance there %.3g, allowed %.3g; deviation %.3g, allowed %.3g)"
                                          % (i, float(fld[ix]), float(cv[i]), kv_i, tol_var, dev, tol), dict(case, point=i),
                                          key="honour:%s:%s" % (variant, mcls.__name__))
                            break


def honour_geo_probe(ctx, rng, reps):
    """honour the data on geographic (lat-lon, Yadrenko) and spatio-temporal models"""
    import gstools as gs
    eps = np.finfo(float).eps
    for rep in range(reps):
        for geo in ("latlon", "temporal", "latlon+temporal"):
            mcls = [gs.Exponential, gs.Spherical, gs.Gaussian][int(rng.integers(3))]
            nc = int(rng.integers(3, 6))
            cv = rng.normal(size=nc) * 2
            if geo == "latlon":
                model = mcls(latlon=True, var=float(rng.uniform(0.5, 2)), len_scale=float(rng.uniform(300, 1500)), geo_scale=gs.KM_SCALE)
                cp = np.vstack([rng.uniform(-70, 70, nc), rng.uniform(-170, 170, nc)])
                extra = np.vstack([rng.uniform(-80, 80, 5), rng.uniform(-180, 180, 5)])
            elif geo == "temporal":
                model = mcls(temporal=True, spatial_dim=2, var=float(rng.uniform(0.5, 2)), len_scale=float(rng.uniform(0.5, 1.2)),
                             anis=[float(rng.uniform(0.5, 1)), float(rng.uniform(0.3, 1))])
                cp = rng.uniform(1, 6, size=(3, nc))
                extra = rng.uniform(0, 7, size=(3, 5))
            else:
                model = mcls(latlon=True, temporal=True, var=float(rng.uniform(0.5, 2)), len_scale=float(rng.uniform(300, 1500)),
                             geo_scale=gs.KM_SCALE, anis=float(rng.uniform(50, 500)))
                cp = np.vstack([rng.uniform(-70, 70, nc), rng.uniform(-170, 170, nc), rng.uniform(0, 5, nc)])
                extra = np.vstack([rng.uniform(-80, 80, 5), rng.uniform(-180, 180, 5), rng.uniform(0, 5, 5)])
            variant = "Simple" if rng.random() < 0.5 else "Ordinary"
            kr = gs.krige.Simple(model, cp, cv, mean=float(rng.normal())) if variant == "Simple" else gs.krige.Ordinary(model, cp, cv)
            try:
                condK = kmat_cond(kr)
            except Exception:  # noqa
                condK = float("inf")
            if not condK < 1e9:
                ctx.count(None, hist=dict(probe="honour-data:skipped (kriging matrix numerically singular)"))
                continue
            pos = np.hstack([cp, extra])
            seed = int(rng.integers(1, 10 ** 6))
            case = dict(probe="honour-data-geo", geo=geo, variant=variant, model=repr(model), seed=seed, cond_pos=cp.tolist(),
                        cond_val=cv.tolist(), kriging_matrix_cond=condK)
            ctx.count(("honour-geo", geo, variant, mcls.__name__), hist=dict(probe="honour-data-geo", geo=geo, variant=variant))
            try:
                csrf = gs.CondSRF(kr, seed=seed, mode_no=64)
                fld = csrf(pos)
                kvar, raw = np.asarray(csrf.krige.krige_var), np.asarray(csrf.raw_field)
            except Exception as e:  # noqa
                ctx.violation("probe: honour the data (geo)", "exception %r" % (e,), case, key="honour-geo:exception:" + geo)
                continue
            scale = 1.0 + float(np.max(np.abs(cv)))
            for i in range(nc):
                kv_i = float(kvar[i])
                dev = abs(float(fld[i]) - cv[i])
                tol = 1e3 * eps * condK * scale + np.sqrt(max(kv_i, 0.0) / model.var) * abs(float(raw[i])) * (1 + 1e-9)
                if not (kv_i <= 1e3 * eps * condK * model.sill and dev <= tol):
                    ctx.violation("probe: honour the data (geo)", "conditioned field at conditioning point %d is %r, datum %r (kriging variance %.3g)"
                                  % (i, float(fld[i]), float(cv[i]), kv_i), dict(case, point=i), key="honour-geo:%s:%s" % (geo, variant))
                    break


def farfield_probe(ctx, rng, reps):
    """simple kriging, targets many correlation lengths away: field = mean + unconditional field of the same seed"""
    import gstools as gs
    for rep in range(reps):
        for dim in (1, 2, 3):
            mcls = [gs.Exponential, gs.Gaussian, gs.Spherical][int(rng.integers(3))]
            model = mcls(dim=dim, var=float(rng.uniform(0.5, 2.0)), len_scale=float(rng.uniform(0.5, 1.5)))
            cp = rng.uniform(0, 3, size=(dim, 4))
            cv = rng.normal(size=4)
            mean = float(rng.normal())
            seed = int(rng.integers(1, 10 ** 6))
            pos = rng.uniform(0, 3, size=(dim, 5))
            pos[0] += 60.0 * model.len_scale + 10           # Exponential: exp(-60) ~ 1e-26; Gaussian / Spherical: 0
            csrf = gs.CondSRF(gs.krige.Simple(model, cp, cv, mean=mean), seed=seed, mode_no=64)
            f = csrf(pos)
            u = gs.SRF(model, mean=mean, seed=seed, mode_no=64)(pos)
            ctx.count(("farfield", dim, mcls.__name__), hist=dict(probe="far-field", dim=dim, model=mcls.__name__))
            if not np.all(np.abs(f - u) <= 1e-9 * (1 + np.abs(u))):
                ctx.violation("probe: far field", "far from the data the conditioned field is not mean + unconditional field of the same seed "
                              "(max diff %.3g)" % float(np.max(np.abs(f - u))),
                              dict(probe="far-field", dim=dim, model=repr(model), seed=seed, cond_pos=cp.tolist(), cond_val=cv.tolist(),
                                   mean=mean, pos=pos.tolist()), key="farfield:%s" % mcls.__name__)


def formula_probe(ctx, rng, drv, tie_broken, reps):
    """the conditioning formula incl. nugget: the extracted model (OCaml floats) against CondSRF on its own intermediate results"""
    import gstools as gs
    for rep in range(reps):
        dim = int(rng.integers(1, 4))
        nug = float(rng.choice([0.0, 0.3, 1.0]))
        model = [gs.Exponential, gs.Gaussian][int(rng.integers(2))](dim=dim, var=float(rng.uniform(0.5, 2)), len_scale=float(rng.uniform(0.5, 1.5)), nugget=nug)
        cp = rng.uniform(1, 6, size=(dim, 4))
        cv = rng.normal(size=4)
        exact = bool(nug > 0 and rng.random() < 0.5)
        drift = "linear" if rng.random() < 0.4 else None
        if drift:
            cp = rng.uniform(1, 6, size=(dim, dim + 4))
            cv = rng.normal(size=dim + 4)
        unb = bool(rng.random() < 0.5)
        kr = gs.krige.Krige(model, cp, cv, drift_functions=drift, unbiased=unb, exact=exact)
        csrf = gs.CondSRF(kr, seed=int(rng.integers(1, 10 ** 6)), mode_no=32)
        noise = []
        og = csrf.generator.get_nugget

        def rec(shape):
            z = og(shape)
            noise.append(np.array(z, copy=True) if np.ndim(z) else z)
            return z
        csrf.generator.get_nugget = rec
        pos = np.hstack([cp, cp + 1e-3, rng.uniform(0, 7, size=(dim, 8))])
        pos = pos[:, rng.permutation(pos.shape[1])]
        ccode = int(rng.integers(0, 4))
        chunk = chunk_size_for(ccode, pos.shape[1])
        f = csrf(pos, post_process=False, **(dict(chunk_size=chunk) if chunk is not None else {}))
        # independent, unchunked kriging of the same setup
        k0, kv0 = gs.krige.Krige(copy.deepcopy(model), cp, cv, drift_functions=drift, unbiased=unb, exact=exact)(pos, post_process=False, store=False)
        if not (C.close(k0, csrf.raw_krige, rtol=1e-12, scale=1 + np.abs(k0)) and C.close(kv0, csrf.krige.krige_var, rtol=1e-12, scale=1 + np.abs(kv0))):
            ctx.violation("probe: chunk_size", "kriging field / variance inside CondSRF(chunk_size=%r) differ from the unchunked kriging call" % chunk,
                          dict(probe="formula", model=repr(model), dim=dim, exact=exact, drift=drift, unbiased=unb, chunk_size=chunk,
                               cond_pos=cp.tolist(), cond_val=cv.tolist(), pos=pos.tolist()), key="chunk:formula")
        zs = np.zeros(f.size) if nug == 0 else np.ravel(noise[-1])
        ctx.count(("formula", dim, nug > 0, exact, drift, ccode), hist=dict(probe="formula-e2e", nugget=nug, exact=exact, drift=str(drift)))
        if drv is not None:
            m = drv.call("cond_field", nug, float(model.var), np.ravel(csrf.raw_krige), np.ravel(csrf.krige.krige_var), np.ravel(csrf.raw_field), zs)
            if not C.bit_equal(m, np.ravel(f)):
                tie_broken.append("cond_field model differs from CondSRF(post_process=False) on its own raw_krige/krige_var/raw_field/nugget noise "
                                  "(max diff %.3g)" % float(np.nanmax(np.abs(m - np.ravel(f)))))
        # the property statement: krige + sqrt(max(kv - n, 0)/var) * raw + nugget part (numpy, independent of the model)
        kv = np.ravel(kv0)
        vs = np.maximum(kv - nug, 0)
        ind = np.ravel(k0) + np.sqrt(vs / model.var) * np.ravel(csrf.raw_field) + (np.sqrt((kv - vs) / nug) * zs if nug > 0 else 0)
        if not C.close(ind, np.ravel(f), rtol=1e-12, scale=1 + np.abs(ind)):
            ctx.violation("probe: conditioning formula", "field != kriging estimate + sqrt((krige_var - nugget)+/var) * unconditional field + nugget part",
                          dict(probe="formula", model=repr(model), dim=dim, exact=exact, drift=drift, chunk_size=chunk), key="formula:e2e")
        # synthetic inputs through get_scaling (edge cases: variance below nugget, zero, negative rounding noise, NaN)
        n = 12
        kvs = np.abs(rng.normal(size=n)) * (nug + 0.5)
        kvs[0], kvs[1], kvs[2] = 0.0, nug, nug * 0.5
        if rep % 3 == 0:
            kvs[3] = np.nan
        ks, rs, z2 = rng.normal(size=n), rng.normal(size=n), rng.normal(size=n)
        csrf.generator.get_nugget = lambda shape: z2
        with np.errstate(all="ignore"):
            vsc, nugt = csrf.get_scaling(kvs, (n,))
            impl = ks + vsc * rs + nugt
        ctx.count(("formula-syn", nug > 0), hist=dict(probe="formula-synthetic", nugget=nug))
        if drv is not None:
            m = drv.call("cond_field", nug, float(model.var), ks, kvs, rs, z2)
            if not C.bit_equal(m, impl):
                tie_broken.append("cond_field model differs from CondSRF.get_scaling + field expression on synthetic inputs (nugget %g)" % nug)


def window_probe(ctx, rng):
    """positions that differ by less than the former np.allclose tolerance of Field._pos_equal are different positions
    (repaired by 1925c43), and another ext_drift given with the call is another kriging target (51cde63)"""
    import gstools as gs
    cv = np.array([0.47, 0.56, 0.74, 1.47])
    # small coordinates, shift 4e-6
    mk = lambda: gs.CondSRF(gs.krige.Ordinary(gs.Exponential(dim=1, var=1.0, len_scale=1.0), [[1.0, 2.5, 4.0]], [0.3, -1.0, 2.0]), seed=11, mode_no=32)  # noqa: E731
    pos = np.linspace(1.2, 5.0, 7)
    c = mk()
    c(pos)
    f = c(pos + 4e-6)
    fresh = mk()(pos + 4e-6)
    ctx.count(("window", "small"), hist=dict(probe="pos-window"))
    if not np.all(np.abs(f - fresh) <= 1e-12 * (1 + np.abs(fresh))):
        ctx.violation("probe: nearly equal positions", "csrf(pos); csrf(pos + 4e-6) reuses the kriging field of the old positions: differs from a fresh object by %.3g"
                      % float(np.max(np.abs(f - fresh))), dict(probe="pos-window", pos=pos.tolist(), shift=4e-6), key="pos-window:np.allclose")
    # UTM-scale coordinates: targets 3 m beside the data, then exactly on the data
    for shift in (3.0, float(rng.uniform(0.5, 4.5))):
        cpu = np.array([[500000.0, 500010.0, 500020.0, 500035.0]])
        mk2 = lambda: gs.CondSRF(gs.krige.Ordinary(gs.Exponential(dim=1, var=1.0, len_scale=5.0), cpu, cv), seed=1, mode_no=32)  # noqa: E731
        c = mk2()
        c(cpu[0] + shift, seed=1)
        g = c(cpu[0].copy(), seed=1)
        fresh = mk2()(cpu[0].copy(), seed=1)
        ctx.count(("window", "utm"), hist=dict(probe="pos-window"))
        if not (np.all(np.abs(g - fresh) <= 1e-12 * (1 + np.abs(fresh))) and np.all(np.abs(g - cv) <= 1e-6)):
            ctx.violation("probe: nearly equal positions", "UTM-scale targets %.2f m beside the data, then on the data: field at the conditioning points %r, data %r"
                          % (shift, g.tolist(), cv.tolist()), dict(probe="pos-window-utm", shift=shift, cond_pos=cpu.tolist()), key="pos-window:np.allclose")
    # external drift given with the call
    for rep in range(3):
        cp = np.array([[0.3, 1.9, 1.1, 3.3]])
        ed = np.array([0.1, 0.5, 0.3, 0.9])
        pos = np.array([0.5, 1.0, 2.5, 3.0, 4.0])
        a = 0.2 * pos
        b = a + rng.normal(size=5) * 2
        mk3 = lambda: gs.CondSRF(gs.krige.ExtDrift(gs.Exponential(dim=1, var=1.0, len_scale=2), cp, cv, ed), seed=1, mode_no=32)  # noqa: E731
        c = mk3()
        c(pos, ext_drift=a, seed=1)
        f2 = c(ext_drift=b, seed=1)
        f3 = np.array(c(seed=2), copy=True)            # no drift given again: the stored results (for b) are reused
        fresh = mk3()(pos, ext_drift=b, seed=1)
        fresh3 = mk3()(pos, ext_drift=b, seed=2)
        ctx.count(("ext-drift-per-call",), hist=dict(probe="ext-drift-per-call"))
        if not (np.all(np.abs(f2 - fresh) <= 1e-12 * (1 + np.abs(fresh))) and np.all(np.abs(f3 - fresh3) <= 1e-12 * (1 + np.abs(fresh3)))):
            ctx.violation("probe: ext_drift given with the call", "crf(pos, ext_drift=a); crf(ext_drift=b) differs from a fresh object by %.3g"
                          % float(np.max(np.abs(f2 - fresh))), dict(probe="ext-drift-per-call", a=a.tolist(), b=b.tolist()), key="history:stale-after:Call:other-ext_drift")


def cond_err_probe(ctx, rng, reps):
    """explicit measurement errors (exact=False; scalar, one per point, an explicit 0 next to a model nugget) must survive
    every refresh of the kriging setup: compared with a fresh object built with the same options.  Quantities without random
    nugget noise are compared (kriging matrix, cond_err, kriging field / variance, raw kriging field of CondSRF)."""
    import gstools as gs
    refreshes = ["set_condition()", "set_condition(cond_val=new)", "model = new object", "model = same object", "mean =", "trend =",
                 "normalizer =", "set_condition(new pos, val)"]
    for rep in range(reps):
        for kind in ("scalar", "points", "zero"):
            for op in refreshes:
                dim = int(rng.integers(1, 4))
                n = int(rng.integers(3, 6))
                nug = float(rng.choice([0.0, 0.3])) if kind != "zero" else 0.3
                st = dict(cls=[gs.Exponential, gs.Gaussian, gs.Spherical][int(rng.integers(3))],
                          mkw=dict(dim=dim, var=float(rng.uniform(0.5, 2)), len_scale=float(rng.uniform(0.6, 2)), nugget=nug),
                          cp=rng.uniform(1, 6, size=(dim, n)), cv=rng.normal(size=n), mean=float(rng.normal()), trend=None, norm=None,
                          unb=bool(rng.random() < 0.5),
                          ce=(float(rng.uniform(0.02, 0.3)) if kind == "scalar" else rng.uniform(0.02, 0.3, n) if kind == "points" else 0.0))

                def build(st):
                    ce = st["ce"].copy() if isinstance(st["ce"], np.ndarray) else st["ce"]
                    return gs.krige.Krige(st["cls"](**st["mkw"]), st["cp"].copy(), st["cv"].copy(), mean=st["mean"], trend=st["trend"],
                                          normalizer=st["norm"], unbiased=st["unb"], exact=False, cond_err=ce)
                pos = rng.uniform(0.5, 6.5, size=(dim, 7))
                ctx.count(("cond_err", kind, op), hist=dict(probe="cond_err x refresh", cond_err=kind, refresh=op))
                case = dict(probe="cond_err", cond_err_kind=kind, cond_err=np.asarray(st["ce"]).tolist(), refresh=op, model=repr(st["cls"](**st["mkw"])),
                            cond_pos=st["cp"].tolist(), cond_val=st["cv"].tolist(), unbiased=st["unb"], pos=pos.tolist())
                try:
                    kr = build(st)
                    csrf = gs.CondSRF(kr, seed=5, mode_no=32)
                    csrf(pos)
                    if op == "set_condition()":
                        kr.set_condition()
                    elif op == "set_condition(cond_val=new)":
                        st["cv"] = rng.normal(size=n)
                        kr.set_condition(cond_val=st["cv"].copy())
                    elif op == "model = new object":
                        st["mkw"] = dict(st["mkw"], len_scale=st["mkw"]["len_scale"] * 1.5)
                        csrf.model = st["cls"](**st["mkw"])
                    elif op == "model = same object":
                        st["mkw"] = dict(st["mkw"], len_scale=st["mkw"]["len_scale"] * 0.7)
                        csrf.model.len_scale = st["mkw"]["len_scale"]
                        csrf.model = csrf.model
                    elif op == "mean =":
                        st["mean"] = float(rng.normal())
                        csrf.mean = st["mean"]
                    elif op == "trend =":
                        st["trend"] = float(rng.normal())
                        csrf.trend = st["trend"]
                    elif op == "normalizer =":
                        st["norm"] = gs.normalizer.YeoJohnson(lmbda=1.3)
                        csrf.normalizer = gs.normalizer.YeoJohnson(lmbda=1.3)
                    else:
                        st["cp"] = rng.uniform(1, 6, size=(dim, n))
                        st["cv"] = rng.normal(size=n)
                        kr.set_condition(st["cp"].copy(), st["cv"].copy())
                    csrf(seed=6)
                    fk = build(st)
                    fc = gs.CondSRF(fk, seed=6, mode_no=32)
                    fc(pos)
                    got = dict(cond_err=kr.cond_err, kriging_matrix=kr._krige_mat, krige_field=kr.field, krige_var=kr.krige_var, raw_krige=csrf.raw_krige)
                    exp = dict(cond_err=fk.cond_err, kriging_matrix=fk._krige_mat, krige_field=fk.field, krige_var=fk.krige_var, raw_krige=fc.raw_krige)
                except Exception as e:  # noqa
                    ctx.violation("probe: cond_err x refresh", "exception %r" % (e,), case, key="cond_err:exception:%s:%s" % (kind, op))
                    continue
                bad = [k for k in got if np.shape(got[k]) != np.shape(exp[k]) or
                       not np.all(np.abs(np.asarray(got[k], float) - np.asarray(exp[k], float)) <= 1e-12 * max(1.0, float(np.max(np.abs(exp[k])))))]
                if bad:
                    ctx.violation("probe: cond_err x refresh", "explicit measurement error (%s) and '%s': %s differ(s) from a fresh object built with the same options"
                                  % (kind, op, ", ".join(bad)), dict(case, differing=bad, cond_err_after=np.asarray(kr.cond_err).tolist()),
                                  key="cond_err:%s:%s" % (kind, op))
    # documented rejection: the exact interpolator excludes explicit measurement errors
    for ce in (0.1, [0.1, 0.2, 0.3]):
        ctx.count(("cond_err", "exact-rejects", np.ndim(ce)), hist=dict(probe="cond_err x refresh", cond_err="exact=True rejects"))
        try:
            gs.krige.Krige(gs.Exponential(dim=1, nugget=0.5), [[1.0, 2.0, 3.0]], [0.1, 0.2, 0.3], exact=True, cond_err=ce)
            ctx.violation("probe: cond_err x refresh", "Krige(exact=True, cond_err=%r) did not raise the documented ValueError" % (ce,),
                          dict(probe="cond_err", exact=True, cond_err=ce), key="cond_err:exact-not-rejected")
        except ValueError:
            pass


def partial_pos_probe(ctx, rng, reps):
    """position changes that keep SOME coordinate rows / grid axes (parallel profile lines, one grid axis exchanged, a slice
    moved in z), through every entry point that takes positions"""
    import gstools as gs
    for rep in range(reps):
        for dim in (2, 3):
            for mesh in (0, 1):
                for entry in ("call", "set_pos", "structured/unstructured", "krige-then-call"):
                    keep = int(rng.integers(dim))                      # the row / axis that stays
                    n = int(rng.integers(3, 6))
                    cp = rng.uniform(1, 6, size=(dim, 5))
                    cv = rng.normal(size=5)
                    mk = lambda: gs.CondSRF(gs.krige.Ordinary(gs.Exponential(dim=dim, var=1.3, len_scale=1.5), cp, cv), seed=9, mode_no=32)  # noqa: E731
                    ax1 = [np.sort(rng.uniform(1, 6, n)) for _ in range(dim)]
                    ax2 = [a.copy() if d == keep else np.sort(rng.uniform(1, 6, n)) for d, a in enumerate(ax1)]
                    p1, p2 = (tuple(ax1), tuple(ax2)) if mesh else (np.array(ax1), np.array(ax2))
                    mt = mesh_name(mesh)
                    ctx.count(("partial-pos", dim, mesh, entry), hist=dict(probe="partial position change", dim=dim, mesh=mt, entry=entry))
                    case = dict(probe="partial-pos", dim=dim, mesh=mt, entry=entry, kept_row=keep, pos1=np.array(ax1).tolist(), pos2=np.array(ax2).tolist(),
                                cond_pos=cp.tolist(), cond_val=cv.tolist())
                    try:
                        c = mk()
                        c(p1, mesh_type=mt)
                        if entry == "call":
                            f = c(p2, mesh_type=mt)
                        elif entry == "set_pos":
                            c.set_pos(p2, mt)
                            f = c()
                        elif entry == "structured/unstructured":
                            f = c.structured(p2) if mesh else c.unstructured(p2)
                        else:
                            c.krige(p2, mesh_type=mt)
                            f = c()
                        fresh = mk()(p2, mesh_type=mt)
                    except Exception as e:  # noqa
                        ctx.violation("probe: partial position change", "exception %r" % (e,), case, key="partial-pos:exception:" + entry)
                        continue
                    if np.shape(f) != np.shape(fresh) or not np.all(np.abs(f - fresh) <= 1e-12 * (1 + np.abs(fresh))):
                        ctx.violation("probe: partial position change", "new positions that keep coordinate row / axis %d (%s, dim %d, via %s): field differs from a fresh object by %.3g"
                                      % (keep, mt, dim, entry, float(np.max(np.abs(f - fresh)))), case, key="partial-pos:%s:%s" % (mt, entry))


def multi_object_probe(ctx, rng, reps):
    """2-3 CondSRF objects on ONE Krige object (and others on another Krige in between): after a change of the conditions /
    the model / the mean every object must return what a fresh object returns.  All references are built AFTER the whole
    sequence has run (a CondSRF created in between could mask a cross-object effect)."""
    import gstools as gs
    for rep in range(reps):
        for change in ("set_condition(cond_val=new)", "model.len_scale + set_condition()", "mean =", "model = new object"):
            for nob in (2, 3):
                dim = int(rng.integers(1, 4))
                st = dict(cls=[gs.Exponential, gs.Gaussian][int(rng.integers(2))], mkw=dict(dim=dim, var=float(rng.uniform(0.5, 2)), len_scale=float(rng.uniform(0.6, 2))),
                          cp=rng.uniform(1, 6, size=(dim, 4)), cv=rng.normal(size=4), mean=float(rng.normal()))
                pos = rng.uniform(0.5, 6.5, size=(dim, 6))
                order = [int(x) for x in rng.permutation(nob)]
                case = dict(probe="multi-object", objects=nob, change=change, call_order_after_change=order, model=repr(st["cls"](**st["mkw"])),
                            cond_pos=st["cp"].tolist(), cond_val=st["cv"].tolist(), pos=pos.tolist())
                ctx.count(("multi-object", change, nob), hist=dict(probe="multi-object", change=change, objects=nob))
                try:
                    kr = gs.krige.Simple(st["cls"](**st["mkw"]), st["cp"].copy(), st["cv"].copy(), mean=st["mean"])
                    objs = [gs.CondSRF(kr, seed=10 + k, mode_no=24 + 8 * k) for k in range(nob)]
                    okr = gs.krige.Ordinary(gs.Exponential(dim=dim), rng.uniform(1, 6, size=(dim, 3)), rng.normal(size=3))
                    other = gs.CondSRF(okr, seed=1, mode_no=16)
                    objs[0](pos)
                    for c in objs[1:]:
                        c()
                    other(pos)
                    if change.startswith("set_condition(cond_val"):
                        st["cv"] = rng.normal(size=4)
                        kr.set_condition(cond_val=st["cv"].copy())
                    elif change.startswith("model.len_scale"):
                        st["mkw"] = dict(st["mkw"], len_scale=st["mkw"]["len_scale"] * 1.6)
                        kr.model.len_scale = st["mkw"]["len_scale"]
                        kr.set_condition()
                    elif change == "mean =":
                        st["mean"] = float(rng.normal())
                        objs[-1].mean = st["mean"]
                    else:
                        st["mkw"] = dict(st["mkw"], var=st["mkw"]["var"] * 1.4)
                        objs[0].model = st["cls"](**st["mkw"])
                    got = {}
                    interleave = bool(rng.random() < 0.4)        # calls of the unrelated object in between can mask cross-object effects
                    for k in order:
                        got[k] = np.array(objs[k](), copy=True)
                        if interleave:
                            other()
                    # references, built only now
                    bad = []
                    for k in order:
                        fk = gs.krige.Simple(st["cls"](**st["mkw"]), st["cp"].copy(), st["cv"].copy(), mean=st["mean"])
                        fresh = gs.CondSRF(fk, seed=10 + k, mode_no=24 + 8 * k)(pos)
                        if not np.all(np.abs(fresh - got[k]) <= 1e-12 * (1 + np.abs(fresh))):
                            bad.append((k, float(np.max(np.abs(fresh - got[k])))))
                except Exception as e:  # noqa
                    ctx.violation("probe: several CondSRF objects on one Krige", "exception %r" % (e,), case, key="multi-object:exception")
                    continue
                if bad:
                    ctx.violation("probe: several CondSRF objects on one Krige",
                                  "after '%s' and calls in the order %s, object(s) %s differ from a fresh object (max diff %.3g)"
                                  % (change, order, [k for k, _ in bad], max(d for _, d in bad)), dict(case, differing=bad), key="multi-object:" + change)


def zero_lag_probe(ctx, rng, reps):
    """nugget > 0 with exact=True: the data are honoured wherever a target coincides with a conditioning location up to the
    documented zero-lag window (|r| <= 1e-8) — conditioning locations embedded at random offsets inside larger target arrays
    (the isometrized coordinates then differ in the last bit), single-point / few-point calls, structured grids built with
    arange / linspace whose nodes equal the data locations only up to representation error, rotated + anisotropic models"""
    import gstools as gs
    eps = np.finfo(float).eps

    def check(tag, csrf, fld, at, cv, model, condK, case):
        kvar, raw = np.asarray(csrf.krige.krige_var), np.asarray(csrf.raw_field)
        nug = model.nugget
        for i, ix in enumerate(at):
            kv_i = float(kvar[ix])
            dev = abs(float(fld[ix]) - cv[i])
            tol_var = 1e3 * eps * condK * model.sill
            tol = 1e3 * eps * condK * (1 + float(np.max(np.abs(cv)))) + np.sqrt(max(kv_i, 0) / model.var) * abs(float(raw[ix])) + \
                np.sqrt(min(max(kv_i, 0.0), nug) / nug) * 6 * np.sqrt(nug)
            if not (kv_i <= tol_var and dev <= tol):
                ctx.violation("probe: zero-lag window", "%s: conditioned field at conditioning location %d is %r, datum %r (kriging variance there %.3g, allowed %.3g)"
                              % (tag, i, float(fld[ix]), float(cv[i]), kv_i, tol_var), dict(case, point=i), key="zero-lag:" + tag)
                return
    for rep in range(reps):
        for dim in (2, 3):
            for variant in ("Ordinary", "Simple", "Universal"):
                mcls = [gs.Exponential, gs.Gaussian, gs.Spherical, gs.Matern][int(rng.integers(4))]
                model = mcls(dim=dim, var=float(rng.uniform(0.5, 2)), len_scale=float(rng.uniform(0.8, 2.5)), nugget=float(rng.uniform(0.05, 0.4)),
                             anis=[float(a) for a in rng.uniform(0.3, 0.9, dim - 1)], angles=[float(a) for a in rng.uniform(0.1, 1.4, 1 if dim == 2 else 3)])
                nc = dim + 4
                # data on decimal locations that grid constructors reproduce only up to representation error
                cidx = np.array([rng.choice(np.arange(1, 40), size=nc, replace=False) for _ in range(dim)])
                cp = cidx * 0.1                                            # e.g. 0.30000000000000004 vs np.arange(0, 4, 0.1)[3]
                cv = rng.normal(size=nc) * 2
                try:
                    if variant == "Ordinary":
                        kr = gs.krige.Ordinary(model, cp, cv, exact=True)
                    elif variant == "Simple":
                        kr = gs.krige.Simple(model, cp, cv, mean=float(rng.normal()), exact=True)
                    else:
                        kr = gs.krige.Universal(model, cp, cv, "linear", exact=True)
                    condK = kmat_cond(kr)
                except Exception as e:  # noqa
                    ctx.violation("probe: zero-lag window", "exception %r" % (e,), dict(probe="zero-lag", variant=variant, dim=dim, model=repr(model)), key="zero-lag:exception")
                    continue
                if not condK < 1e9:
                    continue
                case = dict(probe="zero-lag", variant=variant, dim=dim, model=repr(model), cond_pos=cp.tolist(), cond_val=cv.tolist(), kriging_matrix_cond=condK)
                try:
                    # (i) embedded at random offsets in larger target arrays of different sizes; single- and few-point calls
                    for n_before, n_after in [(int(rng.integers(1, 40)), int(rng.integers(0, 40))), (int(rng.integers(1, 9)), 0), (0, 0)]:
                        tgt = np.hstack([rng.uniform(0, 4, size=(dim, n_before)), cp, rng.uniform(0, 4, size=(dim, n_after))])
                        ctx.count(("zero-lag", "embedded", variant, dim), hist=dict(probe="zero-lag", kind="embedded", variant=variant, dim=dim))
                        kr.delete_fields()
                        c = gs.CondSRF(kr, seed=int(rng.integers(1, 9999)), mode_no=32)
                        f = c(tgt)
                        check("embedded", c, f, [(n_before + i,) for i in range(nc)], cv, model, condK, dict(case, offset=n_before, n_targets=tgt.shape[1]))
                    for i in range(min(nc, 3)):                             # one conditioning location alone / with one other point
                        for extra in (0, 1):
                            tgt = np.hstack([rng.uniform(0, 4, size=(dim, extra)), cp[:, i:i + 1]])
                            ctx.count(("zero-lag", "single", variant, dim), hist=dict(probe="zero-lag", kind="single/few points", variant=variant, dim=dim))
                            kr.delete_fields()
                            c = gs.CondSRF(kr, seed=7, mode_no=32)
                            f = c(tgt)
                            check("single-point", c, f, [(extra,)], cv[i:i + 1], model, condK, dict(case, target=tgt.tolist()))
                    # (ii) structured grids whose nodes equal the data locations up to representation error
                    for ctor in ("arange", "linspace"):
                        axes = [np.arange(0, 4, 0.1) if ctor == "arange" else np.linspace(0, 3.9, 40) for _ in range(dim)]
                        if dim == 3:
                            axes = [a[np.sort(np.unique(np.concatenate([cidx[d], rng.choice(40, 4)])))] for d, a in enumerate(axes)]   # keep the grid small
                            at = [tuple(int(np.argmin(np.abs(axes[d] - cp[d, i]))) for d in range(dim)) for i in range(nc)]
                        else:
                            at = [tuple(int(cidx[d, i]) for d in range(dim)) for i in range(nc)]
                        ctx.count(("zero-lag", ctor, variant, dim), hist=dict(probe="zero-lag", kind="grid " + ctor, variant=variant, dim=dim))
                        kr.delete_fields()
                        c = gs.CondSRF(kr, seed=11, mode_no=32)
                        f = c(tuple(axes), mesh_type="structured")
                        check("grid-" + ctor, c, f, at, cv, model, condK, dict(case, grid=ctor))
                except Exception as e:  # noqa
                    ctx.violation("probe: zero-lag window", "exception %r" % (e,), case, key="zero-lag:exception")


def true_variance_probe(ctx, rng, reps):
    """field == kriging estimate + sqrt(TRUE kriging variance / var) * unconditional field of the same seed, with estimate and
    variance from an independent dense solve of the kriging system (numpy), at targets far from the data and in extrapolation
    regions, where the variance of the unbiased variants exceeds the sill.  Isotropic models, no nugget, no normalizer."""
    import gstools as gs
    eps = np.finfo(float).eps
    for rep in range(reps):
        for variant in ("Simple", "Ordinary", "Universal", "ExtDrift", "Detrended", "Krige:lin+ext", "Krige:lin+ext:unb"):
            for dim in (1, 2, 3):
                mcls = [gs.Exponential, gs.Gaussian, gs.Spherical, gs.Stable][int(rng.integers(4))]
                model = mcls(dim=dim, var=float(rng.uniform(0.5, 2)), len_scale=float(rng.uniform(0.5, 1.5)))
                n = dim + 5
                cp = rng.uniform(0, 4, size=(dim, n))
                cv = rng.normal(size=n) * 2
                # targets: near, beyond a correlation length, far away (extrapolation)
                tgt = np.hstack([rng.uniform(0, 4, size=(dim, 4)), rng.uniform(5, 9, size=(dim, 4)), rng.uniform(-40, 60, size=(dim, 4))])
                efun = lambda *x: 0.3 * np.asarray(x[0]) + 0.1 + 0.2 * np.sin(np.asarray(x[-1]))      # noqa: E731
                mean, F, F0, unb, ckw, data = 0.0, [], [], True, {}, cv.copy()
                if variant == "Simple":
                    mean = float(rng.normal())
                    kr, unb, data = gs.krige.Simple(model, cp, cv, mean=mean), False, cv - mean
                elif variant == "Ordinary":
                    kr = gs.krige.Ordinary(model, cp, cv)
                elif variant == "Universal":
                    kr = gs.krige.Universal(model, cp, cv, "linear")
                    F, F0 = [cp[d] for d in range(dim)], [tgt[d] for d in range(dim)]
                elif variant == "ExtDrift":
                    kr = gs.krige.ExtDrift(model, cp, cv, efun(*cp))
                    F, F0, ckw = [efun(*cp)], [efun(*tgt)], dict(ext_drift=efun(*tgt))
                elif variant == "Detrended":
                    tr = trend_fn(0.4)
                    kr, unb, data = gs.krige.Detrended(model, cp, cv, tr), False, cv - tr(*cp)
                else:
                    unb = variant.endswith(":unb")
                    kr = gs.krige.Krige(model, cp, cv, drift_functions="linear", ext_drift=efun(*cp), unbiased=unb)
                    F, F0, ckw = [cp[d] for d in range(dim)] + [efun(*cp)], [tgt[d] for d in range(dim)] + [efun(*tgt)], dict(ext_drift=efun(*tgt))
                # ---- the kriging system, written down independently
                D = np.sqrt(((cp[:, :, None] - cp[:, None, :]) ** 2).sum(0))
                D0 = np.sqrt(((cp[:, :, None] - tgt[:, None, :]) ** 2).sum(0))
                blocks = ([np.ones(n)] if unb else []) + F
                m = len(blocks)
                K = np.zeros((n + m, n + m))
                K[:n, :n] = model.var * model.cor(D / model.len_scale) if False else model.covariance(D)
                k0 = np.zeros((n + m, tgt.shape[1]))
                k0[:n] = model.covariance(D0)
                for a, (row, row0) in enumerate(zip(blocks, ([np.ones(tgt.shape[1])] if unb else []) + F0)):
                    K[n + a, :n] = K[:n, n + a] = row
                    k0[n + a] = row0
                condK = float(np.linalg.cond(K))
                key = ("true-variance", variant, dim, mcls.__name__)
                if not condK < 1e8:
                    ctx.count(None, hist=dict(probe="true-variance:skipped (kriging matrix numerically singular)"))
                    continue
                lam = np.linalg.solve(K, k0)
                est = lam[:n].T @ data                                         # raw kriging estimate (before mean / trend are added back)
                var_true = model.sill - np.einsum("ij,ij->j", k0, lam)          # NOT bounded by the sill for the unbiased variants
                seed = int(rng.integers(1, 10 ** 6))
                ctx.count(key, hist=dict(probe="true-variance", variant=variant, dim=dim, model=mcls.__name__,
                                         variance_above_sill=bool(np.any(var_true > 1.05 * model.sill))))
                case = dict(probe="true-variance", variant=variant, dim=dim, model=repr(model), seed=seed, cond_pos=cp.tolist(), cond_val=cv.tolist(),
                            targets=tgt.tolist(), kriging_matrix_cond=condK, true_variance_over_sill=(var_true / model.sill).tolist())
                try:
                    c = gs.CondSRF(kr, seed=seed, mode_no=64)
                    f = np.asarray(c(tgt, post_process=False, **ckw))
                    u = np.asarray(gs.SRF(model, seed=seed, mode_no=64)(tgt, post_process=False, store=False))
                except Exception as e:  # noqa
                    ctx.violation("probe: true kriging variance", "exception %r" % (e,), case, key="true-variance:exception:" + variant)
                    continue
                ok = var_true > 0.05 * model.sill        # away from the data (sqrt of a tiny variance amplifies solver noise)
                ref = est + np.sqrt(np.maximum(var_true, 0) / model.var) * u
                tol = 1e4 * eps * condK * (1 + np.abs(ref) + np.abs(u)) + 1e-9
                if not np.all(np.abs(f - ref)[ok] <= tol[ok]):
                    j = int(np.argmax(np.where(ok, np.abs(f - ref) - tol, -np.inf)))
                    ctx.violation("probe: true kriging variance",
                                  "%s: field %r != kriging estimate %r + sqrt(true kriging variance %.4g / var %.4g) * unconditional field %r = %r "
                                  "at target %d (true variance / sill = %.3g)" % (variant, float(f[j]), float(est[j]), float(var_true[j]), model.var, float(u[j]),
                                                                                 float(ref[j]), j, float(var_true[j] / model.sill)),
                                  dict(case, target=j), key="true-variance:" + variant)


def corpus_cases():
    d = os.path.join(C.VERIF, "corpus", "C07")
    out = []
    if os.path.isdir(d):
        for fn in sorted(os.listdir(d)):
            if fn.endswith(".json"):
                out.append((fn, json.load(open(os.path.join(d, fn)))))
    return out


def merge_local_known_findings(ctx):
    """known_findings.json is assembled by the coordinator from known_findings.d/*.json; our own fragment is the
    authoritative list for C07 (an entry that became "fixed" must no longer suppress anything)"""
    p = os.path.join(C.VERIF, "known_findings.d", "C07.json")
    if os.path.exists(p):
        ctx.kf = [e for e in json.load(open(p)) if e.get("property") == "C07"]


def run(ctx, only_history=None):
    rng = C.Rng(ctx.seed, "C07")
    thorough = ctx.tier == "thorough"
    merge_local_known_findings(ctx)
    ctx.rule = ("operation histories of <= 10 operations (+ closing refresh/call + call at the conditioning points) over {call(pos?, seed?, 1-3 store-name sets, store raw_krige?, chunk_size none/1/not dividing/> n), set_pos, re-assignment of the same edited model object, in-place edits of cond_pos/cond_val/ext_drift/cond_err arrays, explicit cond_err worlds (scalar / per point) and set_condition(cond_err=), positions that keep some coordinate rows/axes, per-call ext_drift ids, 1-3 CondSRF objects on one Krige + unrelated objects in between, functional and 0-2 external drifts, "
                "set_condition(new values / new positions / refresh), in-place model change, model / mean / trend / normalizer re-assignment, "
                "set_generator, in-place edit of the caller's position array, direct krige(pos?) call, csrf.pos = ...}, positions passed as "
                "float64 ndarrays (aliasing-prone), dim 1-3, simple/ordinary/universal kriging, scalar and callable trend, YeoJohnson/Modulus "
                "normalizers, structured and unstructured meshes, identical / clearly different (incl. 3e-4 apart) / sub-tolerance positions; "
                "honour-the-data: 5 kriging variants x 5 models x dim 1-3 x nugget (exact) x mesh x seeds, lat-lon / temporal models. non-trivial "
                "= history with >= 1 call and >= 1 state-changing operation, or a probe case; distinct = distinct operation-code sequence "
                "(histories) or distinct (probe, variant, dim, model, options)")
    ctx.trusted = [
        "Coq 8.16.1 kernel; stdlib Reals axioms as printed per theorem (state-machine theorems are closed under the global context)",
        "ExtrOcamlBasic extraction; OCaml float instance (+ - * / sqrt only are used by the C07 formula)",
        "hand model C07_Model.v of CondSRF.__call__/set_pos/setters and Krige.set_condition: tied by executing it against the implementation "
        "on operation histories (branch, stored names, provenance of every returned field)",
        "the kriging model of C05/C06 (C05_Model.v) under C07_honours_data; LAPACK inverse is a hypothesis (Kinv*K = I)",
        "RandMeth / RNG: the unconditional field of a seed is whatever SRF(model, seed) returns (oracle)",
    ]
    ctx.not_proved = [
        "far-field limit as a limit statement: proved are the exact end point (estimate 0, variance = sill) and a quantitative bound for models "
        "without nugget; that simple-kriging weights vanish far from the data is probed only",
        "krige_store options, assigning csrf.mesh_type (raises ValueError on the next call unless the shapes happen to "
        "agree), in-place edits of arrays obtained from the getters (csrf.pos[...] = ...), fit_normalizer/fit_variogram and seed=None are "
        "outside the modelled operation alphabet",
        "floating-point rounding (theorems over R; the formula model is executed at doubles bit-for-bit against the implementation)",
    ]
    ctx.tie["CondSRF.__call__ / set_pos / setters, Krige.set_condition (cache state machine)"] = "hand model + correspondence"
    ctx.tie["CondSRF.get_scaling + field expression"] = "hand model + correspondence (bitwise)"
    tie_broken = []
    import time
    t0 = time.time()
    proofs_ok = ctx.proofs("props/C07.v")
    drv = None
    ok, out = C.build_driver("c07")
    C.log("[C07]   proofs + driver build: %.1fs" % (time.time() - t0))
    if ok:
        drv = C.Driver("c07")
    else:
        tie_broken.append("extraction/driver: " + out[-400:])
    try:
        hr = HistoryRunner(ctx, drv, tie_broken)
        if only_history is not None:
            hr.run(only_history["wseed"], only_history["rows"], origin="replay")
            return _finish(ctx, tie_broken, proofs_ok)
        # ---- corpus first (witness histories of the repaired defect)
        for fn, rec in corpus_cases():
            ctx.count(("corpus", fn), hist=dict(stage="corpus"))
            hr.run(rec["history"]["wseed"], rec["history"]["rows"], origin="corpus/" + fn)
        # ---- random histories
        n_hist = 1200 if thorough else 160
        for h in range(n_hist):
            wseed = int(rng.integers(1, 2 ** 31))
            allow_jit = rng.random() < 0.3
            rows = [(r + [0] * NCOL)[:NCOL] for r in gen_rows(rng, int(rng.integers(2, 11)), allow_jit)]
            ncall = sum(1 for r in rows if r[0] == 0)
            nchg = sum(1 for r in rows if r[0] >= 2)
            key = ("hist",) + tuple(r[0] * 16 + r[1] + 2 * (r[5] > 0) + 4 * r[8] for r in rows)
            ctx.count(key if (ncall >= 1 and nchg >= 1) else None,
                      hist=dict(stage="history", n_ops=len(rows), sub_tolerance_positions=bool(allow_jit)))
            for r in rows:
                ctx.count(None, n=0, hist=dict(op=OPN[r[0]]))
            if h < 3:
                ctx.sample(dict(history=[OPN[r[0]] + ("(pos %d.%d %s)" % (r[2], r[3], mesh_name(r[4])) if r[1] else "") +
                                         ("[seed %d]" % (r[5] - 1) if r[5] else "") for r in rows], wseed=wseed))
            hr.run(wseed, rows)
        C.log("[C07]   corpus + %d histories: %.1fs" % (n_hist, time.time() - t0))
        # ---- probes of the statement
        formula_probe(ctx, rng, drv, tie_broken, 40 if thorough else 8)
        honour_probe(ctx, rng, drv, 5 if thorough else 1)
        honour_geo_probe(ctx, rng, 6 if thorough else 2)
        farfield_probe(ctx, rng, 10 if thorough else 3)
        window_probe(ctx, rng)
        partial_pos_probe(ctx, rng, 3 if thorough else 1)
        multi_object_probe(ctx, rng, 4 if thorough else 1)
        zero_lag_probe(ctx, rng, 3 if thorough else 1)
        true_variance_probe(ctx, rng, 4 if thorough else 1)
        cond_err_probe(ctx, rng, 4 if thorough else 1)
        C.log("[C07]   probes done: %.1fs" % (time.time() - t0))
    finally:
        if drv:
            drv.close()
    return _finish(ctx, tie_broken, proofs_ok)


def _finish(ctx, tie_broken, proofs_ok):
    if tie_broken:
        ctx.notes.append("tie: " + "; ".join(tie_broken[:5]))
    if (tie_broken or not proofs_ok) and not ctx.violations:
        ctx.violation("proof/tie", "proof obligations or the model/code tie of C07 no longer check: %s" % (
            tie_broken[:3] or getattr(ctx, "proof_failure", {}).get("output_tail", "")[-600:]),
            dict(tie_broken=tie_broken[:10], proof=getattr(ctx, "proof_failure", None)), no_input=True)


def replay(ctx, path):
    rec = json.load(open(path))
    print(json.dumps({k: rec[k] for k in ("stage", "what")}, indent=1))
    ctx.seed = int(rec.get("seed", ctx.seed))
    ctx.tier = rec.get("tier", ctx.tier)
    hist = (rec.get("case") or {}).get("history")
    run(ctx, only_history=hist)
    return ctx.finish()
