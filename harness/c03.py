"""C03 — model functions are mutually consistent and match their documented closed forms.

stages: theorems props/C03.v ; extraction + driver (oracle = the scipy / gstools.tools.special functions the
        implementation calls) ; correspondence of every modelled function with /repo ; probes of the property
        statement on the implementation (mpmath 50-digit documented formulas, identities, user subclasses,
        integral / percentile scales, variants)."""
import itertools
import json
import os
import warnings

import numpy as np

import common as C

warnings.simplefilter("ignore")

# class table: name, model code, names of the optional arguments in model slot order (p1, p2, p3)
CLASSES = [
    ("Gaussian", 0, ()), ("Exponential", 1, ()), ("Matern", 2, ("nu",)), ("Integral", 3, ("nu",)),
    ("Stable", 4, ("alpha",)), ("Rational", 5, ("alpha",)), ("Cubic", 6, ()), ("Linear", 7, ()),
    ("Circular", 8, ()), ("Spherical", 9, ()), ("HyperSpherical", 10, ()), ("SuperSpherical", 11, ("nu",)),
    ("JBessel", 12, ("nu",)), ("TPLGaussian", 13, ("hurst", None, "len_low")),
    ("TPLExponential", 14, ("hurst", None, "len_low")), ("TPLStable", 15, ("hurst", "alpha", "len_low")),
    ("TPLSimple", 16, ("nu",)),
]
CODE = {n: c for n, c, _ in CLASSES}
SLOTS = {n: s for n, _, s in CLASSES}
TPL = ("TPLGaussian", "TPLExponential", "TPLStable")
COMPACT = ("Cubic", "Linear", "Circular", "Spherical", "HyperSpherical", "SuperSpherical", "TPLSimple")

# normalised lags: 0, tiny (around the isclose window 1e-8), inside, range edge h = 1, beyond, far tail
# (the tiniest lag is 1e-150: squares of smaller lags underflow in double precision, which is rounding of the argument)
LAGS_Q = [0.0, 1e-150, 1e-30, 1e-16, 1e-12, 1e-10, 5e-9, 1e-8, 1.01e-8, 2e-8, 1e-6, 1e-5, 1e-3, 0.1, 0.5, 0.9,
          1 - 1e-12, 1.0, 1 + 1e-12, 1.5, 3.0, 5.5, 10.0, 30.0, 100.0, 1e3, 1e6]
LAGS_T = sorted(set(LAGS_Q + [1e-100, 1e-50, 1e-20, 1e-15, 1e-14, 1e-13, 1e-11, 1e-9, 1e-7, 3e-6, 3e-5, 1e-4, 1e-2,
                              0.3, 0.7, 0.99, 1.01, 2.0, 5.4, 5.6, 29.9, 30.1, 1e4]))

# classes for which scipy.optimize.root (hybr, started at per * len_rescaled) is known not to converge for some
# parameters (see known_findings.d/C03.json); a wrong percentile lag of any other class is reported under its own key
ROOT_FAILS = ("JBessel", "TPLSimple", "SuperSpherical", "Integral")

TOL = 1e-9          # DESIGN 3.4: values through libm / scipy special functions, relative to the scale of the quantity


# ----------------------------------------------------------------------------------------------- oracle
def oracle_fn(code, a):
    from scipy import special as sps
    from gstools.tools import special as gsp
    with np.errstate(all="ignore"):
        if code == 0:
            return float(sps.gamma(a[0]))
        if code == 1:
            return float(sps.kv(a[0], a[1]))
        if code == 2:
            return float(sps.jv(a[0], a[1]))
        if code == 3:
            return float(sps.hyp2f1(a[0], a[1], a[2], a[3]))
        if code == 4:
            return float(np.atleast_1d(gsp.exp_int(a[0], np.array([a[1]], dtype=float)))[0])
        if code == 8:
            return float(sps.loggamma(a[0]))
        if code == 11:
            return float(sps.beta(a[0], a[1]))
    raise ValueError("oracle code %d not served" % code)


# ----------------------------------------------------------------------------------------------- inputs
def opt_values(name, dim, rng, tier):
    """optional-argument dictionaries: every bound and special value, plus random interior values"""
    n_rand = 2 if tier == "thorough" else 1

    def lu(lo, hi):
        return float(np.exp(rng.uniform(np.log(lo), np.log(hi))))
    if name == "Stable":
        return [dict(alpha=a) for a in [0.3, 1.0, 1.5, 2.0] + [lu(0.3, 2.0) for _ in range(n_rand)]]
    if name == "Matern":
        return [dict(nu=v) for v in [0.2, 0.5, 1.0, 2.5, 19.9, 20.0, 20.1, 20.5, 25.0, 30.0] + [lu(0.2, 20.0) for _ in range(n_rand)]]
    if name == "Integral":
        return [dict(nu=v) for v in [0.01, 0.5, 1.0, 2.0, 10.0, 23.9998, 49.9, 50.0] + [lu(0.05, 50.0) for _ in range(n_rand)]]
    if name == "Rational":
        return [dict(alpha=v) for v in [0.5, 1.0, 2.2, 50.0] + [lu(0.5, 50.0) for _ in range(n_rand)]]
    if name == "SuperSpherical":
        lo = (dim - 1) / 2
        return [dict(nu=v) for v in [lo, lo + 0.3, 7.7, 50.0] + [lo + lu(0.01, 40.0) for _ in range(n_rand)]]
    if name == "JBessel":
        lo = dim / 2 - 1
        return [dict(nu=v) for v in [lo + 0.02, dim / 2, 0.5 if dim <= 3 else dim / 2, 5.0, 36.0, 50.0] + [lo + lu(0.05, 30.0) for _ in range(n_rand)]]
    if name == "TPLSimple":
        lo = (dim + 1) / 2
        return [dict(nu=v) for v in [lo, lo + 0.4, 10.0, 50.0] + [lo + lu(0.01, 40.0) for _ in range(n_rand)]]
    if name in ("TPLGaussian", "TPLExponential"):
        hs = ([0.11, 0.25, 0.5, 0.99] if tier == "thorough" else [0.11, 0.5]) + [float(rng.uniform(0.1, 1.0)) for _ in range(n_rand)]
        return [dict(hurst=h, len_low=l) for h in hs for l in (0.0, 1e-9, 0.3, 5.0)]
    if name == "TPLStable":
        hs = ([0.11, 0.99] if tier == "thorough" else [0.11]) + [float(rng.uniform(0.1, 1.0)) for _ in range(1)]
        al = [0.3, 1.0, 1.5, 2.0] if tier == "thorough" else [0.3, 1.5, 2.0]
        return [dict(hurst=h, len_low=l, alpha=a) for h in hs for l in ((0.0, 1e-9, 0.3, 5.0) if tier == "thorough" else (0.0, 0.3)) for a in al]
    return [dict()]


def primary_dim(name):
    return [n for n, _, _ in CLASSES].index(name) % 3 + 1


LAGS_SHORT = [0.0, 1e-9, 1e-3, 0.5, 1.0, 3.0, 1e3]


def plan(name, dim, tier, lags):
    """(lags, number of parameter sets) for a class in a dimension.  The functions do not depend on dim except through the
    bounds of the optional arguments and HyperSpherical: one dimension per class (all three for HyperSpherical) gets the
    full lag list of the tier, the others the quick list (thorough) or a short list (quick)"""
    if name == "HyperSpherical" or dim == primary_dim(name):
        return lags, (3 if tier == "thorough" else 2)
    if tier == "thorough":
        return LAGS_Q, 1
    return LAGS_SHORT, 1


def base_params(rng, tier):
    """(var, len_scale, nugget, rescale) : defaults, a generic set, random sets"""
    out = [(1.0, 1.0, 0.0, None), (2.5, 3.7, 0.4, 1.7)]
    for _ in range(2 if tier == "thorough" else 1):
        out.append((float(np.exp(rng.uniform(-3, 3))), float(np.exp(rng.uniform(-3, 3))),
                    float(rng.choice([0.0, np.exp(rng.uniform(-3, 1))])), float(np.exp(rng.uniform(-2, 2)))))
    return out


def make(name, dim, opt, var=1.0, len_scale=1.0, nugget=0.0, rescale=None, **kw):
    import gstools as gs
    return getattr(gs, name)(dim=dim, var=var, len_scale=len_scale, nugget=nugget, rescale=rescale, **opt, **kw)


def slots(name, opt):
    s = SLOTS[name]
    vals = [float(opt[k]) if (k is not None and k in opt) else 0.0 for k in s] + [0.0] * (3 - len(s))
    return vals[:3]


def desc(name, dim, opt, bp=None, **extra):
    d = dict(cls=name, dim=dim, opt=opt)
    if bp is not None:
        d.update(var=bp[0], len_scale=bp[1], nugget=bp[2], rescale=bp[3])
    d.update(extra)
    return d


def f1(x):
    return float(np.asarray(x, dtype=float).ravel()[0])


# ----------------------------------------------------------------------------------------------- documented formulas (mpmath)
def doc_formulas():
    import mpmath as mp
    mp.mp.dps = 50

    def doc_cor(name, h, p, dim):
        h = mp.mpf(h)
        if name == "Gaussian":
            return mp.exp(-h ** 2)
        if name == "Exponential":
            return mp.exp(-h)
        if name == "Stable":
            return mp.exp(-h ** mp.mpf(p["alpha"])) if h > 0 else mp.mpf(1)
        if name == "Matern":
            nu = mp.mpf(p["nu"])
            if p["nu"] > 20:
                return mp.exp(-(h / 2) ** 2)
            if h == 0:
                return mp.mpf(1)
            return 2 ** (1 - nu) / mp.gamma(nu) * (mp.sqrt(nu) * h) ** nu * mp.besselk(nu, mp.sqrt(nu) * h)
        if name == "Integral":
            nu = mp.mpf(p["nu"])
            return nu / 2 * mp.expint(1 + nu / 2, h ** 2)
        if name == "Rational":
            a = mp.mpf(p["alpha"])
            return (1 + h ** 2 / a) ** (-a)
        if name == "Cubic":
            return (1 - 7 * h ** 2 + mp.mpf(35) / 4 * h ** 3 - mp.mpf(7) / 2 * h ** 5 + mp.mpf(3) / 4 * h ** 7) if h < 1 else mp.mpf(0)
        if name == "Linear":
            return 1 - h if h < 1 else mp.mpf(0)
        if name == "Circular":
            return 2 / mp.pi * (mp.acos(h) - h * mp.sqrt(1 - h ** 2)) if h < 1 else mp.mpf(0)
        if name == "Spherical":
            return 1 - mp.mpf(3) / 2 * h + h ** 3 / 2 if h < 1 else mp.mpf(0)
        if name in ("HyperSpherical", "SuperSpherical"):
            nu = mp.mpf(dim - 1) / 2 if name == "HyperSpherical" else mp.mpf(p["nu"])
            if h >= 1:
                return mp.mpf(0)
            return 1 - h * mp.hyp2f1(0.5, -nu, 1.5, h ** 2) / mp.hyp2f1(0.5, -nu, 1.5, 1)
        if name == "JBessel":
            nu = mp.mpf(p["nu"])
            if h == 0:
                return mp.mpf(1)
            return mp.gamma(nu + 1) * mp.besselj(nu, h) / (h / 2) ** nu
        if name == "TPLSimple":
            return (1 - h) ** mp.mpf(p["nu"]) if h < 1 else mp.mpf(0)
        raise KeyError(name)

    def doc_tpl(name, r, p, len_scale, rescale):
        r = mp.mpf(r)
        H = mp.mpf(p["hurst"])
        ll = mp.mpf(p["len_low"]) / mp.mpf(rescale)
        lu = (mp.mpf(p["len_low"]) + mp.mpf(len_scale)) / mp.mpf(rescale)
        a = {"TPLGaussian": mp.mpf(2), "TPLExponential": mp.mpf(1)}.get(name, mp.mpf(p.get("alpha", 1)))
        s = 1 + 2 * H / a

        def part(l):
            if l == 0:
                return mp.mpf(0)
            if r == 0:
                return l ** (2 * H)
            return l ** (2 * H) * (2 * H / a) * mp.expint(s, (r / l) ** a)
        return (part(lu) - part(ll)) / (lu ** (2 * H) - ll ** (2 * H))

    def doc_correlation(name, r, opt, dim, len_scale, rescale):
        if name in TPL:
            return doc_tpl(name, r, opt, len_scale, rescale)
        return doc_cor(name, mp.mpf(rescale) * mp.mpf(r) / mp.mpf(len_scale), opt, dim)
    return mp, doc_cor, doc_correlation


# ----------------------------------------------------------------------------------------------- known deviation regions
def finding_key(name, opt, h, got, m=None):
    """key of the input pattern of a deviation from the documented formula (matched against known findings);
    anything else gets the generic key of its class"""
    if name == "Integral" and not np.isfinite(got) and h <= 1e-3:
        return "Integral:nan-near-origin-large-nu"
    if name == "Integral" or name in TPL:
        # exp_int(s, x) evaluates E_round(s) when np.isclose(s, round(s)) (rtol 1e-5)
        sx = 1 + 0.5 * opt["nu"] if name == "Integral" else 1 + 2 * opt["hurst"] / {"TPLGaussian": 2.0, "TPLExponential": 1.0}.get(name, opt.get("alpha", 1.0))
        if sx != round(sx) and abs(sx - round(sx)) <= 1e-8 + 1e-5 * abs(round(sx)):
            return "exp_int:s-snapped-to-integer"
    return "%s:closed-form" % name


# ----------------------------------------------------------------------------------------------- run
def run(ctx):
    rng = C.Rng(ctx.seed, "C03")
    # known findings of this property that are not yet merged into known_findings.json
    try:
        have = {k["key"] for k in ctx.kf}
        for e in json.load(open(os.path.join(C.VERIF, "known_findings.d", "C03.json"))):
            if e.get("property") == "C03" and e["key"] not in have:
                ctx.kf.append(e)
    except Exception:
        pass
    ctx.rule = ("cases = (class, dim 1-3, optional arguments incl. every bound, var/len_scale/nugget/rescale set, normalised lag "
                "h in {0, tiny around the 1e-8 window, inside, range edge 1, beyond, far tail}); non-trivial = lag > 0; "
                "distinct = distinct (stage, class, dim, optional arguments, parameter set, lag) keys")
    ctx.trusted = [
        "Coq 8.16.1 kernel (coqc); no native_compute; Coquelicot 3 (improper Riemann integral)",
        "extraction (ExtrOcamlBasic only), OCaml 4.13, ocaml/proto.ml float instance (glibc libm)",
        "hand model coq/c03/C03_Model.v tied to /repo by executing the extracted model against the implementation",
        "special functions (scipy gamma, loggamma, kv, jv, hyp2f1, beta; gstools.tools.special.exp_int) are oracles: "
        "arbitrary function `ora` in every theorem, answered in the correspondence by the functions the implementation calls",
        "scipy.integrate.quad and scipy.optimize.root are not modelled (their results are probed against independent values)",
        "numpy element-wise masks are modelled on a single lag",
    ]
    ctx.not_proved = [
        "closed forms of Matern, Integral, HyperSpherical, SuperSpherical, JBessel, TPLGaussian/Exponential/Stable (K_nu, J_nu, 2F1, E_s are oracles): correspondence + mpmath probes only",
        "integral scales of Gaussian, Stable, Matern, Integral, Rational, Circular, Hyper/SuperSpherical, JBessel, TPL* (Gaussian integral, Beta/Bessel integrals not in the installed libraries); TPLSimple only for integral nu",
        "spatial variants for dim 3 (rotation algebra is C12's); accuracy of quad / root",
        "IEEE rounding: theorems are over exact reals",
    ]
    ctx.tie["derived quantities = functions of the current parameter state (C03_derived_from_current_state)"] = \
        "hand model + correspondence on randomised assignment/read histories of one object (probe_history)"
    for k in ("derive/_init_subclass", "Matern.cor (np.isfinite / masked overflow handling does not translate)", "correlation/covariance/variogram",
              "axis/yadrenko/spatial/nugget variants", "integral_scale setter", "var_factor", "percentile curve", "default_arg_from_bounds"):
        ctx.tie[k] = "hand model + correspondence"
    for k in ("Exponential.cor", "Stable.cor", "tplstable_cor", "TPLGaussian/TPLExponential/TPLStable.correlation",
              "Gaussian/Exponential/Stable/Matern/Integral/Rational.calc_integral_scale", "Gaussian.default_rescale", "great_circle_to_chordal"):
        ctx.tie[k] = "translated (py2coq, Formulas_gen.v) = hand model for every number type (C03_tie_*, reflexivity) + correspondence"
    for k in ("Gaussian.cor", "Rational.cor", "Integral.cor", "Cubic.cor", "Linear.cor", "Circular.cor", "Spherical.cor", "HyperSpherical.cor",
              "SuperSpherical.cor", "JBessel.cor", "TPLSimple.cor"):
        ctx.tie[k] = "translated (py2coq, Formulas_gen.v) = hand model at R (C03_tie_*: x**2 vs x*x, fmin/fmax vs numpy min/max, masks) + correspondence"
    import time
    t0 = time.time()
    proofs_ok = ctx.proofs("props/C03.v")
    t1 = time.time()
    tie_broken = []
    drv = None
    ok, out = C.build_driver("c03")
    if ok:
        drv = C.Driver("c03", oracle_fn)
    else:
        tie_broken.append("extraction/driver build: " + out[-400:])
    state = dict(corr_mismatch=[])
    t2 = time.time()
    try:
        if drv is not None:
            correspondence(ctx, rng, drv, state)
        t3 = time.time()
        probes(ctx, rng, drv)
        ctx.notes.append("wall seconds: proofs (incl. waiting for the build lock) %.0f, driver build %.0f, correspondence %.0f, probes %.0f"
                         % (t1 - t0, t2 - t1, t3 - t2, time.time() - t3))
    finally:
        if drv:
            drv.close()
    if state["corr_mismatch"]:
        tie_broken.append("correspondence: " + "; ".join(sorted(set(state["corr_mismatch"]))[:6]))
    if (tie_broken or not proofs_ok) and not ctx.violations:
        ctx.violation("proof/tie", "proof obligations or the model/code tie of C03 no longer check: %s" % (
            tie_broken or getattr(ctx, "proof_failure", {}).get("output_tail", "")[-600:]),
            dict(tie_broken=tie_broken, first=state.get("first_mismatch"), proof=getattr(ctx, "proof_failure", None)), no_input=True)


# ----------------------------------------------------------------------------------------------- correspondence
def mismatch(ctx, state, what, case):
    """model and implementation disagree: the tie is broken (reported without failing input unless a probe finds one)"""
    state["corr_mismatch"].append(what)
    if "first_mismatch" not in state:
        state["first_mismatch"] = dict(what=what, case=case)
        C.log("[C03] correspondence mismatch: %s %s" % (what, json.dumps(case, default=str)[:600]))


def same(a, b, scale=1.0):
    a = np.atleast_1d(np.asarray(a, dtype=float))
    b = np.atleast_1d(np.asarray(b, dtype=float))
    return C.close(a, b, rtol=TOL, atol=1e-300, scale=abs(scale)) or C.close(a, b, rtol=TOL, atol=1e-300)


def correspondence(ctx, rng, drv, state):
    import gstools as gs
    from gstools.covmodel import tools as T
    from gstools.tools.geometric import matrix_isometrize
    lags = LAGS_T if ctx.tier == "thorough" else LAGS_Q
    bps = base_params(rng, ctx.tier)
    n = 0
    for name, code, _ in CLASSES:
        for dim in (1, 2, 3):
            opts = opt_values(name, dim, rng, ctx.tier)
            lags_d, nbp = plan(name, dim, ctx.tier, lags)
            if ctx.tier != "thorough" and lags_d is LAGS_SHORT:
                opts = opts[::2]        # quick, secondary dimensions: every other optional-argument set
            for oi, opt in enumerate(opts):
                p = slots(name, opt)
                try:
                    m0 = make(name, dim, opt)
                except Exception as e:
                    mismatch(ctx, state, "constructor raised %r" % e, desc(name, dim, opt))
                    continue
                # A. cor on normalised lags
                for h in lags_d:
                    with np.errstate(all="ignore"):
                        want = f1(m0.cor(np.array([h])))
                    got = drv.call("cor", ("z", code), p[0], p[1], ("z", dim), float(h))
                    n += 1
                    ctx.count(("cor", name, dim, oi, h) if h > 0 else None, hist=dict(stage="cor", cls=name, dim=dim))
                    if not same(want, got):
                        mismatch(ctx, state, "cor(%s)" % name, desc(name, dim, opt, h=h, impl=want, model=got))
                # B. the three public functions, variants
                for bi, bp in enumerate(bps[:nbp] if (oi < 4 or ctx.tier == "thorough") else bps[1:2]):
                    var, ls, nug, resc = bp
                    anis = [float(np.exp(rng.uniform(-1.5, 1.5))) for _ in range(dim - 1)]
                    angles = [float(rng.uniform(-np.pi, np.pi)) for _ in range({1: 0, 2: 1, 3: 3}[dim])]
                    try:
                        m = make(name, dim, opt, var, ls, nug, resc, anis=anis if anis else 1.0, angles=angles if angles else 0.0)
                    except Exception as e:
                        mismatch(ctx, state, "constructor raised %r" % e, desc(name, dim, opt, bp))
                        continue
                    pre = [("z", code), p[0], p[1], p[2], ("z", dim), float(m.var), float(m.len_scale), float(m.nugget), float(m.rescale)]
                    scale = m.var + m.nugget
                    sub = lags_d if bi < 2 else lags_d[::3]
                    for h in sub:
                        r = float(h * m.len_rescaled)
                        ra = np.array([r])
                        with np.errstate(all="ignore"):
                            want = (f1(m.correlation(ra)), f1(m.covariance(ra)), f1(m.variogram(ra)))
                            wn = (f1(m.vario_nugget(ra)), f1(m.cov_nugget(ra)))
                        got = drv.call("funcs", *pre, r)
                        gn = drv.call("nugget", *pre, r)
                        n += 2
                        ctx.count(("funcs", name, dim, oi, bi, h) if h > 0 else None, hist=dict(stage="funcs", cls=name, dim=dim))
                        if not (same(want[0], got[0]) and same(want[1], got[1], scale) and same(want[2], got[2], scale)):
                            mismatch(ctx, state, "correlation/covariance/variogram(%s)" % name, desc(name, dim, opt, bp, r=r, impl=want, model=got))
                        if not (same(wn[0], gn[0], scale) and same(wn[1], gn[1], scale)):
                            mismatch(ctx, state, "vario_nugget/cov_nugget(%s)" % name, desc(name, dim, opt, bp, r=r, impl=wn, model=gn))
                    # axis / yadrenko / spatial variants on a few lags (signed)
                    for h in (list(rng.choice(sub[2:], size=2, replace=False)) + [-0.37]):
                        r = float(h * m.len_rescaled)
                        for axis in range(dim):
                            with np.errstate(all="ignore"):
                                want = (f1(m.cor_axis(np.array([r]), axis)), f1(m.cov_axis(np.array([r]), axis)), f1(m.vario_axis(np.array([r]), axis)))
                            got = drv.call("axis", *pre, np.array(anis + [1.0]), ("n", axis), r)
                            n += 1
                            ctx.count(("axis", name, dim, oi, bi, axis, float(h)), hist=dict(stage="axis", cls=name, dim=dim))
                            if not (same(want[0], got[0]) and same(want[1], got[1], scale) and same(want[2], got[2], scale)):
                                mismatch(ctx, state, "axis variants(%s)" % name, desc(name, dim, opt, bp, r=r, axis=axis, anis=anis, impl=want, model=got))
                        pos = rng.normal(size=dim) * abs(r) + (0.0 if h > 0 else 0.0)
                        M = matrix_isometrize(dim, m.angles, m.anis)
                        with np.errstate(all="ignore"):
                            want = (f1(m.cor_spatial(pos)), f1(m.cov_spatial(pos)), f1(m.vario_spatial(pos)))
                        got = drv.call("spatial", *pre, np.asarray(M, dtype=float).reshape(dim, dim), np.asarray(pos, dtype=float))
                        n += 1
                        ctx.count(("spatial", name, dim, oi, bi, float(h)), hist=dict(stage="spatial", cls=name, dim=dim))
                        if not (same(want[0], got[0], 1e3) and same(want[1], got[1], scale * 1e3) and same(want[2], got[2], scale * 1e3)):
                            mismatch(ctx, state, "spatial variants(%s)" % name, desc(name, dim, opt, bp, pos=list(pos), impl=want, model=got))
                        geo = float(m.geo_scale)
                        zeta = abs(r)
                        with np.errstate(all="ignore"):
                            want = (f1(m.cor_yadrenko(np.array([zeta]))), f1(m.cov_yadrenko(np.array([zeta]))), f1(m.vario_yadrenko(np.array([zeta]))))
                        got = drv.call("yadrenko", *pre, geo, zeta)
                        n += 1
                        if not (same(want[0], got[0], 1e3) and same(want[1], got[1], scale * 1e3) and same(want[2], got[2], scale * 1e3)):
                            mismatch(ctx, state, "yadrenko variants(%s)" % name, desc(name, dim, opt, bp, zeta=zeta, impl=want, model=got))
                    # integral scale closed forms and the setter
                    if code <= 5:
                        want = float(m.integral_scale)
                        got = drv.call("intscale", ("z", code), p[0], float(m.len_rescaled))
                        n += 1
                        ctx.count(("intscale", name, dim, oi, bi), hist=dict(stage="intscale", cls=name, dim=dim))
                        if got is None or not same(want, got):
                            mismatch(ctx, state, "calc_integral_scale(%s)" % name, desc(name, dim, opt, bp, impl=want, model=got))
                        target = float(np.exp(rng.uniform(-2, 2)))
                        try:
                            m2 = make(name, dim, opt, var, ls, nug, resc, integral_scale=target)
                            want = float(m2.len_scale)
                        except ValueError:
                            want = None
                        got = drv.call("set_intscale", ("z", code), p[0], float(m.rescale), target)
                        n += 1
                        if (want is None) != (got is None) or (want is not None and not same(want, got)):
                            mismatch(ctx, state, "integral_scale setter(%s)" % name, desc(name, dim, opt, bp, target=target, impl=want, model=got))
                    if name in TPL:
                        want = float(m.var_factor())
                        got = drv.call("tpl_var_factor", float(m.len_scale), float(m.rescale), float(opt["len_low"]), float(opt["hurst"]))
                        n += 1
                        if not same(want, got):
                            mismatch(ctx, state, "var_factor(%s)" % name, desc(name, dim, opt, bp, impl=want, model=got))
        # yadrenko on a real lat-lon model (geo_scale != 1)
        try:
            opt = opt_values(name, 3, rng, "quick")[0]
            geo = float(np.exp(rng.uniform(0, 9)))
            m = getattr(gs, name)(latlon=True, geo_scale=geo, var=1.3, len_scale=0.4 * geo, nugget=0.2, **opt)
            p = slots(name, opt)
            pre = [("z", code), p[0], p[1], p[2], ("z", 3), float(m.var), float(m.len_scale), float(m.nugget), float(m.rescale)]
            for zeta in (0.0, 1e-9 * geo, 0.1 * geo, 1.0 * geo, np.pi * geo):
                want = (f1(m.cor_yadrenko(np.array([zeta]))), f1(m.cov_yadrenko(np.array([zeta]))), f1(m.vario_yadrenko(np.array([zeta]))))
                got = drv.call("yadrenko", *pre, geo, float(zeta))
                n += 1
                ctx.count(("yadrenko", name, float(zeta / geo)), hist=dict(stage="yadrenko", cls=name, dim=3))
                if not (same(want[0], got[0], 1e3) and same(want[1], got[1], 1.5e3) and same(want[2], got[2], 1.5e3)):
                    mismatch(ctx, state, "yadrenko variants(latlon %s)" % name, dict(cls=name, geo=geo, zeta=zeta, impl=want, model=got))
        except Exception as e:
            mismatch(ctx, state, "latlon model raised %r" % e, dict(cls=name))
    # 2D isometrize matrix written out in the model = matrix_isometrize(2, angle, anis)
    for _ in range(20):
        ang = float(rng.uniform(-4, 4))
        an = float(np.exp(rng.uniform(-2, 2)))
        want = matrix_isometrize(2, [ang], [an])
        got = drv.call("isometrize2", ang, an)
        n += 1
        ctx.count(("isometrize2", ang), hist=dict(stage="isometrize2"))
        if not C.close(want, got, rtol=TOL, atol=1e-15):
            mismatch(ctx, state, "matrix_isometrize(2)", dict(angle=ang, anis=an, impl=want.tolist(), model=got.tolist()))
    # E. method derivation: user classes through every subset of the four methods
    n += derive_correspondence(ctx, rng, drv, state)
    # default_arg_from_bounds
    for lo, hi in [(0.0, 2.0), (-np.inf, 3.0), (0.5, np.inf), (-np.inf, np.inf), (-7.0, -2.0), (0.2, 30.0)]:
        want = float(T.default_arg_from_bounds([lo, hi]))
        got = drv.call("default_arg", bool(np.isfinite(lo)), float(lo) if np.isfinite(lo) else 0.0,
                       bool(np.isfinite(hi)), float(hi) if np.isfinite(hi) else 0.0)
        n += 1
        ctx.count(("default_arg", lo, hi), hist=dict(stage="default_arg"))
        if not same(want, got):
            mismatch(ctx, state, "default_arg_from_bounds", dict(bounds=[lo, hi], impl=want, model=got))
    want = float(gs.Gaussian(dim=1).default_rescale())
    if not same(want, drv.call("rescale_gaussian")):
        mismatch(ctx, state, "Gaussian.default_rescale", dict(impl=want))
    ctx.notes.append("correspondence: %d model evaluations, %d driver calls" % (n, drv.calls))


def user_class(shape, mask):
    """a CovModel subclass providing exactly the methods in mask = (cor, correlation, covariance, variogram);
    bodies identical to C03_Model.user_gauss / user_expo"""
    from gstools import CovModel
    body = {}
    if shape == 0:
        if mask[0]:
            body["cor"] = lambda self, h: np.exp(-(h ** 2))
        if mask[1]:
            body["correlation"] = lambda self, r: np.exp(-((r / self.len_rescaled) ** 2))
        if mask[2]:
            body["covariance"] = lambda self, r: self.var * np.exp(-((r / self.len_rescaled) ** 2))
        if mask[3]:
            body["variogram"] = lambda self, r: self.var * (1.0 - np.exp(-((r / self.len_rescaled) ** 2))) + self.nugget
    else:
        if mask[0]:
            body["cor"] = lambda self, h: np.exp(-h)
        if mask[1]:
            body["correlation"] = lambda self, r: np.exp(-(np.abs(r) / self.len_rescaled))
        if mask[2]:
            body["covariance"] = lambda self, r: self.var * np.exp(-(np.abs(r) / self.len_rescaled))
        if mask[3]:
            body["variogram"] = lambda self, r: self.var * (1.0 - np.exp(-(np.abs(r) / self.len_rescaled))) + self.nugget
    if shape in (2, 3):
        # hole-effect shapes (negative lobes), bodies = C03_Model.user_from_cor cor_wave / (cor_dampcos a)
        if shape == 2:
            def base(self, h):
                h = np.asarray(h, dtype=np.double)
                hh = np.where(h == 0, 1.0, h)
                return np.where(h == 0, 1.0, np.sin(hh) / hh)
            body = dict(fix_dim=lambda self: 3)                       # sin(h)/h is a valid model in 3D: fixed dimension
        else:
            def base(self, h):
                h = np.asarray(h, dtype=np.double)
                return np.exp(-(self.damp * h)) * np.cos(h)
            body = dict(default_opt_arg=lambda self: {"damp": 1.0}, default_opt_arg_bounds=lambda self: {"damp": [0.5, 10.0]})
        if mask[0]:
            body["cor"] = base
        if mask[1]:
            body["correlation"] = lambda self, r: base(self, np.abs(r) / self.len_rescaled)
        if mask[2]:
            body["covariance"] = lambda self, r: self.var * base(self, np.abs(r) / self.len_rescaled)
        if mask[3]:
            body["variogram"] = lambda self, r: self.var * (1.0 - base(self, np.abs(r) / self.len_rescaled)) + self.nugget
    return type("User%d_%s" % (shape, "".join(str(int(b)) for b in mask)), (CovModel,), body)


def user_make(shape, mask, dim, var, ls, nug, resc, damp=1.3):
    cls = user_class(shape, mask)
    kw = dict(damp=damp) if shape == 3 else {}
    return cls(dim=3 if shape == 2 else dim, var=var, len_scale=ls, nugget=nug, rescale=resc, **kw)


def user_ref(shape, xs, damp=1.3):
    xs = np.asarray(xs, dtype=float)
    if shape == 0:
        return np.exp(-(xs ** 2))
    if shape == 1:
        return np.exp(-xs)
    if shape == 2:
        return np.where(xs == 0, 1.0, np.sin(np.where(xs == 0, 1.0, xs)) / np.where(xs == 0, 1.0, xs))
    return np.exp(-(damp * xs)) * np.cos(xs)


FNAMES = ["cor", "correlation", "covariance", "variogram"]


def derive_correspondence(ctx, rng, drv, state):
    n = 0
    damp = 1.3
    for shape in (0, 1, 2, 3):
        for mask in itertools.product([False, True], repeat=4):
            try:
                cls = user_class(shape, mask)
                err = None
            except TypeError:
                cls, err = None, "TypeError"
            for bp in [(1.0, 1.0, 0.0, 1.0), (2.5, 3.7, 0.4, 1.7), (float(np.exp(rng.uniform(-2, 2))), float(np.exp(rng.uniform(-2, 2))), float(np.exp(rng.uniform(-3, 0))), float(np.exp(rng.uniform(-1, 1))))]:
                var, ls, nug, resc = bp
                m = user_make(shape, mask, 2, var, ls, nug, resc, damp) if cls else None
                lr = ls / resc
                for fi, fname in enumerate(FNAMES):
                    # (4.5 and 2.2 normalised: negative lobes of the hole-effect shapes)
                    for x in (0.0, 0.3 * lr if fi else 0.3, 1.0, 2.9, -0.8, 4.5 * lr if fi else 4.5, 2.2 * lr if fi else 2.2):
                        if x < 0 and fi == 0 and shape >= 2:
                            continue        # cor is only called with h >= 0
                        got = drv.call("derive_user", ("z", shape), damp, *[bool(b) for b in mask], var, nug, lr, ("z", fi), float(x))
                        n += 1
                        ctx.count(("derive", shape, mask, bp, fname, x) if any(mask) else None, hist=dict(stage="derive", defined=sum(mask)))
                        if cls is None:
                            if got is not None:
                                mismatch(ctx, state, "abstract class accepted by the model", dict(mask=mask))
                            continue
                        want = f1(getattr(m, fname)(np.array([x])))
                        if got is None or not same(want, got, var + nug):
                            mismatch(ctx, state, "derive(%s)" % fname, dict(shape=shape, mask=mask, bp=bp, x=x, impl=want, model=got))
            if not any(mask) and err != "TypeError":
                mismatch(ctx, state, "class without any of the four methods was not rejected", dict(mask=mask))
    return n


# ----------------------------------------------------------------------------------------------- probes
def viol(ctx, stage, what, case, key):
    ctx.violation("probe: " + stage, what, case, key=key)


def probes(ctx, rng, drv=None):
    import time
    times = []
    for fn, args in ((probe_history, (drv,)), (probe_dim_constructions, (drv,)), (probe_axis_kinds, (drv,)),
                     (probe_prescribed_integral_scale, (drv,)), (probe_near_special_orders, (drv,)), (probe_scale_equivariance, (drv,)),
                     (probe_closed_forms, ()), (probe_identities, ()), (probe_user_subclasses, ()), (probe_scales, ()), (probe_variants, ())):
        t = time.time()
        fn(ctx, rng, *args)
        times.append("%s %.0f" % (fn.__name__[6:], time.time() - t))
    ctx.notes.append("probe seconds: " + ", ".join(times))



# ----------------------------------------------------------------------------------------------- temporal / lat-lon constructions
# documented defaults of the optional arguments (docstrings), d = model.dim
DOC_DEFAULTS = {
    "Stable": lambda d: dict(alpha=1.5), "Matern": lambda d: dict(nu=1.0), "Integral": lambda d: dict(nu=1.0),
    "Rational": lambda d: dict(alpha=1.0), "SuperSpherical": lambda d: dict(nu=(d - 1) / 2), "JBessel": lambda d: dict(nu=d / 2),
    "TPLSimple": lambda d: dict(nu=(d + 1) / 2), "TPLGaussian": lambda d: dict(hurst=0.5, len_low=0.0),
    "TPLExponential": lambda d: dict(hurst=0.25, len_low=0.0), "TPLStable": lambda d: dict(hurst=0.5, alpha=1.5, len_low=0.0),
}
DIM_LAGS = [0.0, 1e-9, 0.05, 0.3, 0.7, 0.95, 1.0, 1.3, 4.0]


def probe_dim_constructions(ctx, rng, drv):
    """every class built as spatio-temporal, lat-lon and lat-lon + temporal model (dim = spatial_dim + 1, 3, 4): the
    documented formula and the documented defaults / bounds of the optional arguments use d = model.dim"""
    import gstools as gs
    mp, doc_cor, doc_correlation = doc_formulas()
    builds = [dict(temporal=True, spatial_dim=1), dict(temporal=True, spatial_dim=2), dict(temporal=True, spatial_dim=3),
              dict(latlon=True), dict(latlon=True, temporal=True)]
    for name, code, _ in CLASSES:
        for kw in builds:
            geo = 1.0
            for use_defaults in (True, False):
                try:
                    if use_defaults:
                        m = getattr(gs, name)(var=1.7, len_scale=1.3, nugget=0.2, **kw)
                        opt = DOC_DEFAULTS.get(name, lambda d: {})(m.dim)
                        have = {o: float(getattr(m, o)) for o in m.opt_arg}
                        if have != {k: float(v) for k, v in opt.items()}:
                            viol(ctx, "dimension constructions", "%s(%s): default optional arguments %r differ from the documented ones %r for dim=%d"
                                 % (name, kw, have, opt, m.dim), dict(cls=name, build=kw, dim=int(m.dim), got=have, documented=opt), "%s:default-opt-arg" % name)
                            continue
                    else:
                        d = 3 if kw.get("latlon") else kw["spatial_dim"]
                        d += int(bool(kw.get("temporal")))
                        opts = opt_values(name, d, rng, "quick")
                        opt = opts[int(rng.integers(len(opts)))]
                        if not opt:
                            continue
                        m = getattr(gs, name)(var=1.7, len_scale=1.3, nugget=0.2, rescale=0.8, **kw, **opt)
                except Exception as e:
                    viol(ctx, "dimension constructions", "%s(%s) raised %r" % (name, kw, e), dict(cls=name, build=kw), "%s:construction-exception" % name)
                    continue
                dim = int(m.dim)
                r = np.array(DIM_LAGS) * m.len_rescaled
                with np.errstate(all="ignore"):
                    corr = np.asarray(m.correlation(r), dtype=float)
                    vario = np.asarray(m.variogram(r), dtype=float)
                    corh = np.asarray(m.cor(np.array(DIM_LAGS)), dtype=float)
                p = slots(name, opt)
                pre = [("z", code), p[0], p[1], p[2], ("z", dim), float(m.var), float(m.len_scale), float(m.nugget), float(m.rescale)]
                sill = m.var + m.nugget
                for h, ri, c, g, ch in zip(DIM_LAGS, r, corr, vario, corh):
                    ctx.count(("dimbuild", name, tuple(sorted(kw.items())), use_defaults, h) if h > 0 else None,
                              hist=dict(stage="probe:dim-constructions", cls=name, dim=dim))
                    ref = doc_correlation(name, ri, opt, dim, m.len_scale, m.rescale)
                    e_c = abs(float(mp.mpf(float(c)) - ref)) if np.isfinite(c) else np.inf
                    e_g = abs(float(mp.mpf(float(g)) - (m.var * (1 - ref) + m.nugget))) if np.isfinite(g) else np.inf
                    if e_c > TOL or e_g > TOL * sill:
                        viol(ctx, "dimension constructions",
                             "%s(%s), dim=%d: correlation %r at h=%g differs from the documented formula with d = dim: %s" % (name, kw, dim, float(c), h, mp.nstr(ref, 17)),
                             dict(cls=name, build=kw, dim=dim, opt=opt, var=float(m.var), len_scale=float(m.len_scale), nugget=float(m.nugget), rescale=float(m.rescale),
                                  h=h, r=float(ri), correlation=float(c), variogram=float(g), documented_correlation=mp.nstr(ref, 30)),
                             finding_key(name, opt, h, float(c), m) if finding_key(name, opt, h, float(c), m) != "%s:closed-form" % name else "%s:closed-form-dim" % name)
                        break
                    if drv is not None:
                        got = drv.call("funcs", *pre, float(ri))
                        gc = drv.call("cor", ("z", code), p[0], p[1], ("z", dim), float(h))
                        if not (same(c, got[0]) and same(g, got[2], sill) and (same(ch, gc) or (name in TPL and opt.get("len_low", 0) > 0 and False))):
                            viol(ctx, "dimension constructions",
                                 "%s(%s), dim=%d: implementation and model (d = dim) differ at h=%g: correlation %r / %r, cor %r / %r" % (name, kw, dim, h, float(c), got[0], float(ch), gc),
                                 dict(cls=name, build=kw, dim=dim, opt=opt, h=h, r=float(ri), impl=[float(c), float(g), float(ch)], model=[got[0], got[2], gc]),
                                 "%s:model-dim" % name)
                            break


# ----------------------------------------------------------------------------------------------- *_axis for every model kind
MODEL_KINDS = [dict(dim=1), dict(dim=2), dict(dim=3), dict(temporal=True, spatial_dim=1), dict(temporal=True, spatial_dim=2),
               dict(temporal=True, spatial_dim=3), dict(latlon=True), dict(latlon=True, temporal=True)]


def probe_axis_kinds(ctx, rng, drv):
    """vario_axis / cov_axis / cor_axis for EVERY axis of every model kind (plain, temporal, lat-lon, lat-lon + temporal),
    anisotropy ratio != 1 on every axis that can have one: the value is the isotropic function of |r| / anis[axis-1]
    (theorem C03_variants_axis); the time ratio of temporal models must survive the construction"""
    import gstools as gs
    for name, code, _ in CLASSES:
        for kw in MODEL_KINDS:
            d = kw.get("dim", 3 if kw.get("latlon") else kw.get("spatial_dim", 0) + 1)
            d += int(bool(kw.get("latlon") and kw.get("temporal")))
            anis_in = [float(np.exp(rng.uniform(0.4, 1.5) * rng.choice([-1, 1]))) for _ in range(d - 1)]
            try:
                m = getattr(gs, name)(var=1.7, len_scale=1.3, nugget=0.2, anis=anis_in if anis_in else 1.0, **kw)
            except Exception as e:
                viol(ctx, "axis variants", "%s(%s) raised %r" % (name, kw, e), dict(cls=name, build=kw), "%s:construction-exception" % name)
                continue
            anis = [float(a) for a in m.anis]
            want_anis = list(anis_in)
            if kw.get("latlon"):
                want_anis = [1.0, 1.0] + (anis_in[-1:] if kw.get("temporal") else [])
            if int(m.dim) != d or not np.allclose(anis, want_anis, rtol=1e-14, atol=0):
                viol(ctx, "axis variants", "%s(%s, anis=%r): dim %d, anis %r, expected dim %d, anis %r" % (name, kw, anis_in, m.dim, anis, d, want_anis),
                     dict(cls=name, build=kw, anis_given=anis_in, anis=anis, dim=int(m.dim)), "%s:anis-kept" % name)
                continue
            opt = {o: float(getattr(m, o)) for o in m.opt_arg}
            p = slots(name, opt)
            pre = [("z", code), p[0], p[1], p[2], ("z", d), float(m.var), float(m.len_scale), float(m.nugget), float(m.rescale)]
            sill = m.var + m.nugget
            r = np.array([0.3, -0.7, 1e-9, 2.0]) * m.len_rescaled
            for axis in range(d):
                fac = 1.0 if axis == 0 else anis[axis - 1]
                lag = r if axis == 0 else np.abs(r) / fac
                for tag, fa, iso, sc in (("cor", m.cor_axis, m.correlation, 1.0), ("cov", m.cov_axis, m.covariance, sill), ("vario", m.vario_axis, m.variogram, sill)):
                    with np.errstate(all="ignore"):
                        a, b = np.asarray(fa(r, axis), dtype=float), np.asarray(iso(lag), dtype=float)
                    ctx.count(("axis-kind", name, tuple(sorted(kw.items())), axis, tag), n=len(r), hist=dict(stage="probe:axis-kinds", cls=name, kind=str(sorted(kw))))
                    fin = np.isfinite(a) & np.isfinite(b)
                    if not (np.abs(a - b)[fin] <= 1e-12 * sc).all() or (np.isfinite(a) != np.isfinite(b)).any():
                        i = int(np.argmax(np.where(fin, np.abs(a - b), np.inf)))
                        viol(ctx, "axis variants", "%s(%s): %s_axis(r=%g, axis=%d) = %r but the isotropic function of |r|/anis[%d] (anis=%r) is %r"
                             % (name, kw, tag, r[i], axis, float(a[i]), axis - 1, anis, float(b[i])),
                             dict(cls=name, build=kw, anis=anis, axis=axis, r=float(r[i]), got=float(a[i]), want=float(b[i])), "%s:axis-variant" % name)
                        break
                if drv is not None:
                    for ri in r:
                        got = drv.call("axis", *pre, np.array(anis + [1.0]), ("n", axis), float(ri))
                        with np.errstate(all="ignore"):
                            want = (f1(m.cor_axis(np.array([ri]), axis)), f1(m.cov_axis(np.array([ri]), axis)), f1(m.vario_axis(np.array([ri]), axis)))
                        if not (same(want[0], got[0]) and same(want[1], got[1], sill) and same(want[2], got[2], sill)):
                            viol(ctx, "axis variants", "%s(%s): *_axis(r=%g, axis=%d) implementation %r, model %r" % (name, kw, ri, axis, want, got),
                                 dict(cls=name, build=kw, anis=anis, axis=axis, r=float(ri), impl=want, model=list(got)), "%s:model-axis-variant" % name)
                            break


# ----------------------------------------------------------------------------------------------- prescribed integral scale
SETTER_RTOL, SETTER_ATOL = 1e-3, 1e-8      # np.isclose(self.integral_scale, integral_scale, rtol=1e-3) in the setter


def probe_prescribed_integral_scale(ctx, rng, drv):
    """integral_scale prescribed through the constructor and the setter, scalar and list, every class; TPL classes with
    len_low over a geometric range.  Theorem C03_integral_scale_setter_accepts_iff instantiated with calc = the table
    integral of the documented correlation: the call must be accepted iff the candidate len_scale = target / calc(1) gives a
    scale within 1e-8 + 1e-3 |target| of the prescribed one; when accepted, the reported scale AND the integral of the
    correlation of the resulting model are within that tolerance (tight tolerances where the scale is proportional)"""
    import gstools as gs
    mp, doc_cor, doc_correlation = doc_formulas()
    mp.mp.dps = 30
    ratios = [10.0 ** (-k / 2.0) for k in range(0, 13)] if ctx.tier == "thorough" else [1e-6, 1e-4, 1e-3, 3e-3, 1e-2, 3e-2, 0.1, 0.3, 1.0]
    for name, code, _ in CLASSES:
        if name == "JBessel":
            continue        # quadrature of the oscillating correlation (open finding JBessel:integral-scale-quad)
        dim = primary_dim(name)
        cases = []
        if name in TPL:
            for hi, hurst in enumerate((0.11, 0.5, 0.9) if ctx.tier == "thorough" else (0.11, 0.6)):
                for qi, q in enumerate(ratios):
                    if ctx.tier != "thorough" and (qi + hi) % 2:
                        continue            # quick: the two Hurst values share the len_low grid alternately
                    o = dict(hurst=hurst, len_low=q)        # target ~ 1: len_low relative to the resulting len_scale ~ q
                    if name == "TPLStable":
                        o["alpha"] = float(rng.choice([0.5, 1.5, 2.0]))
                    cases.append(o)
            cases.append(dict(hurst=0.5, len_low=0.0, **({"alpha": 1.5} if name == "TPLStable" else {})))
        else:
            opts = opt_values(name, dim, rng, "quick")
            cases = [opts[0], opts[-1]] if len(opts) > 1 else opts
        for opt in cases:
            if name == "Rational" and opt["alpha"] <= 0.5:
                continue
            target = float(np.exp(rng.uniform(-0.7, 0.7)))
            resc = float(rng.choice([1.0, 0.8]))

            def scale_of(len_scale):
                """integral of the documented correlation of the class with this len_scale (table integrals)"""
                if name in TPL:
                    return float(exact_integral_tpl(name, opt, len_scale, resc, mp))
                return float(exact_integral(name, opt, dim, mp, doc_cor)) * len_scale / resc
            cand = target / scale_of(1.0)
            dev = abs(scale_of(cand) - target)
            tol = SETTER_ATOL + SETTER_RTOL * target
            hows = ("constructor", "setter", "constructor-list", "setter-list")
            if name in TPL:      # quadrature classes are slow: alternate the entry point along the len_low grid (quick), list forms once
                k = cases.index(opt)
                hows = ((hows[k % 2],) if ctx.tier != "thorough" else hows[:2]) if k < len(cases) - 1 else hows
            for how in hows:
                d = dim if not how.endswith("list") else max(dim, 2)
                tval = target if not how.endswith("list") else [target] + [0.6 * target] * (d - 1)
                try:
                    with np.errstate(all="ignore"):
                        if how.startswith("constructor"):
                            m = make(name, d, opt, 1.7, 0.37, 0.2, resc, integral_scale=tval)
                        else:
                            m = make(name, d, opt, 1.7, 0.37, 0.2, resc)
                            m.integral_scale = tval
                        rep = float(m.integral_scale)
                        vec = np.asarray(m.integral_scale_vec, dtype=float)
                    raised = None
                except ValueError as e:
                    raised = str(e)
                ctx.count(("prescribe", name, tuple(sorted(opt.items())), how), hist=dict(stage="probe:prescribed-integral-scale", cls=name, how=how))
                case = desc(name, d, opt, (1.7, 0.37, 0.2, resc), how=how, integral_scale=tval, candidate_len_scale=cand,
                            scale_of_candidate=scale_of(cand), acceptance_tolerance=tol)
                ctx.dist.setdefault("prescribe-outcome", {})
                oc = "refused" if raised is not None else "accepted"
                ctx.dist["prescribe-outcome"][oc] = ctx.dist["prescribe-outcome"].get(oc, 0) + 1
                if raised is not None:
                    if dev < 0.9 * tol:
                        viol(ctx, "prescribed integral scale", "%s (%s): integral_scale=%r refused (%s) although len_scale=%r gives %r (within %g)"
                             % (name, how, tval, raised, cand, scale_of(cand), tol), case, "%s:integral-scale-refused" % name)
                    continue
                if dev > 1.1 * tol:
                    viol(ctx, "prescribed integral scale",
                         "%s (%s): integral_scale=%r accepted, model reports %r, but the integral of its correlation is %r: off by %.3g > documented acceptance 1e-8 + 1e-3*|target| (a ValueError is due)"
                         % (name, how, tval, rep, scale_of(float(m.len_scale)), dev), dict(case, reported=rep, len_scale=float(m.len_scale)), "%s:integral-scale-accepted-beyond-tolerance" % name)
                    continue
                prop = not (name in TPL and opt.get("len_low", 0) > 0)
                # proportional classes: closed forms to rounding, quadrature classes 1e-4 (see probe_scales); else the documented acceptance
                t_rep = (1e-9 if code <= 5 else 1e-4) * target if prop else 1.05 * tol
                true_int = scale_of(float(m.len_scale))
                if not (abs(rep - target) <= t_rep and abs(true_int - target) <= max(t_rep, 1.05 * tol if not prop else 0)):
                    key = matern_gt20_key(opt, rep, float(m.len_rescaled), mp) if (name == "Matern" and opt["nu"] > 20) else "%s:integral-scale-setter" % name
                    viol(ctx, "prescribed integral scale", "%s (%s): integral_scale=%r prescribed; model reports %r, integral of its correlation %r"
                         % (name, how, tval, rep, true_int), dict(case, reported=rep, integral_of_correlation=true_int, len_scale=float(m.len_scale)), key)
                    continue
                if how.endswith("list"):
                    want = np.array([target] + [0.6 * target] * (d - 1))
                    if not np.allclose(vec, want * (rep / target), rtol=1e-12) or not np.allclose(np.asarray(m.anis, dtype=float), 0.6, rtol=1e-12):
                        viol(ctx, "prescribed integral scale", "%s (%s): integral_scale=%r gives integral_scale_vec %r, anis %r" % (name, how, tval, vec.tolist(), list(m.anis)),
                             dict(case, integral_scale_vec=vec.tolist(), anis=[float(a) for a in m.anis]), "%s:integral-scale-list" % name)
                if drv is not None and code <= 5 and not how.endswith("list"):
                    ml = drv.call("set_intscale", ("z", code), slots(name, opt)[0], resc, target)
                    if ml is None or not same(float(m.len_scale), ml):
                        viol(ctx, "prescribed integral scale", "%s (%s): len_scale %r after prescribing %r, model %r" % (name, how, float(m.len_scale), target, ml),
                             case, "%s:model-integral-scale-setter" % name)


# ----------------------------------------------------------------------------------------------- orders next to integers / half-integers
NEAR_LAGS = [1e-6, 1e-3, 0.1, 0.5, 1.0, 2.0, 5.0]


def near_special_cases(tier):
    """(class, optional arguments, description) with every special-function order of the models approaching an integer or
    half-integer geometrically: |order - n| = 10^-j"""
    js = range(1, 13) if tier == "thorough" else (1, 4, 5, 6, 9, 12)
    out = []
    for j in js:
        d = 10.0 ** -j
        for sg in (1.0, -1.0):
            e = sg * d
            for n in (2, 7):                               # Integral: E_s with s = 1 + nu/2 = n +- d
                out.append(("Integral", dict(nu=2 * (n - 1) + 2 * e), "s=%d%+.0e" % (n, e)))
            out.append(("TPLExponential", dict(hurst=0.5 * (1 + e), len_low=0.0), "s=2%+.0e" % e))      # s = 1 + 2H
            out.append(("TPLExponential", dict(hurst=0.5 * (1 + e), len_low=0.3), "s=2%+.0e" % e))
            out.append(("TPLStable", dict(hurst=0.25 * (1 + e), alpha=0.5, len_low=0.0), "s=2%+.0e" % e))   # s = 1 + 2H/alpha
            for c in (0.5, 1.0, 2.5):                      # Matern: K_nu, Gamma(nu)
                out.append(("Matern", dict(nu=c + e), "nu=%g%+.0e" % (c, e)))
            for c in (0.5, 1.0, 2.0):                      # JBessel: J_nu, Gamma(nu + 1)
                out.append(("JBessel", dict(nu=c + e), "nu=%g%+.0e" % (c, e)))
            for c in (1.0, 1.5, 2.0):                      # SuperSpherical: 2F1(1/2, -nu; 3/2; .)
                out.append(("SuperSpherical", dict(nu=c + e), "nu=%g%+.0e" % (c, e)))
            out.append(("Stable", dict(alpha=1.0 + e), "alpha=1%+.0e" % e))
            out.append(("Rational", dict(alpha=1.0 + e), "alpha=1%+.0e" % e))
        out.append(("TPLGaussian", dict(hurst=1.0 - d, len_low=0.0), "s=2-%.0e" % d))                     # s = 1 + H
        out.append(("Rational", dict(alpha=0.5 + d), "alpha=0.5+%.0e" % d))                               # Gamma(alpha - 1/2)
    return out


def probe_near_special_orders(ctx, rng, drv):
    mp, doc_cor, doc_correlation = doc_formulas()
    for name, opt, what in near_special_cases(ctx.tier):
        code = CODE[name]
        dim = 1
        try:
            m = make(name, dim, opt, 1.7, 1.3, 0.2, 0.8)
            r = np.array(NEAR_LAGS) * m.len_rescaled
            with np.errstate(all="ignore"):
                corr = np.asarray(m.correlation(r), dtype=float)
        except Exception as e:
            viol(ctx, "orders near integers", "%s(%s) raised %r" % (name, opt, e), desc(name, dim, opt), "%s:exception" % name)
            continue
        p = slots(name, opt)
        pre = [("z", code), p[0], p[1], p[2], ("z", dim), float(m.var), float(m.len_scale), float(m.nugget), float(m.rescale)]
        for h, ri, c in zip(NEAR_LAGS, r, corr):
            ctx.count(("near", name, what, h), hist=dict(stage="probe:orders-near-integers", cls=name))
            ref = doc_correlation(name, ri, opt, dim, m.len_scale, m.rescale)
            e_c = abs(float(mp.mpf(float(c)) - ref)) if np.isfinite(c) else np.inf
            if e_c > TOL:
                viol(ctx, "orders near integers", "%s with %s (%s): correlation %r at h=%g, documented %s" % (name, opt, what, float(c), h, mp.nstr(ref, 17)),
                     desc(name, dim, opt, (1.7, 1.3, 0.2, 0.8), h=h, r=float(ri), correlation=float(c), documented_correlation=mp.nstr(ref, 30), order=what),
                     finding_key(name, opt, h, float(c), m))
                break
            if drv is not None:
                got = drv.call("funcs", *pre, float(ri))
                if not same(c, got[0]):
                    viol(ctx, "orders near integers", "%s with %s (%s): implementation %r and model %r differ at h=%g" % (name, opt, what, float(c), got[0], h),
                         desc(name, dim, opt, (1.7, 1.3, 0.2, 0.8), h=h, r=float(ri), impl=float(c), model=got[0]), "%s:model-near-special-order" % name)
                    break
        # closed-form integral scales next to the poles / special values of their Gamma and Beta factors
        if code <= 5 and not (name == "Rational" and opt["alpha"] <= 0.5):
            ref = exact_integral(name, opt, dim, mp, doc_cor) * m.len_rescaled
            got = float(m.integral_scale)
            # Rational alpha -> 1/2: the scale ~ 1/(alpha - 1/2) has condition number 1/(2 (alpha - 1/2)) w.r.t. rounding of alpha - 0.5
            cond = max(1.0, 1.0 / abs(opt["alpha"] - 0.5)) if name == "Rational" else 1.0
            if not abs(got - float(ref)) <= (1e-9 + 4e-16 * cond) * float(ref):
                viol(ctx, "orders near integers", "%s with %s (%s): integral_scale %r, integral of the documented correlation %s" % (name, opt, what, got, mp.nstr(ref, 17)),
                     desc(name, dim, opt, (1.7, 1.3, 0.2, 0.8), integral_scale=got, integral_of_correlation=mp.nstr(ref, 25)),
                     matern_gt20_key(opt, got, m.len_rescaled, mp) if (name == "Matern" and opt["nu"] > 20) else "%s:integral-scale" % name)


# ----------------------------------------------------------------------------------------------- scale equivariance
SCALES = [1e-6, 1e-4, 1e-2, 1.0, 1e2, 1e4, 1e6, 1e8]


def probe_scale_equivariance(ctx, rng, drv):
    """len_scale (and len_low of the TPL classes) multiplied by L in 1e-6 .. 1e8: every derived scale quantity is L times its
    value at L = 1 and the functions of r / L are unchanged (theorem C03_scale_equivariance)"""
    hs = np.array([0.0, 1e-3, 0.2, 0.9, 1.0, 2.5])
    for name, code, _ in CLASSES:
        dim = primary_dim(name)
        opts = opt_values(name, dim, rng, "quick")
        picks = [opts[0], opts[len(opts) // 2]] if len(opts) > 1 else opts
        if ctx.tier == "thorough" and len(opts) > 2:
            picks.append(opts[-1])
        for opt in picks:
            if name == "Rational" and opt["alpha"] <= 0.5:
                continue

            def build(L):
                o = dict(opt)
                if "len_low" in o:
                    o["len_low"] = o["len_low"] * L
                return make(name, dim, o, 1.7, 1.3 * L, 0.2, 0.8)
            try:
                m1 = build(1.0)
                with np.errstate(all="ignore"):
                    base = dict(integral_scale=float(m1.integral_scale), percentile_scale=float(m1.percentile_scale(0.5)),
                                len_rescaled=float(m1.len_rescaled), correlation=np.asarray(m1.correlation(hs * m1.len_rescaled), dtype=float))
            except Exception as e:
                viol(ctx, "scale equivariance", "%s raised %r at len_scale 1.3" % (name, e), desc(name, dim, opt), "%s:exception" % name)
                continue
            for L in (SCALES if ctx.tier == "thorough" else (1e-6, 1e-4, 1.0, 1e6, 1e8)):
                try:
                    m = build(L)
                    with np.errstate(all="ignore"):
                        got = dict(integral_scale=float(m.integral_scale), percentile_scale=float(m.percentile_scale(0.5)),
                                   len_rescaled=float(m.len_rescaled), correlation=np.asarray(m.correlation(hs * m.len_rescaled), dtype=float))
                except Exception as e:
                    viol(ctx, "scale equivariance", "%s raised %r at len_scale %g" % (name, e, 1.3 * L), desc(name, dim, opt, L=L), "%s:exception" % name)
                    continue
                ctx.count(("equivariance", name, tuple(sorted(opt.items())), L), n=4, hist=dict(stage="probe:scale-equivariance", cls=name))
                # identical normalised integrand / root problem: only rounding of h * L / L differs; root: xtol 1.5e-8
                tol = dict(integral_scale=1e-6 if name == "JBessel" else 1e-9, percentile_scale=1e-6, len_rescaled=1e-14)
                for q in ("integral_scale", "percentile_scale", "len_rescaled"):
                    a, b = got[q], L * base[q]
                    okq = (np.isfinite(a) and abs(a - b) <= tol[q] * abs(b)) or (not np.isfinite(b) and not np.isfinite(a))
                    if not okq and q == "percentile_scale" and name in ROOT_FAILS:
                        continue        # unchecked root (known finding): not a question of scale
                    if not okq:
                        viol(ctx, "scale equivariance", "%s: %s = %r at len_scale %g but %g x (value at len_scale 1.3) = %r" % (name, q, a, 1.3 * L, L, b),
                             desc(name, dim, opt, (1.7, 1.3 * L, 0.2, 0.8), L=L, quantity=q, got=a, expected=b), "%s:scale-equivariance:%s" % (name, q))
                fin = np.isfinite(base["correlation"]) & np.isfinite(got["correlation"])
                if not (np.abs(got["correlation"] - base["correlation"])[fin] <= TOL).all():
                    i = int(np.argmax(np.where(fin, np.abs(got["correlation"] - base["correlation"]), 0)))
                    viol(ctx, "scale equivariance", "%s: correlation(h * len_rescaled) at len_scale %g differs from the one at len_scale 1.3" % (name, 1.3 * L),
                         desc(name, dim, opt, (1.7, 1.3 * L, 0.2, 0.8), L=L, h=float(hs[i]), got=float(got["correlation"][i]), expected=float(base["correlation"][i])),
                         "%s:scale-equivariance:correlation" % name)
                if drv is not None and code <= 5:
                    p = slots(name, opt)
                    mi = drv.call("intscale", ("z", code), p[0], float(m.len_rescaled))
                    if mi is None or not same(got["integral_scale"], mi):
                        viol(ctx, "scale equivariance", "%s: integral_scale %r differs from the model %r at len_scale %g" % (name, got["integral_scale"], mi, 1.3 * L),
                             desc(name, dim, opt, L=L), "%s:model-integral-scale" % name)


# ----------------------------------------------------------------------------------------------- histories on ONE object
HIST_LAGS = np.array([0.0, 0.05, 0.4, 1.0, 2.7])


def hist_opt_value(name, arg, rng):
    """a value of the optional argument that is admissible in every dimension 1-3"""
    u = rng.uniform
    if name == "Matern":
        return float(rng.choice([0.5, 1.5, 5.0, 19.0, 25.0]))
    if name == "Integral":
        return float(u(0.1, 30.0))
    if name == "Rational":
        return float(u(0.6, 20.0))
    if name == "SuperSpherical":
        return float(u(1.0, 20.0))
    if name == "JBessel":
        return float(u(0.5, 10.0))
    if name == "TPLSimple":
        return float(u(2.0, 20.0))
    if arg == "hurst":
        return float(u(0.15, 0.95))
    if arg == "len_low":
        return float(rng.choice([0.0, 0.3, 2.0]))
    return float(u(0.3, 2.0))       # alpha of Stable / TPLStable


def hist_params(m):
    d = dict(dim=int(m.dim), var=float(m.var), len_scale=float(m.len_scale), nugget=float(m.nugget), rescale=float(m.rescale),
             anis=[float(a) for a in m.anis] or 1.0, angles=[float(a) for a in m.angles] or 0.0)
    d.update({o: float(getattr(m, o)) for o in m.opt_arg})
    return d


def hist_observe(m, name, heavy):
    """everything derived that a caller can read"""
    r = HIST_LAGS * m.len_rescaled
    with np.errstate(all="ignore"):
        out = dict(len_rescaled=m.len_rescaled, len_scale_vec=m.len_scale_vec, sill=m.sill, var=m.var,
                   correlation=m.correlation(r), covariance=m.covariance(r), variogram=m.variogram(r), cor=m.cor(HIST_LAGS),
                   cov_nugget=m.cov_nugget(r), vario_nugget=m.vario_nugget(r))
        if m.dim > 1:
            out["vario_axis"] = m.vario_axis(r, 1)
        if name in TPL:
            out["var_factor"] = m.var_factor()
            out["len_up"] = m.len_up
        if heavy:
            out["integral_scale"] = m.integral_scale
            out["integral_scale_vec"] = m.integral_scale_vec
            out["percentile_scale"] = m.percentile_scale(0.5)
    return {k: np.atleast_1d(np.asarray(v, dtype=float)) for k, v in out.items()}


def probe_history(ctx, rng, drv):
    """one object, randomised sequence of assignments interleaved with reads of every derived quantity; after each step
    the object must be indistinguishable from (a) a freshly constructed object with the same parameters and (b) the model
    evaluated on the current parameters (theorem C03_derived_from_current_state)"""
    import gstools as gs
    nseq = 6 if ctx.tier == "thorough" else 2
    nstep = 6 if ctx.tier == "thorough" else 4
    for name, code, slot_names in CLASSES:
        args = [a for a in slot_names if a is not None]
        for si in range(nseq):
            dim = int(rng.integers(1, 4))
            opt = {a: hist_opt_value(name, a, rng) for a in args}
            history = [("construct", dict(cls=name, dim=dim, var=1.3, len_scale=2.0, nugget=0.1, **opt))]
            try:
                m = getattr(gs, name)(dim=dim, var=1.3, len_scale=2.0, nugget=0.1, **opt)
                hist_observe(m, name, True)          # first read (fills whatever the object may keep)
            except Exception as e:
                viol(ctx, "history", "constructor / first read raised %r" % e, dict(history=history), "history:exception")
                continue
            # quadrature / root finding of the slow classes only on some steps in the quick tier
            for step in range(nstep):
                kinds = ["var", "nugget", "len_scale", "rescale", "dim", "integral_scale"] + ["opt:" + a for a in args] * 2
                if m.dim > 1:
                    kinds += ["len_scale_list", "anis"]
                kind = kinds[int(rng.integers(len(kinds)))]
                if si == 0 and step == 0:          # every class: a shape argument (or dim) changes right after a read
                    kind = "opt:" + args[0] if args else "dim"
                if kind == "integral_scale" and name == "JBessel":
                    kind = "len_scale"             # quad of the oscillating correlation: setter raises / is off (known finding)
                val = None
                try:
                    with np.errstate(all="ignore"):
                        if kind == "var":
                            val = float(np.exp(rng.uniform(-2, 2))); m.var = val
                        elif kind == "nugget":
                            val = float(rng.choice([0.0, np.exp(rng.uniform(-3, 1))])); m.nugget = val
                        elif kind == "len_scale":
                            val = float(np.exp(rng.uniform(-1.5, 1.5))); m.len_scale = val
                        elif kind == "len_scale_list":
                            val = [float(np.exp(rng.uniform(-1.5, 1.5))) for _ in range(m.dim)]; m.len_scale = val
                        elif kind == "anis":
                            val = [float(np.exp(rng.uniform(-1, 1))) for _ in range(m.dim - 1)]; m.anis = val
                        elif kind == "rescale":
                            val = float(np.exp(rng.uniform(-1, 1))); m.rescale = val
                        elif kind == "dim":
                            val = int(rng.integers(1, 4)); m.dim = val
                        elif kind == "integral_scale":
                            val = float(np.exp(rng.uniform(-1, 1))); m.integral_scale = val
                        else:
                            a = kind[4:]
                            val = hist_opt_value(name, a, rng); setattr(m, a, val)
                    history.append((kind, val))
                except ValueError as e:
                    # documented refusal (bounds, integral scale not settable); the code assigns before it checks, so the
                    # object is not required to be usable afterwards: the history ends here
                    history.append((kind, val, "ValueError: %s" % e))
                    break
                heavy = ctx.tier == "thorough" or code <= 5 or name in COMPACT or step % 2 == 0
                try:
                    got = hist_observe(m, name, heavy)
                    par = hist_params(m)
                    fresh = getattr(gs, name)(**par)
                    want = hist_observe(fresh, name, heavy)
                except Exception as e:
                    viol(ctx, "history", "%s: reading derived quantities after the history raised %r" % (name, e), dict(history=history), "history:exception")
                    break
                ctx.count(("history", name, si, step, kind), n=len(got), hist=dict(stage="probe:history", cls=name, op=kind.split(":")[0]))
                scale = float(m.var + m.nugget)
                bad = [k for k in got if not (C.close(got[k], want[k], rtol=TOL, atol=1e-300, scale=max(scale, 1e-300))
                                              or C.close(got[k], want[k], rtol=TOL, atol=1e-300))]
                if bad:
                    k = bad[0]
                    viol(ctx, "history", "%s: %s read after step %d (%s) differs from a freshly constructed model with the same parameters: %s vs %s"
                         % (name, k, step + 1, kind, got[k].tolist(), want[k].tolist()),
                         dict(history=history, parameters=par, observable=k, stepped=got[k].tolist(), fresh=want[k].tolist()), "history:%s" % k)
                    break
                # (b) the model on the current parameters
                if drv is not None:
                    p = slots(name, par)
                    pre = [("z", code), p[0], p[1], p[2], ("z", par["dim"]), par["var"], par["len_scale"], par["nugget"], par["rescale"]]
                    mod = np.array([drv.call("funcs", *pre, float(x)) for x in HIST_LAGS * m.len_rescaled], dtype=float)
                    okm = (C.close(mod[:, 0], got["correlation"], rtol=TOL, atol=1e-300, scale=1.0)
                           and C.close(mod[:, 1], got["covariance"], rtol=TOL, atol=1e-300, scale=scale)
                           and C.close(mod[:, 2], got["variogram"], rtol=TOL, atol=1e-300, scale=scale))
                    if okm and code <= 5 and "integral_scale" in got:
                        mi = drv.call("intscale", ("z", code), p[0], float(m.len_rescaled))
                        okm = mi is not None and C.close([mi], got["integral_scale"], rtol=TOL)
                    if not okm:
                        viol(ctx, "history", "%s: values read after step %d (%s) differ from the model evaluated on the current parameters" % (name, step + 1, kind),
                             dict(history=history, parameters=par, stepped={k: v.tolist() for k, v in got.items()}, model=mod.tolist()), "history:model")
                        break


def probe_closed_forms(ctx, rng):
    """the DOCUMENTED formula (docstring), evaluated with 50 digits, against the implementation"""
    mp, doc_cor, doc_correlation = doc_formulas()
    lags = LAGS_T if ctx.tier == "thorough" else LAGS_Q
    bps = base_params(rng, ctx.tier)[:3 if ctx.tier == "thorough" else 2]
    n = 0
    for name, code, _ in CLASSES:
        for dim in (1, 2, 3):
            lags_d, nbp = plan(name, dim, ctx.tier, lags)
            for oi, opt in enumerate(opt_values(name, dim, rng, ctx.tier)):
                for bi, bp in enumerate(bps[:nbp] if nbp > 1 else bps[1:2]):
                    var, ls, nug, resc = bp
                    try:
                        m = make(name, dim, opt, var, ls, nug, resc)
                        r = np.array(lags_d) * m.len_rescaled
                        with np.errstate(all="ignore"):
                            corr = np.asarray(m.correlation(r), dtype=float)
                            cov = np.asarray(m.covariance(r), dtype=float)
                            vario = np.asarray(m.variogram(r), dtype=float)
                    except Exception as e:
                        viol(ctx, "closed form", "implementation raised %r" % e, desc(name, dim, opt, bp), "%s:exception" % name)
                        continue
                    sill = m.var + m.nugget
                    for h, ri, c, k, g in zip(lags_d, r, corr, cov, vario):
                        ref = doc_correlation(name, ri, opt, dim, m.len_scale, m.rescale)
                        n += 1
                        ctx.count(("doc", name, dim, oi, bi, h) if h > 0 else None, hist=dict(stage="probe:closed-form", cls=name, dim=dim))
                        e_c = abs(float(mp.mpf(float(c)) - ref)) if np.isfinite(c) else np.inf
                        e_k = abs(float(mp.mpf(float(k)) - m.var * ref)) if np.isfinite(k) else np.inf
                        e_g = abs(float(mp.mpf(float(g)) - (m.var * (1 - ref) + m.nugget))) if np.isfinite(g) else np.inf
                        if e_c > TOL or e_k > TOL * sill or e_g > TOL * sill:
                            viol(ctx, "closed form %s" % name,
                                 "%s differs from its documented formula at h=%g: correlation %r, documented %s" % (name, h, float(c), mp.nstr(ref, 17)),
                                 desc(name, dim, opt, bp, h=h, r=float(ri), correlation=float(c), covariance=float(k), variogram=float(g),
                                      documented_correlation=mp.nstr(ref, 30)), finding_key(name, opt, h, float(c), m))
    ctx.sample(dict(stage="probe closed form", evaluations=n, lags=lags[:8]))


def probe_identities(ctx, rng):
    """variogram = var + nugget - covariance, covariance = var * correlation, correlation(r) = cor(rescale r / len_scale)
    on the implementation itself (all classes, array and scalar calls)"""
    lags = np.array(LAGS_T if ctx.tier == "thorough" else LAGS_Q)
    for name, code, _ in CLASSES:
        for dim in (1, 2, 3):
            for oi, opt in enumerate(opt_values(name, dim, rng, ctx.tier)):
                for bi, bp in enumerate(base_params(rng, "quick")):
                    var, ls, nug, resc = bp
                    m = make(name, dim, opt, var, ls, nug, resc)
                    r = lags * m.len_rescaled
                    with np.errstate(all="ignore"):
                        corr, cov, vario = (np.asarray(f(r), dtype=float) for f in (m.correlation, m.covariance, m.variogram))
                        cor = np.asarray(m.cor(m.rescale * r / m.len_scale), dtype=float)
                    sill = m.var + m.nugget
                    fin = np.isfinite(corr)
                    ctx.count(("ident", name, dim, oi, bi), n=len(r), hist=dict(stage="probe:identities", cls=name, dim=dim))
                    bad = ~C_close_vec(vario[fin], (m.var + m.nugget - cov)[fin], sill)
                    if bad.any():
                        i = int(np.flatnonzero(fin)[np.flatnonzero(bad)[0]])
                        viol(ctx, "identity variogram", "variogram != var + nugget - covariance", desc(name, dim, opt, bp, r=float(r[i]), variogram=float(vario[i]), covariance=float(cov[i])), "%s:identity-variogram" % name)
                    bad = ~C_close_vec(cov[fin], (m.var * corr)[fin], sill)
                    if bad.any():
                        i = int(np.flatnonzero(fin)[np.flatnonzero(bad)[0]])
                        viol(ctx, "identity covariance", "covariance != var * correlation", desc(name, dim, opt, bp, r=float(r[i]), covariance=float(cov[i]), correlation=float(corr[i])), "%s:identity-covariance" % name)
                    both = fin & np.isfinite(cor)
                    bad = ~C_close_vec(corr[both], cor[both], 1.0)
                    if bad.any() or (np.isfinite(cor) != fin).any():
                        i = int(np.flatnonzero(both)[np.flatnonzero(bad)[0]]) if bad.any() else int(np.flatnonzero(np.isfinite(cor) != fin)[0])
                        key = ("TPL:cor-ignores-len_low" if (name in TPL and opt.get("len_low", 0) > 0) else
                               "Integral:nan-near-origin-large-nu" if (name == "Integral" and not (np.isfinite(corr[i]) and np.isfinite(cor[i]))) else
                               "%s:identity-cor" % name)
                        viol(ctx, "identity correlation", "correlation(r) != cor(rescale * r / len_scale)",
                             desc(name, dim, opt, bp, r=float(r[i]), correlation=float(corr[i]), cor=float(cor[i])), key)
                    # scalar call = array call
                    j = int(rng.integers(len(r)))
                    with np.errstate(all="ignore"):
                        s = f1(m.variogram(float(r[j])))
                    if np.isfinite(vario[j]) and not same(s, vario[j], sill):
                        viol(ctx, "scalar call", "variogram(scalar) differs from variogram(array)", desc(name, dim, opt, bp, r=float(r[j]), scalar=s, array=float(vario[j])), "%s:scalar-call" % name)


def C_close_vec(a, b, scale):
    return np.abs(np.asarray(a) - np.asarray(b)) <= TOL * scale


def probe_user_subclasses(ctx, rng):
    """user classes through each non-empty subset of cor / correlation / covariance / variogram give the same four functions"""
    xs = np.array([0.0, 1e-9, 0.05, 0.3, 1.0, 2.2, 2.9, 4.5, 7.0, 40.0])
    for shape in (0, 1, 2, 3):
        for bp in base_params(rng, ctx.tier):
            var, ls, nug, resc = bp[0], bp[1], bp[2], (1.0 if bp[3] is None else bp[3])
            lr = ls / resc
            damp = float(rng.uniform(0.5, 3.0))
            ref_c = user_ref(shape, xs, damp)
            for mask in itertools.product([False, True], repeat=4):
                if not any(mask):
                    try:
                        user_class(shape, mask)
                        viol(ctx, "user subclass", "class without any of the four methods accepted", dict(shape=shape), "user:abstract-accepted")
                    except TypeError:
                        pass
                    continue
                try:
                    m = user_make(shape, mask, 1, var, ls, nug, resc, damp)
                    got = dict(cor=m.cor(xs), correlation=m.correlation(xs * lr), covariance=m.covariance(xs * lr), variogram=m.variogram(xs * lr))
                except Exception as e:
                    viol(ctx, "user subclass", "user class raised %r" % e, dict(shape=shape, mask=mask, bp=bp), "user:exception")
                    continue
                want = dict(cor=ref_c, correlation=ref_c, covariance=var * ref_c, variogram=var * (1 - ref_c) + nug)
                # mutual consistency of what the object returns, whatever the shape
                gc, gk, gv = (np.asarray(got[k], dtype=float) for k in ("correlation", "covariance", "variogram"))
                if not ((np.abs(gv - (var + nug - gk)) <= 1e-12 * (var + nug)).all() and (np.abs(gk - var * gc) <= 1e-12 * (var + nug) * max(1.0, (var + nug) / var)).all()):
                    i = int(np.argmax(np.abs(gv - (var + nug - gk)) + np.abs(gk - var * gc)))
                    viol(ctx, "user subclass", "user class defined through %s: variogram = var + nugget - covariance / covariance = var * correlation violated" % ([f for f, b in zip(FNAMES, mask) if b],),
                         dict(shape=shape, mask=mask, bp=bp, damp=damp, x=float(xs[i]), correlation=float(gc[i]), covariance=float(gk[i]), variogram=float(gv[i])), "user:identities")
                ctx.count(("user", shape, mask, bp), n=4 * len(xs), hist=dict(stage="probe:user-subclass", defined=sum(mask)))
                for k in FNAMES:
                    sc = 1.0 if k in ("cor", "correlation") else var + nug
                    # derived-from-variogram correlation divides by var: conditioning (var + nug) / var
                    tol = 1e-12 * sc * max(1.0, (var + nug) / var)
                    if not (np.abs(np.asarray(got[k], dtype=float) - want[k]) <= tol).all():
                        i = int(np.argmax(np.abs(np.asarray(got[k], dtype=float) - want[k])))
                        viol(ctx, "user subclass", "%s of a user class defined through %s differs from the canonical function" % (k, [f for f, b in zip(FNAMES, mask) if b]),
                             dict(shape=shape, mask=mask, bp=bp, damp=damp, x=float(xs[i]), got=float(np.asarray(got[k])[i]), want=float(want[k][i])), "user:%s" % k)


def exact_integral(name, opt, dim, mp, doc_cor=None):
    """integral over [0, inf) of the DOCUMENTED normalised correlation cor(h), from integral tables (not from the
    class's calc_integral_scale): Gamma / Beta integrals, int_0^inf x^nu K_nu(x) dx = 2^(nu-1) sqrt(pi) Gamma(nu+1/2),
    int_0^inf E_s(u) u^(a-1) du = Gamma(a) / (a+s-1), int_0^inf t^-nu J_nu(t) dt = sqrt(pi) / (2^nu Gamma(nu+1/2))"""
    half = mp.mpf(1) / 2
    if name == "Gaussian":
        return mp.sqrt(mp.pi) / 2
    if name == "Exponential":
        return mp.mpf(1)
    if name == "Stable":
        a = mp.mpf(opt["alpha"])
        return mp.gamma(1 / a) / a
    if name == "Matern":
        nu = mp.mpf(opt["nu"])
        if opt["nu"] > 20:
            return mp.sqrt(mp.pi)          # the documented Gaussian limit exp(-(h/2)^2)
        return mp.sqrt(mp.pi) * mp.gamma(nu + half) / (mp.gamma(nu) * mp.sqrt(nu))
    if name == "Integral":
        nu = mp.mpf(opt["nu"])
        return nu * mp.sqrt(mp.pi) / (2 * (nu + 1))
    if name == "Rational":
        a = mp.mpf(opt["alpha"])
        return mp.sqrt(a) * mp.beta(half, a - half) / 2
    if name == "Linear" or (name == "HyperSpherical" and dim == 1):
        return half
    if name == "Spherical" or (name == "HyperSpherical" and dim == 3):
        return mp.mpf(3) / 8
    if name == "Cubic":
        return mp.mpf(35) / 96
    if name == "Circular" or (name == "HyperSpherical" and dim == 2):
        return 4 / (3 * mp.pi)
    if name == "SuperSpherical":
        return mp.quad(lambda x: doc_cor(name, x, opt, dim), [0, half, 1])     # smooth on the compact support
    if name == "TPLSimple":
        return 1 / (mp.mpf(opt["nu"]) + 1)
    if name == "JBessel":
        nu = mp.mpf(opt["nu"])
        return mp.sqrt(mp.pi) * mp.gamma(nu + 1) / mp.gamma(nu + half)
    return None


def exact_integral_tpl(name, opt, len_scale, rescale, mp):
    """integral of the documented TPL correlation: each mode integrates to l * (2H/alpha) * Gamma(1/alpha) / (1 + 2H)"""
    H = mp.mpf(opt["hurst"])
    a = {"TPLGaussian": mp.mpf(2), "TPLExponential": mp.mpf(1)}.get(name, mp.mpf(opt.get("alpha", 1)))
    ll = mp.mpf(opt["len_low"]) / mp.mpf(rescale)
    lu = (mp.mpf(opt["len_low"]) + mp.mpf(len_scale)) / mp.mpf(rescale)
    c = (2 * H / a) * mp.gamma(1 / a) / (1 + 2 * H)
    return c * (lu ** (2 * H + 1) - ll ** (2 * H + 1)) / (lu ** (2 * H) - ll ** (2 * H))


def matern_gt20_key(opt, got, lr, mp):
    """the open finding on the unchanged tree is precisely: for nu > 20 the class still reports the Matern closed form
    len_rescaled * sqrt(pi) * Gamma(nu+1/2) / (Gamma(nu) sqrt(nu)) (0.41% .. 0.62% below the integral sqrt(pi) * len_rescaled
    of the Gaussian-limit correlation it evaluates).  Any other reported value gets the generic key."""
    nu = mp.mpf(opt["nu"])
    matern_form = float(lr * mp.sqrt(mp.pi) * mp.gamma(nu + mp.mpf(1) / 2) / (mp.gamma(nu) * mp.sqrt(nu)))
    if abs(got - matern_form) <= 1e-9 * matern_form:
        return "Matern:nu>20:integral-scale-keeps-matern-closed-form"
    return "Matern:integral-scale"


def probe_scales(ctx, rng):
    mp, doc_cor, doc_correlation = doc_formulas()
    mp.mp.dps = 30
    for name, code, _ in CLASSES:
        for dim in (1, 2, 3):
            if name != "HyperSpherical" and dim != primary_dim(name):
                continue   # the scales do not depend on dim (only the bounds of the optional arguments do)
            opts = opt_values(name, dim, rng, ctx.tier)
            if ctx.tier != "thorough" and name != "Matern":      # Matern: every nu, in particular 20.5, 25, 30 (switch at 20)
                opts = opts[:: max(1, len(opts) // 6)]
            for oi, opt in enumerate(opts):
                bp = base_params(rng, "quick")[1 if (oi + dim) % 2 else 2]
                var, ls, nug, resc = bp
                try:
                    m = make(name, dim, opt, var, ls, nug, resc)
                except Exception as e:
                    viol(ctx, "scales", "constructor raised %r" % e, desc(name, dim, opt, bp), "%s:exception" % name)
                    continue
                # ---- integral scale = integral of the correlation
                lr = m.len_rescaled
                divergent = name == "Rational" and opt["alpha"] <= 0.5   # (1 + 2 h^2)^(-1/2) ~ 1/h: the integral is infinite
                if divergent:
                    ref = None
                    ctx.count(("intscale", name, dim, oi), hist=dict(stage="probe:integral-scale", cls=name, dim=dim))
                    if np.isfinite(m.integral_scale):
                        viol(ctx, "integral scale", "Rational(alpha<=0.5) reports a finite integral scale %r for a divergent integral" % m.integral_scale,
                             desc(name, dim, opt, bp), "Rational:integral-scale-divergent")
                elif name in TPL:
                    ref = exact_integral_tpl(name, opt, m.len_scale, m.rescale, mp)
                else:
                    ref = exact_integral(name, opt, dim, mp, doc_cor) * lr
                if ref is not None:
                    try:
                        with np.errstate(all="ignore"):
                            got = float(m.integral_scale)
                    except Exception as e:
                        viol(ctx, "integral scale", "integral_scale raised %r" % e, desc(name, dim, opt, bp), "%s:integral-scale-exception" % name)
                        got = None
                    if got is not None:
                        ctx.count(("intscale", name, dim, oi), hist=dict(stage="probe:integral-scale", cls=name, dim=dim))
                        closed = code <= 5
                        # closed forms: rounding only.  Quadrature classes: QUADPACK qagi on a correlation with a derivative
                        # kink at the range was observed to be off by up to 3e-6 (its requested 1.5e-8 is no guarantee for
                        # non-smooth integrands); the package itself accepts 1e-3 (setter).  1e-4 is > 30x the observed error
                        # and far below any formula error (wrong factor / exponent).
                        tol = 1e-9 if closed else 1e-4
                        if not abs(got - float(ref)) <= tol * float(ref):
                            key = (matern_gt20_key(opt, got, lr, mp) if (name == "Matern" and opt["nu"] > 20) else
                                   "JBessel:integral-scale-quad" if name == "JBessel" else "%s:integral-scale" % name)
                            viol(ctx, "integral scale", "%s.integral_scale = %r but the integral of its documented correlation is %s" % (name, got, mp.nstr(ref, 15)),
                                 desc(name, dim, opt, bp, integral_scale=got, integral_of_correlation=mp.nstr(ref, 20)), key)
                # ---- prescribing the integral scale
                # (classes whose integral scale is not proportional to len_scale -- TPL with len_low > 0 -- or is infinite
                #  refuse with the documented ValueError; that is not a wrong result)
                linear = not divergent and not (name in TPL and opt.get("len_low", 0) > 0)
                if (oi + dim) % 2 == 0 or ctx.tier == "thorough":
                    target = float(np.exp(rng.uniform(-2, 2)))
                    try:
                        with np.errstate(all="ignore"):
                            m2 = make(name, dim, opt, var, ls, nug, resc, integral_scale=target)
                            got = float(m2.integral_scale)
                        ctx.count(("setter", name, dim, oi), hist=dict(stage="probe:integral-scale-setter", cls=name, dim=dim))
                        # TPL with len_low > 0: the scale is not proportional to len_scale; the setter is then explicitly
                        # approximate (it accepts what passes its own np.isclose(rtol=1e-3) and raises otherwise)
                        if not abs(got - target) <= (1e-9 if code <= 5 else 1e-4 if linear else 1.1e-3) * target:
                            viol(ctx, "integral scale setter", "integral_scale=%r prescribed, model reports %r" % (target, got),
                                 desc(name, dim, opt, bp, target=target, got=got), "JBessel:integral-scale-quad" if name == "JBessel" else "%s:integral-scale-setter" % name)
                        if name in TPL and not abs(m2.var - var) <= 1e-12 * var:
                            viol(ctx, "integral scale setter", "variance changed by prescribing the integral scale", desc(name, dim, opt, bp, target=target, var=float(m2.var)), "%s:setter-var" % name)
                    except ValueError as e:
                        if linear:
                            viol(ctx, "integral scale setter", "prescribing integral_scale=%r raised %s" % (target, e), desc(name, dim, opt, bp, target=target),
                                 "JBessel:integral-scale-quad" if name == "JBessel" else "%s:integral-scale-setter" % name)
                # ---- percentile scale: variogram(percentile_scale(per)) = nugget + per * var
                for per in (0.5, 0.9, float(rng.uniform(0.05, 0.95))):
                    try:
                        with np.errstate(all="ignore"):
                            x = float(m.percentile_scale(per))
                            g = f1(m.variogram(np.array([x])))
                    except Exception as e:
                        viol(ctx, "percentile scale", "percentile_scale(%r) raised %r" % (per, e), desc(name, dim, opt, bp, per=per), "%s:percentile-exception" % name)
                        continue
                    ctx.count(("percentile", name, dim, oi, per), hist=dict(stage="probe:percentile", cls=name, dim=dim))
                    # root's default xtol 1.49e-8 relative in x; variogram slope <= O(var / len) -> 1e-6 * var with margin
                    if not x >= 0:
                        viol(ctx, "percentile scale", "percentile_scale(%g) = %r is not a lag (negative)" % (per, x),
                             desc(name, dim, opt, bp, per=per, scale=x, variogram=g), "percentile:negative-lag")
                    elif not abs(g - (m.nugget + per * m.var)) <= 1e-6 * m.var:
                        viol(ctx, "percentile scale", "variogram(percentile_scale(%g)) = %r, expected nugget + per*var = %r" % (per, g, m.nugget + per * m.var),
                             desc(name, dim, opt, bp, per=per, scale=x, variogram=g),
                             "%s:percentile-root-not-converged" % name if name in ROOT_FAILS else "%s:percentile" % name)
                for per in (0.0, 1.0, -0.1, 1.5):
                    try:
                        m.percentile_scale(per)
                        viol(ctx, "percentile scale", "percentile %r outside (0,1) accepted" % per, desc(name, dim, opt, bp, per=per), "percentile:range")
                    except ValueError:
                        pass


def probe_variants(ctx, rng):
    """axis / spatial / yadrenko variants = isotropic function of the independently transformed lag; nugget variants"""
    import gstools as gs
    reps = 3 if ctx.tier == "thorough" else 1
    for name, code, _ in CLASSES:
        for dim in (1, 2, 3):
            for _ in range(reps):
                opt = opt_values(name, dim, rng, "quick")
                opt = opt[int(rng.integers(len(opt)))]
                var, ls, nug, resc = base_params(rng, "quick")[2]
                anis = [float(np.exp(rng.uniform(-1.5, 1.5))) for _ in range(dim - 1)]
                angles = [float(rng.uniform(-np.pi, np.pi)) for _ in range({1: 0, 2: 1, 3: 3}[dim])]
                m = make(name, dim, opt, var, ls, nug, resc, anis=anis if anis else 1.0, angles=angles if angles else 0.0)
                sill = m.var + m.nugget
                r = np.concatenate([[0.0, 1e-9, 1.01e-8], np.exp(rng.uniform(-6, 3, size=8)) * m.len_rescaled])
                fs = [("cor", m.cor_axis, m.cor_spatial, m.cor_yadrenko, m.correlation, 1.0),
                      ("cov", m.cov_axis, m.cov_spatial, m.cov_yadrenko, m.covariance, sill),
                      ("vario", m.vario_axis, m.vario_spatial, m.vario_yadrenko, m.variogram, sill)]
                # axis k: the same class with len_scale * anis_k (independent object)
                for axis in range(dim):
                    fac = 1.0 if axis == 0 else anis[axis - 1]
                    try:
                        mk = make(name, dim, opt, var, ls * fac, nug, resc)
                    except ValueError:
                        continue
                    if name in TPL:
                        continue  # len_scale enters var_factor / len_up: not a pure rescaling of the lag for TPL classes
                    for tag, fa, _, _, _, sc in fs:
                        iso = {"cor": mk.correlation, "cov": mk.covariance, "vario": mk.variogram}[tag]
                        with np.errstate(all="ignore"):
                            a, b = np.asarray(fa(r, axis), dtype=float), np.asarray(iso(r), dtype=float)
                        fin = np.isfinite(a) & np.isfinite(b)
                        ctx.count(("variant-axis", name, dim, axis, tag), n=len(r), hist=dict(stage="probe:variants", cls=name, dim=dim))
                        # lag rescaling r/anis vs len*anis differs by rounding of the argument: error <= |f'| * ulp, f' <= ~10 / h
                        if not (np.abs(a[fin] - b[fin]) <= 1e-9 * sc).all():
                            i = int(np.argmax(np.where(fin, np.abs(a - b), 0)))
                            viol(ctx, "axis variant", "%s_axis(r, %d) != isotropic function with len_scale*anis" % (tag, axis),
                                 desc(name, dim, opt, (var, ls, nug, resc), r=float(r[i]), axis=axis, anis=anis, got=float(a[i]), want=float(b[i])), "%s:axis-variant" % name)
                # spatial: independent rotation (explicit 2D / Tait-Bryan 3D by the documented main axes)
                pos = rng.normal(size=(dim, 6)) * m.len_rescaled
                axes = np.asarray(m.main_axes(), dtype=float)  # rows = rotated main axes
                comp = axes @ pos
                scl = np.array([1.0] + anis)[:, None]
                rad = np.sqrt(((comp / scl) ** 2).sum(axis=0))
                for tag, _, fsp, _, iso, sc in fs:
                    with np.errstate(all="ignore"):
                        a, b = np.asarray(fsp(pos), dtype=float), np.asarray(iso(rad), dtype=float)
                    fin = np.isfinite(a) & np.isfinite(b)
                    ctx.count(("variant-spatial", name, dim, tag), n=6, hist=dict(stage="probe:variants", cls=name, dim=dim))
                    if not (np.abs(a[fin] - b[fin]) <= 1e-7 * sc).all():
                        i = int(np.argmax(np.where(fin, np.abs(a - b), 0)))
                        viol(ctx, "spatial variant", "%s_spatial(pos) != isotropic function of the lag in the rotated, anis-scaled frame" % tag,
                             desc(name, dim, opt, (var, ls, nug, resc), pos=pos[:, i].tolist(), anis=anis, angles=angles, got=float(a[i]), want=float(b[i])), "%s:spatial-variant" % name)
                # nugget variants
                with np.errstate(all="ignore"):
                    vn, cn = np.asarray(m.vario_nugget(r), dtype=float), np.asarray(m.cov_nugget(r), dtype=float)
                    v, c = np.asarray(m.variogram(r), dtype=float), np.asarray(m.covariance(r), dtype=float)
                out = r > 1e-8
                ctx.count(("variant-nugget", name, dim), n=len(r), hist=dict(stage="probe:variants", cls=name, dim=dim))
                okn = (np.all((vn[out] == v[out]) | ~np.isfinite(v[out])) and np.all((cn[out] == c[out]) | ~np.isfinite(c[out]))
                       and np.all(vn[~out] == 0.0) and np.all(cn[~out] == sill))
                if not okn:
                    viol(ctx, "nugget variants", "vario_nugget / cov_nugget differ from the plain functions outside |r| <= 1e-8 or are not 0 / sill inside",
                         desc(name, dim, opt, (var, ls, nug, resc), r=r.tolist(), vario_nugget=vn.tolist(), cov_nugget=cn.tolist()), "%s:nugget-variant" % name)
        # yadrenko: chord between two points of the sphere
        opt = opt_values(name, 3, rng, "quick")[0]
        geo = float(np.exp(rng.uniform(0, 9)))
        try:
            m = getattr(gs, name)(latlon=True, geo_scale=geo, var=1.3, len_scale=0.4 * geo, nugget=0.2, **opt)
        except Exception as e:
            viol(ctx, "yadrenko", "lat-lon model raised %r" % e, dict(cls=name), "%s:latlon-exception" % name)
            continue
        # whole range of great-circle distances [0, pi R] and slightly beyond, long-range model (len_scale ~ R):
        # f_yadrenko(zeta) = f(2 R sin(zeta / 2R))
        for geo_k in (1.0, 6371.0, geo):
            try:
                mk = getattr(gs, name)(latlon=True, geo_scale=geo_k, var=1.3, len_scale=float(rng.uniform(0.7, 1.5)) * geo_k, nugget=0.2, **opt)
            except Exception as e:
                viol(ctx, "yadrenko", "lat-lon model raised %r" % e, dict(cls=name, geo_scale=geo_k), "%s:latlon-exception" % name)
                continue
            zs = np.concatenate([np.linspace(0.0, np.pi, 13), [1.9, 2.0, 2.1, 3.0, np.pi * 1.02]]) * geo_k
            ch = 2.0 * geo_k * np.sin(zs / (2.0 * geo_k))
            for tag, fy, iso, sc in (("cor", mk.cor_yadrenko, mk.correlation, 1.0), ("cov", mk.cov_yadrenko, mk.covariance, 1.5), ("vario", mk.vario_yadrenko, mk.variogram, 1.5)):
                with np.errstate(all="ignore"):
                    a, b = np.asarray(fy(zs), dtype=float), np.asarray(iso(ch), dtype=float)
                ctx.count(("variant-yadrenko-range", name, tag, geo_k), n=len(zs), hist=dict(stage="probe:variants", cls=name, dim=3))
                fin = np.isfinite(a) & np.isfinite(b)
                # same formula for the lag up to rounding of zeta / 2R: |f'| * ulp
                if not (np.abs(a - b)[fin] <= 1e-9 * sc).all():
                    i = int(np.argmax(np.where(fin, np.abs(a - b), 0)))
                    viol(ctx, "yadrenko variant", "%s: %s_yadrenko(zeta=%g) = %r but %s(2R sin(zeta/2R) = %g) = %r (geo_scale %g, zeta/R = %.4g rad)"
                         % (name, tag, zs[i], float(a[i]), tag, ch[i], float(b[i]), geo_k, zs[i] / geo_k),
                         dict(cls=name, opt=opt, geo_scale=geo_k, len_scale=float(mk.len_scale), zeta=float(zs[i]), chord=float(ch[i]), got=float(a[i]), want=float(b[i])),
                         "%s:yadrenko-variant" % name)
                    break
        p1 = np.array([rng.uniform(-80, 80), rng.uniform(-180, 180)])
        p2 = np.array([rng.uniform(-80, 80), rng.uniform(-180, 180)])
        x1, x2 = m.isometrize(p1)[:, 0], m.isometrize(p2)[:, 0]
        chordd = float(np.linalg.norm(x1 - x2))
        cosz = float(np.clip(np.dot(x1, x2) / geo ** 2, -1, 1))
        zeta = geo * float(np.arctan2(np.linalg.norm(np.cross(x1, x2)) / geo ** 2, cosz))
        for tag, fy, iso, sc in (("cor", m.cor_yadrenko, m.correlation, 1.0), ("cov", m.cov_yadrenko, m.covariance, 1.5), ("vario", m.vario_yadrenko, m.variogram, 1.5)):
            with np.errstate(all="ignore"):
                a, b = f1(fy(np.array([zeta]))), f1(iso(np.array([chordd])))
            ctx.count(("variant-yadrenko", name, tag), hist=dict(stage="probe:variants", cls=name, dim=3))
            if np.isfinite(a) and np.isfinite(b) and not abs(a - b) <= 1e-7 * sc:
                viol(ctx, "yadrenko variant", "%s_yadrenko(zeta) != isotropic function of the chordal distance" % tag,
                     dict(cls=name, opt=opt, geo_scale=geo, p1=p1.tolist(), p2=p2.tolist(), zeta=zeta, chord=chordd, got=a, want=b), "%s:yadrenko-variant" % name)


def replay(ctx, path):
    rec = json.load(open(path))
    print(json.dumps({k: rec[k] for k in ("stage", "what", "key")}, indent=1))
    case = rec.get("case", {})
    if isinstance(case, dict) and "cls" in case and "r" in case and "var" in case:
        try:
            m = make(case["cls"], case["dim"], case["opt"], case["var"], case["len_scale"], case["nugget"], case["rescale"])
            r = np.array([float(case["r"])])
            with np.errstate(all="ignore"):
                print("current tree: correlation %r covariance %r variogram %r" % (f1(m.correlation(r)), f1(m.covariance(r)), f1(m.variogram(r))))
            if "documented_correlation" in case:
                print("documented correlation: %s" % case["documented_correlation"])
        except Exception as e:
            print("replay of the single case raised %r" % e)
    run(ctx)
    return ctx.finish()
