"""C06 — kriging interpolates exactly and its variance is non-negative and bounded.

Shares model, driver and runner parts with C05 (krige_common.py).  stages: regenerate the kernel model ;
theorems props/C06.v ; correspondence of the model with gstools.krige evaluated AT the conditioning points ;
probes: exactness for every variant (through mean / trend / normalizer, exact mode with nugget), variance
bounds at random targets, duplicated conditioning points with pinv / pinvh."""
import json

import numpy as np

import common as C
import krige_common as KC

PID = "C06"


def specs(rng, tier, count):
    out = []
    combos = [(v, g) for v in KC.VARIANTS for g in ("plain", "time", "latlon", "latlon_time")]
    for i in range(count):
        v, g = combos[i % len(combos)]
        j = i // len(combos)
        dim = 1 + j % 3 if g == "plain" else None
        gm = [1, 0, 2, 3][(j // 3) % 4] if g == "plain" else [1, 0, 2, 3][j % 4]
        # zero measurement error: no nugget, or exact mode with a nugget
        mode = i % 3
        spec = KC.gen_spec(rng, variant=v, geo=g, dim=dim, tier=tier, exact=(mode == 2),
                           nugget=(0.0 if mode < 2 else float(np.round(rng.uniform(0.05, 0.5), 3))),
                           norm_prob=0.5, mean_nonzero=(v == "Simple" and i % 2 == 0), geom_mode=gm, drift_mode=(j + 3), norm_class=KC.NORM_CLASSES[i % 6], classes=(KC.TPL_CLASSES if i % 5 == 4 else None),
                           n_eq_dim=(i % 11 == 5 and v in ("Simple", "Ordinary", "Detrended")),
                           var_scale=([1e-10, 1e8, 1e-13][(i // 7) % 3] if i % 7 == 3 else None))
        if mode < 2:
            spec["cond_err"] = "nugget" if mode == 0 else 0.0
        out.append(spec)
    cells = [(d_, e_, u_) for d_ in range(4) for e_ in range(3) for u_ in (True, False)]
    geos = ["plain", "plain", "time", "latlon", "plain", "latlon_time"]
    for r_ in range(1 if tier == "quick" else 6):
        for c_, cell in enumerate(cells):
            g = geos[(c_ + r_) % len(geos)]
            mode = (c_ + r_) % 3
            spec = KC.gen_spec(rng, variant="Krige", geo=g, dim=(1 + (c_ + r_) % 3 if g == "plain" else None), tier=tier, cell=cell,
                               geom_mode=[1, 0, 2, 3][(c_ + r_) % 4], exact=(mode == 2),
                               nugget=(0.0 if mode < 2 else float(np.round(rng.uniform(0.05, 0.5), 3))), norm_prob=0.3)
            if mode < 2:
                spec["cond_err"] = "nugget" if mode == 0 else 0.0
            out.append(spec)
    return out


def one_case(ctx, drv, rng, spec, stats):
    ctx.count(KC.spec_key(spec), hist=KC.spec_hist(spec))
    ctx.sample(dict(spec={k: spec[k] for k in ("variant", "model", "exact", "cond_err", "pseudo_inv", "pseudo_inv_type",
                                                  "normalizer")}, n_cond=len(spec["cond_val"])))
    try:
        at_data = dict(spec, pos=spec["cond_pos"], mesh_type="unstructured")
        if drv is not None:
            KC.correspond_case(ctx, drv, at_data, stats)
            KC.correspond_case(ctx, drv, spec, stats)      # and at the spec's own (random) targets
        KC.probe_exact_at_data(ctx, spec, stats)
        ctx.count(None, hist=dict(probe="exact_at_data"))
        KC.probe_var_bounds(ctx, spec, stats)
        ctx.count(None, hist=dict(probe="var_bounds"))
        KC.probe_update_sequence(ctx, rng, spec, stats, zero_error=True)
        if spec.get("pseudo_inv", True):
            KC.probe_duplicates(ctx, rng, spec, stats)
            ctx.count(None, hist=dict(probe="duplicates"))
    except Exception as e:
        import traceback
        KC._viol(ctx, "exception", "unexpected exception %r" % (e,), spec, "exception:" + type(e).__name__,
                 traceback=traceback.format_exc()[-1500:])


def run(ctx, only=None):
    rng = C.Rng(ctx.seed, PID)
    ctx.rule = ("case = one Krige object with zero measurement error (nugget 0, cond_err 0, or exact mode with nugget) evaluated at its "
                "conditioning points, at random targets and with one duplicated location; key as in C05; all cases have >= 2 conditioning points")
    ctx.trusted = list(KC.TRUSTED)
    ctx.not_proved = [
        "LAPACK's (pseudo-)inverse: C06_exact_at_data assumes Kinv*K = I, the variance bound K*Kinv = I, the duplicates theorem the "
        "Penrose equations (2) and (4); all are checked numerically per case on the implementation's matrix",
        "positive semi-definiteness of the covariance block is a hypothesis of C06_simple_variance_le_sill (C02 owns it)",
        "duplicates: equal weights / dependence on the sum only is proved (every variant); equality with the merged one-point system is probed",
        "exactness through the normalizer assumes dn (nr x) = x at the datum (C18); floating-point rounding is not modelled",
        "the isclose window of cov_nugget: a target within 1e-8 of a conditioning point counts as that point (modelled, hypothesis of at_data_point)",
    ]
    gen = C.regenerate(which=["Krigesum_gen.v"])
    tie_broken = [k + ": " + v for k, v in gen.items() if v]
    ctx.tie["krigesum.pyx"] = "translated (pyx2coq), refinement proved in coq/c15" if not tie_broken else "TRANSLATION FAILED"
    for f in ("_get_krige_mat", "_get_krige_vecs (cov_nugget in exact mode)", "_krige_cond", "__call__ (variance clipping, post-processing)"):
        ctx.tie["Krige." + f] = "hand model + correspondence"
    proofs_ok = (not tie_broken) and ctx.proofs("props/%s.v" % PID)
    drv = None
    if not tie_broken:
        ok, out = C.build_driver("c05")
        if ok:
            drv = C.Driver("c05")
        else:
            tie_broken.append("extraction/driver build: " + out[-400:])
    stats = {}
    try:
        if only is not None:
            one_case(ctx, drv, rng, only, stats)
        else:
            n = 140 if ctx.tier == "quick" else 2400
            for spec in specs(rng, ctx.tier, n):
                one_case(ctx, drv, rng, spec, stats)
            # ill-conditioned but pseudo-inverse-solvable layouts: variance >= 0 exactly, model agreement on the clipping
            ill = [(n_, v_, c_) for n_ in ((30, 45, 60) if ctx.tier == "quick" else (30, 40, 50, 60, 80, 100))
                   for v_ in ("Simple", "Ordinary") for c_ in (("Gaussian",) if ctx.tier == "quick" else ("Gaussian", "Gaussian", "Matern"))]
            for n_, v_, c_ in ill:
                KC.probe_illcond(ctx, drv, KC.gen_illcond(rng, n_, v_, c_), stats, model_side=(n_ <= 60))
            # the cond_err guard on every route / value class, and exactness of whatever is accepted
            gspecs = [KC.gen_spec(rng, variant=v_, geo="plain", dim=2, tier="quick", allow_norm=False, n=6, m=3)
                      for v_ in (("Ordinary", "Universal") if ctx.tier == "quick" else KC.VARIANTS + ["Krige"])]
            for gs_ in gspecs:
                KC.probe_cond_err_guard(ctx, drv, rng, gs_, stats)
            # exact kriging at single conditioning points, rotated + anisotropic models at UTM-scale coordinates
            for r_ in range(1 if ctx.tier == "quick" else 6):
                for v_ in ("Simple", "Ordinary", "Universal"):
                    KC.probe_single_targets(ctx, drv, KC.gen_utm(rng, v_), stats)
            # cross-object interference (incl. duplicated points with the default pseudo-inverse routines after custom ones)
            for r_ in range(1 if ctx.tier == "quick" else 3):
                KC.probe_interference(ctx, rng, stats, ctx.tier)
            # replicated measurements per location
            # (10 x 25 = 250 rows already separates scipy's cut-off max(M,N)*eps from a fixed 1e-15: measured deviation
            #  1e-9 of the threshold with scipy.linalg.pinv, 1e4 times the threshold with numpy.linalg.pinv)
            for st_, rp_, v_ in ([(10, 25, "Ordinary"), (10, 30, "Simple")] if ctx.tier == "quick" else
                                 [(10, 25, "Ordinary"), (10, 30, "Simple"), (12, 40, "Ordinary"), (20, 20, "Simple"), (15, 30, "Ordinary")]):
                KC.probe_replicates(ctx, rng, st_, rp_, stats, v_)
    finally:
        if drv:
            drv.close()
    ctx.notes.append("statistics: " + json.dumps({k: (float(v) if isinstance(v, (float, np.floating)) else v) for k, v in stats.items()}))
    KC.finish_tie(ctx, PID, proofs_ok, tie_broken)


def replay(ctx, path):
    rec = json.load(open(path))
    print(json.dumps({k: rec[k] for k in ("stage", "what")}, indent=1))
    spec = (rec.get("case") or {}).get("spec")
    if rec.get("key") in ("dup:replicates", "fit_variogram") or not spec or "pos" not in spec:
        spec = None          # generated probe families (replicates, auto-fit): re-run the whole check with the recorded seed
    run(ctx, only=spec)
    return ctx.finish()
