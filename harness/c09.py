"""C09 — variogram estimation respects its invariances and preprocessing semantics.

stages: translate estimator.pyx (the spec the theorems are about is proved equal to it) ; theorems props/C09.v ;
extracted hand model VarioPre (mask union, NaN fill, no_data, dropping of missing points, direction normalisation,
ang2dir, separated-directions test, sub-sampling with the drawn indices as oracle input, standard bins, geo_scale,
grid expansion) + extracted pair-enumeration spec / translated directional kernel, run at floats against the
arguments vario_estimate hands to its kernels and against its results ; metamorphic probes of the property
statement on the real vario_estimate."""
import importlib
import json

import numpy as np

import common as C

DEG = 57.29577951308232
KM = 6371.0


# ----------------------------------------------------------------------------- helpers
def rel_close(a, b, rtol=1e-9, atol=0.0):
    a = np.asarray(a, float)
    b = np.asarray(b, float)
    if a.shape != b.shape:
        return False
    na, nb = np.isnan(a), np.isnan(b)
    if (na != nb).any():
        return False
    a, b = a[~na], b[~nb]
    return bool(np.all(np.abs(a - b) <= atol + rtol * np.maximum(np.abs(a), np.abs(b))))


def haversine_all(ll):
    la = np.deg2rad(ll[0])
    lo = np.deg2rad(ll[1])
    a = np.sin((la[None, :] - la[:, None]) / 2) ** 2 + np.cos(la)[:, None] * np.cos(la)[None, :] * np.sin((lo[None, :] - lo[:, None]) / 2) ** 2
    return 2 * np.arctan2(np.sqrt(a), np.sqrt(np.maximum(1 - a, 0)))


def near_threshold(pos, edges, latlon=False, dirs=None, tol=None, bw=-1.0, eps=1e-11):
    """True if some pair distance lies within eps (relative) of a bin edge — or, for directional estimates, an
    angle / band distance within 1e-9 of its threshold — so that a transformation that changes the distances by
    rounding only may legitimately move the pair into the neighbouring bin / direction (tolerance policy:
    counts are compared exactly unless this detector fires)."""
    pos = np.asarray(pos, float)
    n = pos.shape[1]
    if n < 2:
        return False
    iu = np.triu_indices(n, 1)
    if latlon:
        d = haversine_all(pos)[iu]
    else:
        diff = pos[:, iu[0]] - pos[:, iu[1]]
        d = np.sqrt((diff ** 2).sum(axis=0))
    d = d[~np.isnan(d)]
    e = np.asarray(edges, float)
    if d.size and e.size and np.any(np.abs(d[:, None] - e[None, :]) <= eps * np.maximum(1.0, d)[:, None]):
        return True
    if dirs is not None and d.size:
        diff = pos[:, iu[1]] - pos[:, iu[0]]
        dd = np.sqrt((diff ** 2).sum(axis=0))
        for v in np.atleast_2d(dirs):
            v = v / np.linalg.norm(v)
            sp = v @ diff
            ok = dd > 0
            t = np.abs(sp[ok]) / dd[ok]
            ang = np.arccos(np.minimum(t, 1.0))
            if np.any(np.abs(ang - tol) < 1e-9):
                return True
            if bw is not None and bw > 0:
                band = np.sqrt(((diff - np.outer(v, sp)) ** 2).sum(axis=0))
                if np.any(np.abs(band - bw) < 1e-9):
                    return True
    return False


def arr_desc(a):
    a = np.asarray(a)
    if a.dtype.kind == "b":
        return dict(shape=list(a.shape), bool=a.astype(int).ravel().tolist()[:3000])
    return dict(shape=list(a.shape), hex=[C.fhex(v) for v in np.asarray(a, float).ravel()[:3000]])


def brute_iso(pos, f, edges, est):
    """independent oracle (numpy): all pairs j<k, half-open bins, per-field NaN skipping, documented formulas"""
    n = pos.shape[1]
    iu = np.triu_indices(n, 1)
    diff = pos[:, iu[0]] - pos[:, iu[1]]
    d = np.sqrt((diff ** 2).sum(axis=0))
    nb = len(edges) - 1
    S = np.zeros(nb)
    N = np.zeros(nb, dtype=np.int64)
    for m in range(f.shape[0]):
        df = f[m, iu[1]] - f[m, iu[0]]
        ok = ~np.isnan(df)
        inc = df ** 2 if est == "matheron" else np.sqrt(np.abs(df))
        for i in range(nb):
            sel = ok & (d >= edges[i]) & (d < edges[i + 1])
            N[i] += int(sel.sum())
            S[i] += float(inc[sel].sum())
    n1 = np.maximum(N, 1)
    if est == "matheron":
        return S / (2.0 * n1), N
    return 0.5 * (S / n1) ** 4 / (0.457 + 0.494 / n1 + 0.045 / n1 ** 2), N


MASK_CLASSES = ["bool", "bool-list", "int64", "int32", "uint8", "int-list"]


def mask_as(m, cls):
    """the same mask as another argument class"""
    m = np.asarray(m, bool)
    if cls == "bool":
        return m.copy()
    if cls == "bool-list":
        return m.tolist()
    if cls == "int-list":
        return m.astype(int).tolist()
    return m.astype({"int64": np.int64, "int32": np.int32, "uint8": np.uint8}[cls])


class Capture:
    """records the arguments vario_estimate hands to its kernel wrappers (no change of behaviour)"""

    def __init__(self):
        self.V = importlib.import_module("gstools.variogram.variogram")
        self.rec = None

    def __enter__(self):
        V = self.V
        self.ou, self.od = V._unstructured, V._directional

        def u(field, bin_edges, pos, estimator_type="m", distance_type="e", num_threads=None):
            self.rec = dict(kind="u", field=np.array(field, float), edges=np.array(bin_edges, float), pos=np.array(pos, float),
                            et=estimator_type, dt=distance_type)
            return self.ou(field, bin_edges, pos, estimator_type=estimator_type, distance_type=distance_type, num_threads=num_threads)

        def d(field, bin_edges, pos, direction, angles_tol=np.pi / 8.0, bandwidth=-1.0, separate_dirs=False,
              estimator_type="m", num_threads=None):
            self.rec = dict(kind="d", field=np.array(field, float), edges=np.array(bin_edges, float), pos=np.array(pos, float),
                            dirs=np.array(direction, float), tol=float(angles_tol), bw=float(bandwidth), sep=bool(separate_dirs),
                            et=estimator_type)
            return self.od(field, bin_edges, pos, direction, angles_tol=angles_tol, bandwidth=bandwidth,
                           separate_dirs=separate_dirs, estimator_type=estimator_type, num_threads=num_threads)
        V._unstructured, V._directional = u, d
        return self

    def __exit__(self, *a):
        self.V._unstructured, self.V._directional = self.ou, self.od


# ----------------------------------------------------------------------------- case generator
def gen_cfg(rng, thorough, force=None):
    """one vario_estimate configuration.  Returns dict with the call arguments and the 'canonical' view
    (coordinates dim x n in C order, data nf x n, masks) used by the model"""
    force = force or {}
    structured = force.get("structured", rng.random() < 0.3)
    latlon = force.get("latlon", rng.random() < 0.2)
    dim = 2 if latlon else int(force.get("dim", rng.integers(1, 4)))
    if structured:
        shape = tuple(int(x) for x in rng.integers(2, 5 if dim < 3 else 4, size=dim))
        if latlon:
            axes = [np.sort(rng.uniform(-80, 80, shape[0])), np.sort(rng.uniform(-170, 170, shape[1]))]
        else:
            axes = [np.sort(rng.normal(size=s) * 2) for s in shape]
        n = int(np.prod(shape))
        coords = np.array(np.meshgrid(*axes, indexing="ij")).reshape(dim, -1)
        pos_arg = tuple(axes)
    else:
        n = int(rng.choice([2, 3, 5, 8, 13] + ([21, 34] if thorough else [])))
        shape = (n,)
        axes = None
        if latlon:
            coords = np.vstack([rng.uniform(-85, 85, n), rng.uniform(-180, 180, n)])
        else:
            coords = rng.normal(size=(dim, n)) * 2
        pos_arg = coords[0].copy() if (dim == 1 and rng.random() < 0.5) else tuple(c.copy() for c in coords)
    nf = int(rng.integers(1, 4))
    data = rng.normal(size=(nf,) + shape)
    use_nan = rng.random() < 0.5
    if use_nan:
        data[rng.random(size=data.shape) < 0.15] = np.nan
        if rng.random() < 0.5 and n > 2:
            data.reshape(nf, -1)[:, int(rng.integers(n))] = np.nan      # a point missing in every field
    no_data = np.nan
    if rng.random() < 0.3:
        no_data = float(rng.choice([-999.0, 0.5, 1e-3]))
        hit = rng.random(size=data.shape) < 0.15
        data[hit] = no_data * (1 + (5e-6 if rng.random() < 0.3 else 0.0))      # also values that are only isclose
        if rng.random() < 0.5:
            data.reshape(nf, -1)[:, int(rng.integers(n))] = no_data
    fmask = np.zeros(data.shape, bool)
    if rng.random() < 0.4:
        fmask = rng.random(size=data.shape) < 0.2
        if rng.random() < 0.5:
            fmask.reshape(nf, -1)[:, int(rng.integers(n))] = True
    gmask = None
    if rng.random() < 0.3:
        gmask = rng.random(size=shape) < 0.25
        if gmask.all():
            gmask.reshape(-1)[0] = False
    mask_class = MASK_CLASSES[int(rng.integers(len(MASK_CLASSES)))]
    stacked = nf > 1 or rng.random() < 0.4
    fld = data if stacked else data[0]
    fm = fmask if stacked else fmask[0]
    field_arg = np.ma.array(fld, mask=fm) if fmask.any() else fld.copy()
    # bins
    geo = float(rng.choice([1.0, DEG, KM, 3.7])) if latlon else 1.0
    edges = None
    if rng.random() < 0.6:
        nb = int(rng.integers(1, 6))
        top = np.pi * 0.9 if latlon else 6.0
        edges = np.sort(rng.uniform(0, top, nb + 1))
        if rng.random() < 0.7:
            edges[0] = 0.0
        edges = edges * geo
    # standard_bins overrides (only used when no edges are given); max_dist in the unit of geo_scale
    stdkw = {}
    if edges is None and rng.random() < 0.5:
        if rng.random() < 0.7:
            stdkw["max_dist"] = float(rng.uniform(0.2, 2.5) * geo) if latlon else float(rng.uniform(0.5, 6.0))
        if rng.random() < 0.6 or not stdkw:
            stdkw["bin_no"] = int(rng.integers(1, 9))
    # directions
    direction = angles = None
    tol = np.pi / 8
    bw = None
    if not latlon and dim > 1 and rng.random() < 0.4:
        nd = int(rng.integers(1, 4))
        tol = float(rng.uniform(0.1, np.pi / 2))
        bw = [None, 0.7, 2.5][int(rng.integers(3))]
        if rng.random() < 0.5:
            direction = rng.normal(size=(nd, dim)) * float(rng.choice([1.0, 7.3, 1e-3]))
            if rng.random() < 0.08:        # boundary stream: zero-length / numerically zero direction -> ValueError
                direction[int(rng.integers(nd))] *= float(rng.choice([0.0, 1e-10]))
        else:
            nd = 1 if dim == 3 and rng.random() < 0.5 else nd
            angles = rng.uniform(-np.pi, np.pi, size=(nd, dim - 1))
            if dim == 2 and nd == 1 and rng.random() < 0.5:
                angles = angles.reshape(-1)[0]        # scalar angle
    samp = None
    if rng.random() < 0.3:
        samp = (int(rng.integers(2, n + 3)), int(rng.integers(0, 2 ** 31 - 1)))
    est = "matheron" if rng.random() < 0.55 else "cressie"
    return dict(structured=structured, latlon=latlon, dim=dim, n=n, nf=nf, shape=shape, axes=axes, coords=coords, pos_arg=pos_arg,
                data=data.reshape(nf, -1), fmask=fmask.reshape(nf, -1), gmask=gmask, field_arg=field_arg, no_data=no_data,
                edges=edges, stdkw=stdkw, geo=geo, mask_class=mask_class, direction=direction, angles=angles, tol=tol, bw=bw, samp=samp, est=est)


def call_impl(gs, cfg):
    kw = dict(bin_edges=None if cfg["edges"] is None else cfg["edges"].copy(), estimator=cfg["est"], latlon=cfg["latlon"],
              no_data=cfg["no_data"], return_counts=True,
              mesh_type="structured" if cfg["structured"] else "unstructured")
    if cfg["latlon"]:
        kw["geo_scale"] = cfg["geo"]
    if cfg["gmask"] is not None:
        kw["mask"] = mask_as(cfg["gmask"], cfg.get("mask_class", "bool"))
    if cfg["direction"] is not None:
        kw.update(direction=cfg["direction"].copy(), angles_tol=cfg["tol"], bandwidth=cfg["bw"])
    if cfg["angles"] is not None:
        kw.update(angles=np.copy(cfg["angles"]), angles_tol=cfg["tol"], bandwidth=cfg["bw"])
    if cfg["samp"] is not None:
        kw.update(sampling_size=cfg["samp"][0], sampling_seed=cfg["samp"][1])
    kw.update(cfg.get("stdkw", {}))
    return gs.vario_estimate(cfg["pos_arg"], cfg["field_arg"], **kw)


def cfg_case(cfg):
    out = {k: cfg[k] for k in ("structured", "latlon", "dim", "n", "nf", "no_data", "geo", "tol", "bw", "samp", "est")}
    out["stdkw"] = cfg.get("stdkw", {})
    out["mask_class"] = cfg.get("mask_class")
    out["shape"] = list(cfg["shape"])
    for k in ("coords", "data", "fmask", "gmask", "edges", "direction", "angles"):
        out[k] = None if cfg[k] is None else arr_desc(cfg[k])
    if cfg["axes"] is not None:
        out["axes"] = [arr_desc(a) for a in cfg["axes"]]
    return out


def model_std_bins(drv, latlon, geo, pos, kw):
    return drv.call("std_bins_kw", bool(latlon), float(geo), np.asarray(pos, float),
                    "bin_no" in kw, ("n", kw.get("bin_no", 0)), "max_dist" in kw, float(kw.get("max_dist", 0.0)))


def model_run(drv, cfg):
    """the hand model VarioPre + the proved pair-enumeration spec / translated directional kernel, at floats"""
    if cfg["structured"]:
        pos = drv.call("generate_grid", *[np.asarray(a, float) for a in cfg["axes"]])
    else:
        pos = np.asarray(cfg["coords"], float)
    pos = np.asarray(pos, float).reshape(cfg["dim"], -1)
    gm = np.zeros(0, np.int64) if cfg["gmask"] is None else cfg["gmask"].reshape(-1).astype(np.int64)
    p, f = drv.call("pre_mask", gm, cfg["fmask"].astype(np.int64), pos, cfg["data"])
    f = drv.call("pre_no_data", float(cfg["no_data"]), f)
    p, f = drv.call("pre_drop_missing", p, f)
    dirs = None
    if cfg["dim"] > 1:
        if cfg["direction"] is not None:
            dirs = drv.call("pre_dirs", np.atleast_2d(cfg["direction"]))
        elif cfg["angles"] is not None:
            ang = np.asarray(cfg["angles"], float)
            ang = ang.reshape(-1, cfg["dim"] - 1)
            rows = np.array([drv.call("ang2dir_row", ("n", cfg["dim"]), r) for r in ang])
            dirs = drv.call("pre_dirs", rows)
        if (cfg["direction"] is not None or cfg["angles"] is not None) and dirs is None:
            return dict(error="ValueError")
    idx = None
    n1 = p.shape[1]
    if cfg["samp"] is not None and cfg["samp"][0] < n1:
        idx = np.random.RandomState(cfg["samp"][1]).choice(np.arange(n1), cfg["samp"][0], replace=False)   # oracle
        p, f = drv.call("pre_sample", idx.astype(np.int64), p, f)
    if cfg["edges"] is None:
        kw = cfg.get("stdkw", {})
        if p.shape[1] == 0 and not ("bin_no" in kw and "max_dist" in kw):
            # no point left (everything masked) and no bins given: standard bins of an empty cloud are undefined;
            # the implementation raises ValueError (numpy: zero-size reduction) — outside the property
            return dict(error="ValueError")
        e_user = model_std_bins(drv, cfg["latlon"], cfg["geo"], p, cfg.get("stdkw", {}))
    else:
        e_user = np.asarray(cfg["edges"], float)
    cen = drv.call("centers", e_user)
    e_k = drv.call("pre_edges", bool(cfg["latlon"]), float(cfg["geo"]), e_user)
    et = ord(cfg["est"][0])
    out = dict(pos=p, field=f, edges=e_k, centers=cen, dirs=dirs, idx=idx)
    if dirs is None:
        r = drv.call("unstructured_spec", f, e_k, p, ("z", et), ("z", ord("h" if cfg["latlon"] else "e")))
        out["gamma"], out["counts"] = (None, None) if r is None else r
    else:
        sep = drv.call("sep_test", dirs, float(cfg["tol"]))
        bw = -1.0 if cfg["bw"] is None else float(cfg["bw"])
        r = drv.call("directional", f, e_k, p, dirs, float(cfg["tol"]), bw, bool(sep), ("z", et))
        out["sep"] = sep
        if r is None:
            out["gamma"] = out["counts"] = None
        else:
            g, c = r
            out["gamma"], out["counts"] = (g[0], c[0]) if len(dirs) == 1 else (g, c)
    return out


def sep_near(dirs, tol):
    d = np.atleast_2d(dirs)
    for i in range(len(d) - 1):
        for j in range(i + 1, len(d)):
            s = min(abs(float(d[i] @ d[j])), 1.0)
            if abs(np.arccos(s) - 2 * tol) < 1e-9:
                return True
    return False


# ----------------------------------------------------------------------------- correspondence
def correspondence(ctx, rng, gs, drv, n_cases, thorough):
    bad = []
    for it in range(n_cases):
        cfg = gen_cfg(rng, thorough)
        key = ("pre", cfg["structured"], cfg["latlon"], cfg["dim"], cfg["nf"], cfg["gmask"] is not None, bool(cfg["fmask"].any()),
               not np.isnan(cfg["no_data"]), cfg["edges"] is None, cfg["direction"] is not None, cfg["angles"] is not None,
               cfg["samp"] is not None, cfg["est"], tuple(sorted(cfg["stdkw"])), cfg["mask_class"] if cfg["gmask"] is not None else None)
        ctx.count(key if cfg["n"] >= 3 else None,
                  hist=dict(entry="correspondence", mesh="structured" if cfg["structured"] else "unstructured", latlon=cfg["latlon"],
                            dim=cfg["dim"], n=cfg["n"], nf=cfg["nf"], est=cfg["est"],
                            directional=(cfg["direction"] is not None or cfg["angles"] is not None), sampling=cfg["samp"] is not None,
                            bins=("default" + "".join("+" + k for k in sorted(cfg["stdkw"]))) if cfg["edges"] is None else "given",
                            mask_arg=cfg["mask_class"] if cfg["gmask"] is not None else "none"))
        if it < 3:
            ctx.sample(dict(kind="correspondence", **{k: v for k, v in cfg_case(cfg).items() if k not in ("coords", "data", "fmask")}))
        with Capture() as cap:
            try:
                res = call_impl(gs, cfg)
                err = None
            except ValueError as e:
                res, err = None, "ValueError"
            except Exception as e:   # noqa
                ctx.violation("probe: vario_estimate raised", "%s: %s" % (type(e).__name__, e), cfg_case(cfg), key="vario_estimate:exception")
                continue
            rec = cap.rec
        m = model_run(drv, cfg)
        if "error" in m or err:
            if ("error" in m) != bool(err):
                bad.append(("exception kind", cfg, dict(model=m.get("error"), impl=err)))
            continue
        problems = []
        exact = True
        if rec is None:
            problems.append("no kernel call observed")
        else:
            if not C.bit_equal(m["pos"], rec["pos"]):
                problems.append("positions handed to the kernel")
            if not C.bit_equal(m["field"], rec["field"]):
                problems.append("field values / NaN positions handed to the kernel")
            if cfg["edges"] is not None:
                if not C.bit_equal(m["edges"], rec["edges"]):
                    problems.append("bin edges handed to the kernel")
            else:
                # default bins: box diameter via BLAS dot (may fuse multiply-add), lat-lon via numpy trig kernels
                # (with a user max_dist only linspace and the division by geo_scale are involved: 1e-15)
                if not rel_close(m["edges"], rec["edges"], rtol=1e-15 if "max_dist" in cfg["stdkw"] else (1e-9 if cfg["latlon"] else 1e-12)):
                    problems.append("standard bins")
                exact = exact and C.bit_equal(m["edges"], rec["edges"])
            if (m["dirs"] is None) != (rec["kind"] == "u"):
                problems.append("directional / isotropic decision")
            elif m["dirs"] is not None:
                # unit vectors: absolute comparison at scale 1 (cos(pi/2)-like components are ~1e-17)
                if np.shape(m["dirs"]) != rec["dirs"].shape or not np.all(np.abs(m["dirs"] - rec["dirs"]) <= (1e-9 if cfg["angles"] is not None else 1e-14)):
                    problems.append("normalised directions")
                exact = exact and C.bit_equal(m["dirs"], rec["dirs"])
                if m["sep"] != rec["sep"] and not sep_near(rec["dirs"], cfg["tol"]):
                    problems.append("separate_dirs decision")
                if rec["bw"] != (-1.0 if cfg["bw"] is None else float(cfg["bw"])) or rec["tol"] != float(cfg["tol"]):
                    problems.append("bandwidth / angles_tol")
            if rec["et"] != cfg["est"][0] or (rec["kind"] == "u" and rec["dt"] != ("h" if cfg["latlon"] else "e")):
                problems.append("estimator / distance type")
        # results
        cen, gam, cnt = res
        if m["gamma"] is None:
            problems.append("model kernel rejected the arguments")
        elif not problems:
            if not rel_close(m["centers"], cen, rtol=1e-15 if (cfg["edges"] is not None or "max_dist" in cfg["stdkw"]) else 1e-9):
                problems.append("bin centres")
            same_counts = np.shape(m["counts"]) == np.shape(cnt) and bool(np.all(np.asarray(m["counts"]) == np.asarray(cnt)))
            if exact:
                if not (same_counts and C.bit_equal(m["gamma"], gam)):
                    problems.append("estimate (model inputs bit-identical, result differs)")
            else:
                near = near_threshold(rec["pos"], rec["edges"], cfg["latlon"], rec.get("dirs"), cfg["tol"], rec.get("bw", -1.0))
                if not near and not (same_counts and rel_close(m["gamma"], gam)):
                    problems.append("estimate")
        if problems:
            bad.append((", ".join(problems), cfg, dict(model={k: (None if v is None else np.asarray(v).tolist()) for k, v in m.items()},
                                                       impl=None if rec is None else {k: (v.tolist() if isinstance(v, np.ndarray) else v) for k, v in rec.items()},
                                                       result=[np.asarray(x).tolist() for x in res])))
    return bad


def std_bins_correspondence(ctx, rng, gs, drv, n_cases):
    """gstools.variogram.standard_bins called directly (all argument combinations) vs the model std_bins_kw, and its
    unit law: lat-lon bins for geo_scale = s and max_dist = m s are s times the radian bins for max_dist = m"""
    bad = []
    for it in range(n_cases):
        latlon = rng.random() < 0.5
        dim = 2 if latlon else int(rng.integers(1, 4))
        structured = rng.random() < 0.3
        if structured:
            shape = tuple(int(x) for x in rng.integers(1, 5, size=dim))
            if latlon and rng.random() < 0.6:
                # regular lat-lon meshes whose ranges cross the equator / contain multiples of 90 degrees: the extreme 3-D
                # coordinates are then attained INSIDE the ranges, not at the corners
                shape = tuple(int(x) for x in rng.integers(3, 10, size=2))
                la0 = float(rng.uniform(-85, 20)); la1 = float(rng.uniform(max(la0 + 5, -10), 88))
                lc = float(rng.choice([-180, -90, 0, 90, 180])) + float(rng.uniform(-30, 30))
                lw = float(rng.uniform(20, 170))
                axes = [np.linspace(la0, la1, shape[0]), np.linspace(lc - lw / 2, lc + lw / 2, shape[1])]
            elif latlon:
                axes = [np.sort(rng.uniform(-80, 80, shape[0])), np.sort(rng.uniform(-170, 170, shape[1]))]
            else:
                axes = [np.sort(rng.normal(size=k) * 2) for k in shape]
            pos_arg = tuple(axes)
            coords = np.asarray(drv.call("generate_grid", *axes), float).reshape(dim, -1)
        else:
            n = int(rng.choice([1, 2, 3, 5, 8, 13, 21, 64, 100]))
            coords = np.vstack([rng.uniform(-85, 85, n), rng.uniform(-180, 180, n)]) if latlon else rng.normal(size=(dim, n)) * 2
            pos_arg = tuple(coords) if rng.random() < 0.7 else coords
        geo = float(rng.choice([1.0, DEG, KM, 3.7])) if latlon else 1.0
        kw = {}
        m_rad = float(rng.uniform(0.1, 2.5))
        if rng.random() < 0.6:
            kw["max_dist"] = m_rad * geo if latlon else float(rng.uniform(0.5, 6.0))
        if rng.random() < 0.5:
            kw["bin_no"] = int(rng.integers(1, 12))
        ctx.count(("standard_bins", latlon, dim, structured, coords.shape[1], geo, tuple(sorted(kw))),
                  hist=dict(entry="correspondence-standard_bins", latlon=latlon, dim=dim, n=coords.shape[1],
                            bins="default" + "".join("+" + k for k in sorted(kw))))
        case = dict(latlon=latlon, dim=dim, structured=structured, geo_scale=geo, kw=kw, coords=arr_desc(coords))
        try:
            impl = np.asarray(gs.variogram.standard_bins(pos_arg, dim, latlon, mesh_type="structured" if structured else "unstructured",
                                                         geo_scale=geo, **kw), float)
        except Exception as e:   # noqa
            bad.append(("standard_bins raised %s: %s" % (type(e).__name__, e), case, {}))
            continue
        mod = np.asarray(model_std_bins(drv, latlon, geo, coords, kw), float)
        rt = 1e-15 if "max_dist" in kw else (1e-9 if latlon else 1e-12)
        if structured:
            # property level (concrete input): a structured mesh gives the same bins as the equivalent point list
            case["axes"] = [arr_desc(a) for a in axes]
            mesh = np.array(np.meshgrid(*axes, indexing="ij"), dtype=float).reshape(dim, -1)
            try:
                pl = np.asarray(gs.variogram.standard_bins(tuple(mesh), dim, latlon, geo_scale=geo, **kw), float)
            except Exception as e:   # noqa
                pl = None
                bad.append(("standard_bins raised %s: %s" % (type(e).__name__, e), case, {}))
            if pl is not None and not rel_close(pl, impl, rtol=1e-12, atol=1e-300):
                ctx.violation("probe: standard_bins structured mesh = equivalent point list",
                              "standard_bins(mesh_type='structured') differs from standard_bins of the expanded point list",
                              dict(case, structured=impl.tolist(), pointlist=pl.tolist()), key="structured:standard_bins-pointlist")
                continue
        if not rel_close(mod, impl, rtol=rt, atol=1e-300):
            bad.append(("standard_bins vs model std_bins_kw", case, dict(model=mod.tolist(), impl=impl.tolist())))
        if latlon and geo != 1.0:
            kw1 = dict(kw)
            if "max_dist" in kw1:
                kw1["max_dist"] = m_rad
            rad = np.asarray(gs.variogram.standard_bins(pos_arg, dim, True, mesh_type="structured" if structured else "unstructured", **kw1), float)
            if not rel_close(rad * geo, impl, rtol=1e-12, atol=1e-300):
                ctx.violation("probe: standard_bins in a length unit = unit x radian bins",
                              "standard_bins(latlon, geo_scale=s, max_dist=m s) is not s x standard_bins(latlon, max_dist=m)",
                              dict(case, radian=rad.tolist(), unit=impl.tolist()), key="latlon:standard_bins-unit")
    return bad


# ----------------------------------------------------------------------------- axis estimator: model vs implementation
class CaptureAxis:
    def __init__(self):
        self.V = importlib.import_module("gstools.variogram.variogram")
        self.rec = None

    def __enter__(self):
        V = self.V
        self.om, self.os = V._ma_structured, V._structured

        def m(field, mask, estimator_type="m", num_threads=None):
            self.rec = dict(kind="ma", field=np.array(np.ma.getdata(field), float), mask=np.array(mask).astype(bool), et=estimator_type)
            return self.om(field, mask, estimator_type, num_threads=num_threads)

        def s_(field, estimator_type="m", num_threads=None):
            self.rec = dict(kind="plain", field=np.array(field, float), et=estimator_type)
            return self.os(field, estimator_type, num_threads=num_threads)
        V._ma_structured, V._structured = m, s_
        return self

    def __exit__(self, *a):
        self.V._ma_structured, self.V._structured = self.om, self.os


def axis_correspondence(ctx, rng, gs, drv, reps):
    """vario_estimate_axis / vario_estimate_structured vs the model axis_estimate (mask = own mask OR missing value, the
    proved lag enumeration over the valid pairs): full product  own mask {with masked elements, mask array without a
    masked element, nomask masked array, plain ndarray, list, int array} x missing {NaN, no_data, no_data + isclose-only
    values, NaN while no_data is set, none} x estimator x every axis (int and 'x','y','z') x both public names."""
    bad = []
    own_kinds = ["masked", "mask-all-false", "ma-nomask", "plain", "list", "int"]
    miss_kinds = ["nan", "no_data", "no_data-isclose", "nan-with-no_data", "none"]
    names = ["vario_estimate_axis", "vario_estimate_structured"]
    for rep in range(reps):
        for ok_ in own_kinds:
            for mk in miss_kinds:
                if ok_ == "int" and mk != "none" and mk != "no_data":
                    continue
                dim = int(rng.integers(1, 4))
                shape = tuple(int(x) for x in rng.integers(1 if rng.random() < 0.1 else 2, 6, size=dim))
                for est in ("matheron", "cressie"):
                    axis = int(rng.integers(dim))
                    name = names[int(rng.integers(2))]
                    data = rng.normal(size=shape)
                    if ok_ == "int":
                        data = np.round(data * 3)
                    nd = np.nan
                    hit = rng.random(size=shape) < 0.2
                    if mk == "nan":
                        data[hit] = np.nan
                    elif mk in ("no_data", "no_data-isclose"):
                        nd = float(rng.choice([-999.0, 2.0, 0.0]))
                        data[hit] = nd * (1 + 5e-6) if (mk == "no_data-isclose" and nd != 0.0) else nd
                    elif mk == "nan-with-no_data":
                        nd = -999.0
                        data[hit] = np.nan
                        data[rng.random(size=shape) < 0.1] = nd
                    own = np.zeros(shape, bool)
                    if ok_ == "masked":
                        own = rng.random(size=shape) < 0.25
                        if not own.any():
                            own.reshape(-1)[int(rng.integers(own.size))] = True
                        if rng.random() < 0.5 and hit.any():
                            own &= ~hit              # keep the missing values outside the own mask
                        arg = np.ma.array(data.copy(), mask=own.copy())
                    elif ok_ == "mask-all-false":
                        arg = np.ma.array(data.copy(), mask=np.zeros(shape, bool))
                    elif ok_ == "ma-nomask":
                        arg = np.ma.array(data.copy())
                    elif ok_ == "list":
                        arg = data.tolist()
                    elif ok_ == "int":
                        arg = data.astype(np.int64)
                    else:
                        arg = data.copy()
                    direction = axis if rng.random() < 0.5 else "xyz"[axis]
                    kw = {} if np.isnan(nd) and rng.random() < 0.5 else dict(no_data=nd)
                    ctx.count(("axis-model", ok_, mk, est, dim, axis, name, isinstance(direction, str)) if shape[axis] >= 3 else None,
                              hist=dict(entry="correspondence-axis", dim=dim, n=int(np.prod(shape)), est=est, own_mask=ok_, missing=mk))
                    case = dict(entry=name, shape=list(shape), direction=direction, est=est, no_data=nd, own_mask_kind=ok_, missing_kind=mk,
                                data=arr_desc(data), own_mask=arr_desc(own))
                    with CaptureAxis() as cap:
                        try:
                            res = np.asarray(getattr(gs, name)(arg, direction=direction, estimator=est, **kw), float)
                        except Exception as e:   # noqa
                            ctx.violation("probe: %s raised" % name, "%s: %s" % (type(e).__name__, e), case, key="vario_estimate_axis:exception")
                            continue
                        rec = cap.rec
                    f2 = np.ascontiguousarray(np.swapaxes(data, 0, axis).reshape(shape[axis], -1))
                    o2 = np.ascontiguousarray(np.swapaxes(own, 0, axis).reshape(shape[axis], -1))
                    exp = np.asarray(drv.call("axis_estimate", float(nd), o2.astype(np.int64), f2, ("z", ord(est[0]))), float)
                    if exp.shape != res.shape or not C.bit_equal(exp, res):
                        ctx.violation("probe: %s vs lag enumeration over the valid pairs" % name,
                                      "the axis estimate differs from the model: a lag pair must be used iff neither cell is masked by the field's own "
                                      "mask nor missing (NaN / no_data)", dict(case, expected=exp.tolist(), got=res.tolist()),
                                      key="axis:model:%s:%s" % (ok_, mk))
                        continue
                    mm = np.asarray(drv.call("axis_mask", float(nd), o2.astype(np.int64), f2)).reshape(f2.shape) != 0
                    masked = bool(drv.call("axis_masked", float(nd), o2.astype(np.int64), f2))
                    if rec is None or (rec["kind"] == "ma") != masked or rec["et"] != est[0] or not C.bit_equal(rec["field"], f2) or (
                            masked and not np.array_equal(rec["mask"], mm)):
                        bad.append(("axis estimator: arguments handed to the kernel (mask union / kernel choice / field)", None,
                                    dict(case=case, model_mask=mm.astype(int).tolist(), impl=None if rec is None else {k: (v.tolist() if isinstance(v, np.ndarray) else v) for k, v in rec.items()})))
    return bad


# ----------------------------------------------------------------------------- call histories with reused caller arrays
def _snap(o):
    if isinstance(o, np.ma.MaskedArray):
        return ("ma", np.array(np.ma.getdata(o), copy=True), np.array(np.ma.getmaskarray(o), copy=True))
    if isinstance(o, np.ndarray):
        return ("nd", o.copy(), o.dtype.str)
    if isinstance(o, (list, tuple)):
        return ("seq", type(o), [_snap(x) for x in o])
    return ("val", o)


def _same(o, sn):
    k = sn[0]
    if k == "ma":
        return isinstance(o, np.ma.MaskedArray) and C.bit_equal(np.ma.getdata(o), sn[1]) and np.array_equal(np.ma.getmaskarray(o), sn[2])
    if k == "nd":
        if not isinstance(o, np.ndarray) or o.dtype.str != sn[2] or o.shape != sn[1].shape:
            return False
        return C.bit_equal(o, sn[1]) if o.dtype.kind == "f" else bool(np.array_equal(o, sn[1]))
    if k == "seq":
        return isinstance(o, sn[1]) and len(o) == len(sn[2]) and all(_same(a, b) for a, b in zip(o, sn[2]))
    v = sn[1]
    return (o is v) or (o == v) or (isinstance(v, float) and isinstance(o, float) and np.isnan(v) and np.isnan(o))


def _layout(rng, a, kinds):
    """the same values as a caller object of another dtype / layout class"""
    a = np.asarray(a)
    kind = kinds[int(rng.integers(len(kinds)))]
    if kind == "f64":                       # passes through np.asarray / np.array(copy=False) unchanged
        return kind, np.array(a, dtype=np.double, order="C", copy=True)
    if kind == "view":                      # non-contiguous float64 view of a bigger buffer
        big = np.zeros(a.shape[:-1] + (2 * a.shape[-1],), dtype=np.double) if a.ndim else np.zeros(2)
        if a.ndim == 0:
            return "f64", np.array(a, dtype=np.double, copy=True)
        big[..., ::2] = a
        return kind, big[..., ::2]
    if kind == "fortran" and a.ndim == 2:
        return kind, np.array(a, dtype=np.double, order="F", copy=True)
    if kind == "int" and a.size and np.all(np.isfinite(a)) and np.all(a == np.round(a)):
        return kind, a.astype(np.int64)
    if kind == "list":
        return kind, a.tolist()
    return "f64", np.array(a, dtype=np.double, order="C", copy=True)


def history_sequences(ctx, rng, gs, drv, n_cases, thorough):
    """>= 3 calls of vario_estimate that share the SAME caller objects (pos, field, bin_edges, mask, direction /
    angles) in every dtype / layout class (float64 arrays that np.asarray hands through unchanged, non-contiguous and
    Fortran views, integer arrays, lists, masked arrays), over all option cells.  The estimate is a function of the
    argument VALUES: every call must equal the model's prediction for the original values, a repeated call must
    reproduce the first one bit for bit (the caller objects found changed are named in the report)."""
    cells = [dict(latlon=True), dict(latlon=False, structured=True), dict(latlon=False, structured=False), {}]
    for it in range(n_cases):
        cfg = gen_cfg(rng, thorough, force=cells[it % len(cells)])
        if cfg["latlon"] and cfg["edges"] is None and it % 2 == 0:
            top = np.pi * 0.9 * cfg["geo"]
            cfg["edges"] = np.concatenate([[0.0], np.sort(rng.uniform(0, top, int(rng.integers(1, 6))))])
            cfg["stdkw"] = {}
        if cfg["edges"] is not None and rng.random() < 0.35:
            # integer-valued edges (natural for km / degree bins): allows an integer caller array
            e = np.unique(np.round(cfg["edges"] * (1.0 if cfg["edges"][-1] >= 4 else 4.0 / max(cfg["edges"][-1], 1e-9))))
            if len(e) >= 2:
                cfg["edges"] = e.astype(float)
        lay = {}
        n, nf, dim = cfg["n"], cfg["nf"], cfg["dim"]
        # ---- caller objects (built once, shared by all calls)
        if cfg["structured"]:
            lay["pos"], pos_obj = ("tuple", tuple(np.array(a, dtype=np.double) for a in cfg["axes"])) if rng.random() < 0.6 else ("list", [a.tolist() for a in cfg["axes"]])
        elif dim == 1 and rng.random() < 0.5:
            lay["pos"], pos_obj = _layout(rng, cfg["coords"][0], ["f64", "view", "list"])
        elif rng.random() < 0.5:
            lay["pos"], pos_obj = "tuple", tuple(np.array(c, dtype=np.double) for c in cfg["coords"])
        else:
            lay["pos"], pos_obj = _layout(rng, cfg["coords"], ["f64", "view", "fortran", "list"])
        fa = cfg["field_arg"]
        if isinstance(fa, np.ma.MaskedArray):
            lay["field"], field_obj = "masked", np.ma.array(np.ma.getdata(fa).copy(), mask=np.ma.getmaskarray(fa).copy())
        else:
            lay["field"], field_obj = _layout(rng, fa, ["f64", "view", "list"] + (["fortran"] if np.ndim(fa) == 2 else []))
        kw = dict(estimator=cfg["est"], latlon=cfg["latlon"], no_data=cfg["no_data"], return_counts=True,
                  mesh_type="structured" if cfg["structured"] else "unstructured")
        if cfg["latlon"]:
            kw["geo_scale"] = cfg["geo"]
        if cfg["edges"] is not None:
            lay["bin_edges"], kw["bin_edges"] = _layout(rng, cfg["edges"], ["f64", "f64", "view", "int", "list"])
        if cfg["gmask"] is not None:
            lay["mask"] = cfg["mask_class"]
            kw["mask"] = mask_as(cfg["gmask"], cfg["mask_class"])
        if cfg["direction"] is not None:
            lay["direction"], kw["direction"] = _layout(rng, cfg["direction"], ["f64", "view", "fortran", "list"])
            kw.update(angles_tol=cfg["tol"], bandwidth=cfg["bw"])
        if cfg["angles"] is not None:
            if np.ndim(cfg["angles"]) == 0:
                lay["angles"], kw["angles"] = "scalar", float(cfg["angles"])
            else:
                lay["angles"], kw["angles"] = _layout(rng, cfg["angles"], ["f64", "list"])
            kw.update(angles_tol=cfg["tol"], bandwidth=cfg["bw"])
        if cfg["samp"] is not None:
            kw.update(sampling_size=cfg["samp"][0], sampling_seed=cfg["samp"][1])
        kw.update(cfg["stdkw"])
        objs = dict(pos=pos_obj, field=field_obj, **{k: kw[k] for k in ("bin_edges", "mask", "direction", "angles") if k in kw})
        snaps = {k: _snap(v) for k, v in objs.items()}
        other = "cressie" if cfg["est"] == "matheron" else "matheron"
        plan = [cfg["est"], other, cfg["est"]] + ([cfg["est"]] if rng.random() < 0.3 else [])
        key = ("history", cfg["latlon"], cfg["geo"], cfg["structured"], dim, nf, tuple(sorted(lay.items())), cfg["edges"] is None,
               cfg["direction"] is not None or cfg["angles"] is not None, cfg["gmask"] is not None, bool(cfg["fmask"].any()),
               not np.isnan(cfg["no_data"]), cfg["samp"] is not None)
        ctx.count(key if n >= 3 else None, n=len(plan),
                  hist=dict(entry="history-reused-arrays", latlon=cfg["latlon"], dim=dim, n=n, nf=nf,
                            bins="default" if cfg["edges"] is None else "given:" + lay["bin_edges"], geo_scale=cfg["geo"],
                            directional=(cfg["direction"] is not None or cfg["angles"] is not None)))
        case = dict(cfg_case(cfg), layouts=lay, plan=plan)
        models = {}
        results = []
        failed = False
        for step, est in enumerate(plan):
            kw["estimator"] = est
            try:
                res = [np.asarray(x) for x in gs.vario_estimate(pos_obj, field_obj, **kw)]
                err = None
            except ValueError:
                res, err = None, "ValueError"
            except Exception as e:   # noqa
                ctx.violation("probe: vario_estimate raised", "%s: %s (call %d of a sequence with reused arrays)" % (type(e).__name__, e, step + 1),
                              case, key="vario_estimate:exception")
                failed = True
                break
            results.append((est, res, err))
            changed = [k for k, v in objs.items() if not _same(v, snaps[k])]
            # (1) a repeated call with the same arguments reproduces the earlier one bit for bit
            prev = next((r for (e0, r, _) in results[:-1] if e0 == est), None)
            first_err = next((x for (e0, _, x) in results[:-1] if e0 == est), None)
            if any(e0 == est for (e0, _, _) in results[:-1]):
                rep_ok = (err == first_err) and (res is None or (prev is not None and all(
                    a.shape == b.shape and (C.bit_equal(a, b) if a.dtype.kind == "f" else np.array_equal(a, b)) for a, b in zip(prev, res))))
                if not rep_ok:
                    ctx.violation("probe: repeated call with the same (reused) argument objects",
                                  "call %d of vario_estimate differs from the identical earlier call: the estimate depends on the call history"
                                  " (caller objects changed so far: %s)" % (step + 1, changed or "none"),
                                  dict(case, call=step + 1, changed=changed, earlier=None if prev is None else [x.tolist() for x in prev],
                                       now=None if res is None else [x.tolist() for x in res]), key="history:repeat")
                    failed = True
                    break
            # (2) every call equals the model's prediction for the ORIGINAL values
            if drv is not None:
                if est not in models:
                    models[est] = model_run(drv, dict(cfg, est=est))
                m = models[est]
                if ("error" in m) != bool(err):
                    ctx.violation("probe: call sequence vs model", "call %d: exception kind differs from the model (%s vs %s)" % (step + 1, m.get("error"), err),
                                  dict(case, call=step + 1), key="history:model")
                    failed = True
                    break
                if not err and m.get("gamma") is not None:
                    near = near_threshold(m["pos"], m["edges"], cfg["latlon"], m.get("dirs"), cfg["tol"], -1.0 if cfg["bw"] is None else cfg["bw"]) or (
                        m.get("dirs") is not None and sep_near(m["dirs"], cfg["tol"]))
                    loose = cfg["edges"] is None and "max_dist" not in cfg["stdkw"]
                    ok = rel_close(m["centers"], res[0], rtol=1e-9 if loose else 1e-15)
                    if ok and not near:
                        ok = np.shape(m["counts"]) == res[2].shape and bool(np.all(np.asarray(m["counts"]) == res[2])) and rel_close(m["gamma"], res[1], atol=1e-300)
                    elif ok:
                        ok = np.shape(m["gamma"]) == res[1].shape
                    if not ok:
                        ctx.violation("probe: call sequence vs model for the original values",
                                      "call %d of vario_estimate with reused caller objects differs from the model's estimate for the original "
                                      "values (caller objects changed so far: %s)" % (step + 1, changed or "none"),
                                      dict(case, call=step + 1, changed=changed, model=[np.asarray(m[k]).tolist() for k in ("centers", "gamma", "counts")],
                                           got=[x.tolist() for x in res]), key="history:model")
                        failed = True
                        break
            # (a caller object that was changed without any effect on the results is C20's subject, not reported here;
            #  the list of changed objects is part of every result violation above)
        if failed:
            continue
    # ---- the same for vario_estimate_axis (masked / NaN field reused) and standard_bins (pos reused)
    for it in range(max(4, n_cases // 8)):
        dim = int(rng.integers(1, 4))
        shape = tuple(int(x) for x in rng.integers(3, 6, size=dim))
        fld = rng.normal(size=shape)
        fld[rng.random(size=shape) < 0.15] = np.nan
        obj = np.ma.array(fld.copy(), mask=rng.random(size=shape) < 0.2) if rng.random() < 0.5 else fld.copy()
        sn = _snap(obj)
        ax = int(rng.integers(dim))
        ctx.count(("history-axis", shape, ax, isinstance(obj, np.ma.MaskedArray)), n=3, hist=dict(entry="history-reused-arrays", dim=dim, n=int(np.prod(shape))))
        outs = []
        for est in ("matheron", "cressie", "matheron"):
            outs.append(np.asarray(gs.vario_estimate_axis(obj, direction=ax, estimator=est)))
        if not C.bit_equal(outs[0], outs[2]) or not _same(obj, sn):
            ctx.violation("probe: repeated vario_estimate_axis with the same field object", "third call differs from the first / field object changed",
                          dict(shape=list(shape), axis=ax, field=arr_desc(fld), first=outs[0].tolist(), third=outs[2].tolist()), key="history:axis")
        latlon = rng.random() < 0.5
        pdim = 2 if latlon else dim
        pts = np.vstack([rng.uniform(-80, 80, 9), rng.uniform(-170, 170, 9)]) if latlon else rng.normal(size=(pdim, 9))
        geo = float(rng.choice([1.0, DEG, KM, 3.7])) if latlon else 1.0
        sp = _snap(pts)
        b = [np.asarray(gs.variogram.standard_bins(pts, pdim, latlon, geo_scale=geo)) for _ in range(3)]
        ctx.count(("history-standard_bins", latlon, pdim, geo), n=3, hist=dict(entry="history-reused-arrays", dim=pdim, n=9))
        if not (C.bit_equal(b[0], b[1]) and C.bit_equal(b[0], b[2]) and _same(pts, sp)):
            ctx.violation("probe: repeated standard_bins with the same pos object", "later call differs from the first / pos changed",
                          dict(latlon=latlon, geo_scale=geo, pos=arr_desc(sp[1]), calls=[x.tolist() for x in b]), key="history:standard_bins")


# ----------------------------------------------------------------------------- probes (metamorphic, real vario_estimate)
class Probe:
    def __init__(self, ctx, gs):
        self.ctx, self.gs = ctx, gs

    def ve(self, pos, fld, case, **kw):
        try:
            r = self.gs.vario_estimate(pos, fld, return_counts=True, **kw)
            return [np.asarray(x) for x in r]
        except Exception as e:   # noqa
            self.ctx.violation("probe: vario_estimate raised", "%s: %s" % (type(e).__name__, e), case, key="vario_estimate:exception")
            return None

    def same(self, name, key, A, B, case, exact=False, near=False, gamma_factor=1.0, center_factor=1.0, rtol=1e-9):
        """A (reference) vs B (transformed run): counts exactly (unless a pair sits on a threshold), values 1e-9
        relative (R theorem; float reassociation) or bit-identical where the generic-T theorems apply"""
        if A is None or B is None:
            return
        ok = A[0].shape == B[0].shape and rel_close(A[0] * center_factor, B[0], rtol=1e-12)
        cnt_ok = A[2].shape == B[2].shape and bool(np.all(A[2] == B[2]))
        if exact:
            ok = ok and cnt_ok and C.bit_equal(A[1] * gamma_factor, B[1])
        elif near:
            ok = ok and A[1].shape == B[1].shape
        else:
            ok = ok and cnt_ok and rel_close(A[1] * gamma_factor, B[1], rtol=rtol, atol=1e-300)
        if not ok:
            self.ctx.violation("probe: " + name, "vario_estimate is not invariant: " + name,
                               dict(case, reference=[x.tolist() for x in A], transformed=[x.tolist() for x in B]), key=key)


def rand_orth(rng, dim):
    q, r = np.linalg.qr(rng.normal(size=(dim, dim)))
    return q * np.sign(np.diag(r))


def probes(ctx, rng, gs, reps, thorough):
    P = Probe(ctx, gs)
    sizes = [3, 5, 8, 13, 21] + ([34, 55] if thorough else [])
    for rep in range(reps):
        for dim in (1, 2, 3):
            n = int(rng.choice(sizes))
            nf = int(rng.integers(1, 4))
            est = "matheron" if rng.random() < 0.5 else "cressie"
            pos = rng.normal(size=(dim, n)) * 2
            f = rng.normal(size=(nf, n))
            if rng.random() < 0.4:
                f[rng.random(size=f.shape) < 0.15] = np.nan
            nb = int(rng.integers(2, 7))
            e = np.sort(rng.uniform(0, 6.0, nb + 1))
            e[0] = 0.0 if rng.random() < 0.7 else e[0]
            fa = f if nf > 1 else f[0]
            base = dict(dim=dim, n=n, nf=nf, est=est, pos=arr_desc(pos), field=arr_desc(f), edges=arr_desc(e))
            hist = dict(entry="probe-isotropic", dim=dim, n=n, nf=nf, est=est)
            near = near_threshold(pos, e)
            A = P.ve(tuple(pos), fa, base, bin_edges=e, estimator=est)
            # permutation of the points
            perm = rng.permutation(n)
            ctx.count(("perm", dim, n, nf, est), hist=hist)
            B = P.ve(tuple(pos[:, perm]), f[:, perm] if nf > 1 else f[0][perm], base, bin_edges=e, estimator=est)
            P.same("permutation of the points", "invariance:permutation", A, B, dict(base, perm=perm.tolist()))
            # translation
            t = rng.normal(size=(dim, 1)) * float(rng.choice([1.0, 100.0]))
            ctx.count(("translation", dim, n, nf, est), hist=hist)
            B = P.ve(tuple(pos + t), fa, base, bin_edges=e, estimator=est)
            P.same("translation of the coordinates", "invariance:translation", A, B, dict(base, t=t.ravel().tolist()),
                   near=near or near_threshold(pos + t, e, eps=1e-9 * max(1.0, float(np.abs(t).max()))))
            # rotation / reflection (any orthogonal matrix)
            if dim > 1:
                Q = rand_orth(rng, dim)
                ctx.count(("rotation", dim, n, nf, est), hist=hist)
                B = P.ve(tuple(Q @ pos), fa, base, bin_edges=e, estimator=est)
                P.same("orthogonal map of the coordinates", "invariance:rotation", A, B, dict(base, Q=Q.tolist()), near=near)
            # f + c and c f
            c = float(rng.choice([-3.5, 0.25, 7.0, 1e3]))
            ctx.count(("shift", dim, n, nf, est), hist=hist)
            B = P.ve(tuple(pos), fa + c, base, bin_edges=e, estimator=est)
            P.same("adding a constant to the field", "invariance:shift", A, B, dict(base, c=c), rtol=1e-9 * max(1.0, c * c))
            ctx.count(("scale", dim, n, nf, est), hist=hist)
            B = P.ve(tuple(pos), fa * c, base, bin_edges=e, estimator=est)
            P.same("scaling the field (gamma scales with c^2)", "invariance:scale", A, B, dict(base, c=c), gamma_factor=c * c)
            # mean / trend / normalizer by hand
            ctx.count(("mean-trend-norm", dim, n, nf, est), hist=hist)
            mean = float(rng.normal())
            tr = (lambda *x: 0.3 * x[0] + 1.0)
            B = P.ve(tuple(pos), fa, base, bin_edges=e, estimator=est, mean=mean, trend=tr)
            hand = f - tr(*pos)[None, :] - mean
            A2 = P.ve(tuple(pos), hand if nf > 1 else hand[0], base, bin_edges=e, estimator=est)
            P.same("mean and trend removed by hand", "preprocessing:mean-trend", A2, B, dict(base, mean=mean), exact=True)
            fpos = np.abs(f) + 0.1
            norm = gs.normalizer.LogNormal() if rng.random() < 0.5 else gs.normalizer.BoxCox(lmbda=0.5)
            B = P.ve(tuple(pos), fpos if nf > 1 else fpos[0], base, bin_edges=e, estimator=est, normalizer=norm, trend=0.05, mean=mean)
            hand = norm.normalize(fpos - 0.05) - mean
            A2 = P.ve(tuple(pos), hand if nf > 1 else hand[0], base, bin_edges=e, estimator=est)
            P.same("trend, normalizer, mean applied by hand", "preprocessing:normalizer", A2, B, dict(base, mean=mean), exact=True)

        # ---- masked / no_data / NaN  ==  removed points (bit-identical: theorem C09_nan_is_removal holds for doubles)
        for dim in (1, 2, 3):
            n = int(rng.choice(sizes[1:]))
            nf = int(rng.integers(1, 4))
            est = "matheron" if rng.random() < 0.5 else "cressie"
            pos = rng.normal(size=(dim, n)) * 2
            f = rng.normal(size=(nf, n))
            m = rng.random(n) < 0.3
            if m.all():
                m[0] = False
            if not m.any():
                m[-1] = True
            e = np.sort(rng.uniform(0, 6.0, int(rng.integers(2, 6)) + 1)); e[0] = 0.0
            for bins in ("given", "default"):
                be = e if bins == "given" else None
                base = dict(dim=dim, n=n, nf=nf, est=est, bins=bins, pos=arr_desc(pos), field=arr_desc(f), removed=arr_desc(m), edges=arr_desc(e))
                hist = dict(entry="probe-missing", dim=dim, n=n, nf=nf, est=est, bins=bins)
                sel = lambda a: a if nf > 1 else a[0]
                A = P.ve(tuple(pos[:, ~m]), sel(f[:, ~m]), base, bin_edges=be, estimator=est)
                for mc in MASK_CLASSES:
                    ctx.count(("mask-arg", dim, n, nf, est, bins, mc), hist=hist)
                    P.same("mask argument (%s) = removed points" % mc, "missing:mask-arg", A,
                           P.ve(tuple(pos), sel(f), base, bin_edges=be, estimator=est, mask=mask_as(m, mc)), dict(base, mask_class=mc), exact=True)
                ctx.count(("masked-array", dim, n, nf, est, bins), hist=hist)
                P.same("masked array = removed points", "missing:masked-array", A,
                       P.ve(tuple(pos), np.ma.array(sel(f), mask=sel(np.tile(m, (nf, 1)))), base, bin_edges=be, estimator=est), base, exact=True)
                fn = f.copy(); fn[:, m] = np.nan
                ctx.count(("nan", dim, n, nf, est, bins), hist=hist)
                P.same("NaN in every field = removed points", "missing:nan", A, P.ve(tuple(pos), sel(fn), base, bin_edges=be, estimator=est), base, exact=True)
                nd = float(rng.choice([-999.0, 0.5]))
                f[np.isclose(f, nd)] += 1.0          # no accidental no_data value among the data (A is recomputed below)
                A = P.ve(tuple(pos[:, ~m]), sel(f[:, ~m]), base, bin_edges=be, estimator=est)
                fd = f.copy(); fd[:, m] = nd
                ctx.count(("no_data", dim, n, nf, est, bins), hist=hist)
                P.same("no_data in every field = removed points", "missing:no_data", A,
                       P.ve(tuple(pos), sel(fd), base, bin_edges=be, estimator=est, no_data=nd), base, exact=True)
                fd2 = f.copy(); fd2[:, m] = nd * (1 + 5e-6)
                ctx.count(("no_data-isclose", dim, n, nf, est, bins), hist=hist)
                P.same("no_data is matched with numpy.isclose (rtol 1e-5), then = removed points", "missing:no_data-isclose", A,
                       P.ve(tuple(pos), sel(fd2), base, bin_edges=be, estimator=est, no_data=nd), base, exact=True)
                # mixtures: mask argument + field mask + NaN + no_data together; union of the masks
                m1 = rng.random(n) < 0.2
                m2 = rng.random(size=(nf, n)) < 0.2
                m3 = rng.random(size=(nf, n)) < 0.1
                m4 = rng.random(size=(nf, n)) < 0.1
                fmix = f.copy(); fmix[m3] = np.nan; fmix[m4 & ~m3] = nd
                # field masks that differ between the fields (no mask argument) = NaN at exactly those values
                fpm = f.copy(); fpm[m2] = np.nan
                if not np.all(m2, axis=0).all():
                    ctx.count(("per-field-mask", dim, n, nf, est, bins), hist=hist)
                    P.same("masked values of single fields = NaN values", "missing:per-field-mask",
                           P.ve(tuple(pos), sel(fpm), base, bin_edges=be, estimator=est),
                           P.ve(tuple(pos), np.ma.array(sel(f), mask=sel(m2)), base, bin_edges=be, estimator=est),
                           dict(base, m2=arr_desc(m2)), exact=True)
                if not m1.all():
                    ctx.count(("mixed", dim, n, nf, est, bins), hist=hist)
                    miss = m2 | m3 | m4 | m1[None, :]
                    fall = f.copy(); fall[miss] = np.nan
                    keep = ~np.all(miss, axis=0)
                    if keep.any():      # (everything missing + default bins: ValueError from standard_bins, out of scope)
                        B = P.ve(tuple(pos), np.ma.array(sel(fmix), mask=sel(m2)), base, bin_edges=be, estimator=est, no_data=nd,
                                 mask=mask_as(m1, MASK_CLASSES[int(rng.integers(len(MASK_CLASSES)))]))
                        A3 = P.ve(tuple(pos[:, keep]), sel(fall[:, keep]), base, bin_edges=be, estimator=est)
                        P.same("union of mask argument, field mask, NaN and no_data", "missing:union", A3, B,
                               dict(base, m1=arr_desc(m1), m2=arr_desc(m2), m3=arr_desc(m3), m4=arr_desc(m4), no_data=nd), exact=True)
                        if be is not None and B is not None and not near_threshold(pos, e):
                            bg, bn = brute_iso(pos, fall, e, est)       # every point kept, missing values marked NaN
                            if not (np.array_equal(bn, B[2]) and rel_close(bg, B[1], atol=1e-300)):
                                ctx.violation("probe: missing values vs independent pair enumeration",
                                              "vario_estimate with mask argument, field masks, NaN and no_data differs from enumerating all "
                                              "pairs of the values that are present",
                                              dict(base, m1=arr_desc(m1), m2=arr_desc(m2), m3=arr_desc(m3), m4=arr_desc(m4), no_data=nd,
                                                   expected=[bg.tolist(), bn.tolist()], got=[B[1].tolist(), B[2].tolist()]), key="missing:brute")
            # multi-field stack with per-field NaNs: counts add up, Matheron sums add up
            if nf > 1:
                fp = f.copy(); fp[rng.random(size=f.shape) < 0.25] = np.nan
                base = dict(dim=dim, n=n, nf=nf, pos=arr_desc(pos), field=arr_desc(fp), edges=arr_desc(e))
                ctx.count(("stack", dim, n, nf), hist=dict(entry="probe-stack", dim=dim, n=n, nf=nf))
                S = P.ve(tuple(pos), fp, base, bin_edges=e)
                singles = [P.ve(tuple(pos), fp[k], base, bin_edges=e) for k in range(nf)]
                if S is not None and all(s is not None for s in singles):
                    csum = sum(s[2] for s in singles)
                    gsum = sum(s[1] * 2 * np.maximum(s[2], 1) for s in singles)
                    if not (np.all(csum == S[2]) and rel_close(gsum, S[1] * 2 * np.maximum(S[2], 1), rtol=1e-9, atol=1e-300)):
                        ctx.violation("probe: field stack with per-field NaNs", "a NaN in one field must remove exactly that field's pairs: "
                                      "stack counts/sums differ from the sum over the single fields",
                                      dict(base, stack=[x.tolist() for x in S], singles=[[x.tolist() for x in s] for s in singles]), key="missing:stack")

        # ---- structured mesh = expanded point list (bit-identical), incl. masks and stacks
        for dim in (1, 2, 3):
            shape = tuple(int(x) for x in rng.integers(2, 5, size=dim))
            axes = [np.sort(rng.normal(size=s)) * 2 for s in shape]
            nf = int(rng.integers(1, 3))
            fld = rng.normal(size=(nf,) + shape)
            if rng.random() < 0.5:
                fld[rng.random(size=fld.shape) < 0.15] = np.nan
            mask = rng.random(size=shape) < 0.2 if rng.random() < 0.5 else None
            if mask is not None and mask.all():
                mask = None
            mesh = np.array(np.meshgrid(*axes, indexing="ij")).reshape(dim, -1)
            est = "matheron" if rng.random() < 0.5 else "cressie"
            for bins in ("given", "default"):
                e = np.sort(rng.uniform(0, 5.0, 4)); e[0] = 0.0
                be = e if bins == "given" else None
                base = dict(dim=dim, shape=list(shape), nf=nf, est=est, bins=bins, axes=[arr_desc(a) for a in axes], field=arr_desc(fld),
                            mask=None if mask is None else arr_desc(mask))
                ctx.count(("structured", shape, nf, est, bins, mask is not None), hist=dict(entry="probe-structured", dim=dim, n=int(np.prod(shape)), nf=nf, bins=bins))
                mcl = MASK_CLASSES[int(rng.integers(len(MASK_CLASSES)))]
                kw = {} if mask is None else dict(mask=mask_as(mask, mcl))
                kw2 = {} if mask is None else dict(mask=mask_as(mask.reshape(-1), mcl))
                A = P.ve(tuple(axes), fld if nf > 1 else fld[0], base, bin_edges=be, estimator=est, mesh_type="structured", **kw)
                B = P.ve(tuple(mesh), fld.reshape(nf, -1) if nf > 1 else fld.reshape(-1), base, bin_edges=be, estimator=est, **kw2)
                P.same("structured mesh = equivalent point list", "structured:pointlist", B, A, base, exact=True)

        # ---- seeded sub-sampling = estimating on that reproducible subset
        for dim in (1, 2, 3):
            n = int(rng.choice(sizes[2:]))
            nf = int(rng.integers(1, 3))
            pos = rng.normal(size=(dim, n)) * 2
            f = rng.normal(size=(nf, n))
            m = rng.random(n) < 0.2
            if m.all():
                m[:] = False
            k = int(rng.integers(2, n))
            seed = int(rng.integers(0, 2 ** 31 - 1))
            e = np.sort(rng.uniform(0, 6.0, 5)); e[0] = 0.0
            for bins in ("given", "default"):
                be = e if bins == "given" else None
                base = dict(dim=dim, n=n, nf=nf, bins=bins, k=k, seed=seed, pos=arr_desc(pos), field=arr_desc(f), mask=arr_desc(m), edges=arr_desc(e))
                ctx.count(("sampling", dim, n, nf, bins), hist=dict(entry="probe-sampling", dim=dim, n=n, nf=nf, bins=bins))
                A = P.ve(tuple(pos), f if nf > 1 else f[0], base, bin_edges=be, sampling_size=k, sampling_seed=seed, mask=mask_as(m, MASK_CLASSES[int(rng.integers(len(MASK_CLASSES)))]))
                A_again = P.ve(tuple(pos), f if nf > 1 else f[0], base, bin_edges=be, sampling_size=k, sampling_seed=seed, mask=m)
                P.same("same seed, same estimate", "sampling:reproducible", A, A_again, base, exact=True)
                pk, fk = pos[:, ~m], f[:, ~m]
                if k < pk.shape[1]:
                    idx = np.random.RandomState(seed).choice(np.arange(pk.shape[1]), k, replace=False)
                    pk, fk = pk[:, idx], fk[:, idx]
                    if len(set(idx.tolist())) != k:
                        ctx.violation("probe: sampling", "sampled indices repeat", base, key="sampling:replacement")
                B = P.ve(tuple(pk), fk if nf > 1 else fk[0], base, bin_edges=be)
                P.same("seeded sub-sampling = estimate of the drawn subset", "sampling:subset", B, A, base, exact=True)
                if k < pk.shape[1] + 0 and be is not None:
                    srt = np.sort(idx)
                    pk2, fk2 = pos[:, ~m][:, srt], f[:, ~m][:, srt]
                    B2 = P.ve(tuple(pk2), fk2 if nf > 1 else fk2[0], base, bin_edges=be)
                    P.same("sub-sample depends on the index set only", "sampling:order", B2, A, base, near=near_threshold(pk2, e))

        # ---- directional: joint rotation of points and directions; angles = direction vectors; scaling of directions
        for dim in (2, 3):
            n = int(rng.choice(sizes[1:]))
            pos = rng.normal(size=(dim, n)) * 2
            f = rng.normal(size=n)
            nd = int(rng.integers(1, 4))
            dirs = rng.normal(size=(nd, dim))
            tol = float(rng.uniform(0.15, np.pi / 2))
            bw = [None, 0.7, 2.5][int(rng.integers(3))]
            est = "matheron" if rng.random() < 0.5 else "cressie"
            e = np.sort(rng.uniform(0, 6.0, int(rng.integers(2, 6)) + 1)); e[0] = 0.0
            base = dict(dim=dim, n=n, nd=nd, tol=tol, bw=bw, est=est, pos=arr_desc(pos), field=arr_desc(f), dirs=arr_desc(dirs), edges=arr_desc(e))
            hist = dict(entry="probe-directional", dim=dim, n=n, nd=nd, est=est)
            near = near_threshold(pos, e, False, dirs, tol, bw) or sep_near(dirs / np.linalg.norm(dirs, axis=1)[:, None], tol)
            A = P.ve(tuple(pos), f, base, bin_edges=e, direction=dirs, angles_tol=tol, bandwidth=bw, estimator=est)
            Q = rand_orth(rng, dim)
            ctx.count(("dir-rotation", dim, n, nd, est, bw is not None), hist=hist)
            B = P.ve(tuple(Q @ pos), f, base, bin_edges=e, direction=dirs @ Q.T, angles_tol=tol, bandwidth=bw, estimator=est)
            P.same("directional variogram rotates with the coordinate system", "directional:rotation", A, B, dict(base, Q=Q.tolist()), near=near)
            ctx.count(("dir-perm", dim, n, nd, est, bw is not None), hist=hist)
            perm = rng.permutation(n)
            B = P.ve(tuple(pos[:, perm]), f[perm], base, bin_edges=e, direction=dirs, angles_tol=tol, bandwidth=bw, estimator=est)
            P.same("directional: permutation of the points", "directional:permutation", A, B, dict(base, perm=perm.tolist()), near=near)
            ctx.count(("dir-scale", dim, n, nd, est, bw is not None), hist=hist)
            sc = rng.choice([-1.0, 7.3, 1e-4], size=(nd, 1))
            B = P.ve(tuple(pos), f, base, bin_edges=e, direction=dirs * sc, angles_tol=tol, bandwidth=bw, estimator=est)
            P.same("direction vectors are normalised (length and sign do not matter)", "directional:normalisation", A, B, dict(base, factors=sc.ravel().tolist()), near=near)
            # angles
            if dim == 2:
                ang = rng.uniform(-np.pi, np.pi, size=nd)
                vec = np.stack([np.cos(ang), np.sin(ang)], axis=1)
                ang_arg = ang.reshape(-1, 1) if nd > 1 else float(ang[0])
            else:
                nd = 1
                ang = np.array([[rng.uniform(-np.pi, np.pi), rng.uniform(0, np.pi)]])
                vec = np.array([[np.sin(ang[0, 1]) * np.cos(ang[0, 0]), np.sin(ang[0, 1]) * np.sin(ang[0, 0]), np.cos(ang[0, 1])]])
                ang_arg = ang[0]
            near2 = near_threshold(pos, e, False, vec, tol, bw) or sep_near(vec, tol)
            ctx.count(("dir-angles", dim, n, nd, est, bw is not None), hist=hist)
            A = P.ve(tuple(pos), f, base, bin_edges=e, direction=vec, angles_tol=tol, bandwidth=bw, estimator=est)
            B = P.ve(tuple(pos), f, base, bin_edges=e, angles=ang_arg, angles_tol=tol, bandwidth=bw, estimator=est)
            P.same("angles = direction vector (ISO 80000-2 spherical coordinates)", "directional:angles", A, B, dict(base, angles=np.asarray(ang).tolist()), near=near2)

        # ---- lat-lon: bins in any length unit = bins in radians after unit conversion
        for _ in range(2):
            n = int(rng.choice(sizes[1:]))
            ll = np.vstack([rng.uniform(-85, 85, n), rng.uniform(-180, 180, n)])
            nf = int(rng.integers(1, 3))
            f = rng.normal(size=(nf, n))
            est = "matheron" if rng.random() < 0.5 else "cressie"
            er = np.sort(rng.uniform(0, np.pi, int(rng.integers(2, 6)) + 1)); er[0] = 0.0
            near = near_threshold(ll, er, latlon=True, eps=1e-10)
            for bins in ("given", "default"):
                R = P.ve(tuple(ll), f if nf > 1 else f[0], dict(n=n), bin_edges=er if bins == "given" else None, latlon=True, estimator=est)
                for s in (1.0, DEG, KM, 3.7):
                    base = dict(n=n, nf=nf, est=est, bins=bins, geo_scale=s, latlon=arr_desc(ll), field=arr_desc(f), edges_rad=arr_desc(er))
                    ctx.count(("geo_scale", n, nf, est, bins, s), hist=dict(entry="probe-latlon", n=n, nf=nf, geo_scale=s, bins=bins))
                    B = P.ve(tuple(ll), f if nf > 1 else f[0], base, bin_edges=er * s if bins == "given" else None, latlon=True, geo_scale=s, estimator=est)
                    nr = near
                    if bins == "default" and R is not None:
                        k = len(R[0])
                        edges_rad = np.linspace(0, (R[0][-1] + R[0][0]) if k else 0.0, k + 1)
                        nr = near_threshold(ll, edges_rad, latlon=True, eps=1e-10)
                    P.same("great-circle binning in a length unit = binning in radians after unit conversion", "latlon:geo_scale",
                           R, B, base, near=nr, center_factor=s)
            # standard_bins overrides in the unit: max_dist = m s [, bin_no = k]  <->  max_dist = m in radians
            m_rad = float(rng.uniform(0.3, 2.5))
            for kwr in (dict(max_dist=m_rad), dict(max_dist=m_rad, bin_no=int(rng.integers(2, 9))), dict(bin_no=int(rng.integers(2, 9)))):
                R = P.ve(tuple(ll), f if nf > 1 else f[0], dict(n=n), latlon=True, estimator=est, **kwr)
                if R is None:
                    continue
                k = len(R[0])
                top = (R[0][-1] + R[0][0]) if k else 0.0
                nr = near_threshold(ll, np.linspace(0, top, k + 1), latlon=True, eps=1e-10)
                for s in (DEG, KM, 3.7):
                    kws = dict(kwr)
                    if "max_dist" in kws:
                        kws["max_dist"] = m_rad * s
                    base = dict(n=n, nf=nf, est=est, geo_scale=s, std_bins=kws, latlon=arr_desc(ll), field=arr_desc(f))
                    ctx.count(("geo_scale-kw", n, nf, est, s, tuple(sorted(kws))),
                              hist=dict(entry="probe-latlon", n=n, nf=nf, geo_scale=s, bins="default" + "".join("+" + q for q in sorted(kws))))
                    B = P.ve(tuple(ll), f if nf > 1 else f[0], base, latlon=True, geo_scale=s, estimator=est, **kws)
                    P.same("lat-lon standard bins with max_dist / bin_no given in the unit = radian bins after unit conversion",
                           "latlon:geo_scale:std_bins-overrides", R, B, base, near=nr, center_factor=s)
            # rigid motion on the sphere that vario_estimate can express: shifting all longitudes, mirroring latitudes
            ctx.count(("latlon-shift", n, nf, est), hist=dict(entry="probe-latlon", n=n, nf=nf, geo_scale="lon-shift", bins="given"))
            R = P.ve(tuple(ll), f if nf > 1 else f[0], dict(n=n), bin_edges=er, latlon=True, estimator=est)
            ll2 = ll.copy(); ll2[1] += float(rng.uniform(-90, 90)); ll2[0] *= -1
            B = P.ve(tuple(ll2), f if nf > 1 else f[0], dict(n=n), bin_edges=er, latlon=True, estimator=est)
            P.same("lat-lon: rotation about the polar axis and mirroring at the equator", "latlon:rigid",
                   R, B, dict(n=n, latlon=arr_desc(ll), latlon2=arr_desc(ll2), field=arr_desc(f), edges=arr_desc(er)), near=near)


def preproc_product(ctx, rng, gs, reps):
    """mean {none, constant, callable} x trend {none, constant, callable} x normalizer {none, class, instance} x
    fit_normalizer: vario_estimate must equal preprocessing by hand in the documented order — detrend, fit the
    normalizer to the DETRENDED data (if requested), normalize, remove the mean — followed by the plain estimate;
    the returned normalizer must carry the parameters fitted to the detrended data."""
    import copy
    P = Probe(ctx, gs)
    classes = [gs.normalizer.YeoJohnson, gs.normalizer.BoxCox, gs.normalizer.Modulus, gs.normalizer.Manly, gs.normalizer.LogNormal]
    for rep in range(reps):
        dim = int(rng.integers(1, 4))
        n = int(rng.choice([12, 20, 30]))
        nf = int(rng.integers(1, 3))
        pos = rng.normal(size=(dim, n)) * 2
        positive = np.exp(0.6 * rng.normal(size=(nf, n))) + 0.3          # detrended data: positive, skewed
        e = np.sort(rng.uniform(0, 6.0, int(rng.integers(2, 6)) + 1)); e[0] = 0.0
        est = "matheron" if rng.random() < 0.5 else "cressie"
        cm, ct = float(rng.normal()), float(rng.uniform(0.5, 3.0))
        a, b = float(rng.uniform(0.3, 1.5)), float(rng.uniform(1.0, 4.0))
        means = [("none", None), ("const", cm), ("callable", lambda *x: 0.4 * x[0] - 0.2)]
        trends = [("none", None), ("const", ct), ("callable", lambda *x: a * x[0] + b)]
        for mname, mean in means:
            for tname, trend in trends:
                tv = trend(*pos) if callable(trend) else (0.0 if trend is None else trend)
                mv = mean(*pos) if callable(mean) else (0.0 if mean is None else mean)
                raw = positive + tv                                           # so that raw - trend is positive (BoxCox, LogNormal)
                for nname in ("none", "class", "instance"):
                    for fit in (False, True):
                        cls = classes[int(rng.integers(len(classes)))]
                        if nname == "none":
                            norm_arg, hand = None, gs.normalizer.Normalizer()
                        elif nname == "class":
                            norm_arg, hand = cls, cls()
                        else:
                            lm = float(rng.uniform(0.2, 1.5))
                            norm_arg = cls() if cls is gs.normalizer.LogNormal else cls(lmbda=lm)
                            hand = copy.deepcopy(norm_arg)
                        ctx.count(("preproc", mname, tname, nname, fit, cls.__name__ if nname != "none" else "-", dim, nf, est),
                                  hist=dict(entry="probe-preprocessing", dim=dim, n=n, nf=nf, est=est, mean=mname, trend=tname,
                                            normalizer=nname + (":" + cls.__name__ if nname != "none" else ""), fit_normalizer=fit))
                        base = dict(dim=dim, n=n, nf=nf, est=est, mean=mname, trend=tname, normalizer=nname, normalizer_class=cls.__name__,
                                    fit_normalizer=fit, mean_const=cm, trend_const=ct, trend_callable=[a, b],
                                    pos=arr_desc(pos), field=arr_desc(raw), edges=arr_desc(e))
                        sel = (lambda x: x) if nf > 1 else (lambda x: x[0])
                        try:
                            import warnings
                            with warnings.catch_warnings():
                                warnings.simplefilter("ignore")
                                det = raw - tv
                                if fit:
                                    hand.fit(det)
                                out = hand.normalize(det) - mv
                                res = gs.vario_estimate(tuple(pos), sel(raw.copy()), e, estimator=est, return_counts=True, mean=mean, trend=trend,
                                                        normalizer=norm_arg, fit_normalizer=fit)
                        except Exception as ex:   # noqa
                            ctx.violation("probe: vario_estimate raised", "%s: %s" % (type(ex).__name__, ex), base, key="vario_estimate:exception")
                            continue
                        A = P.ve(tuple(pos), sel(out), base, bin_edges=e, estimator=est)
                        B = [np.asarray(x) for x in res[:3]]
                        P.same("mean / trend / normalizer / fit_normalizer = preprocessing by hand in the documented order",
                               "preprocessing:product", A, B, base)
                        if fit:
                            if len(res) != 4:
                                ctx.violation("probe: fitted normalizer returned", "fit_normalizer=True must return the fitted normalizer as 4th value",
                                              base, key="preprocessing:fit-return")
                                continue
                            got = res[3]
                            for name in sorted(hand.default_parameter):
                                x, y = float(getattr(hand, name)), float(getattr(got, name))
                                if not abs(x - y) <= 1e-8 * max(1.0, abs(x)):
                                    ctx.violation("probe: parameters of the returned normalizer",
                                                  "the returned normalizer's %s = %r is not the value fitted to the detrended data (%r)" % (name, y, x),
                                                  dict(base, parameter=name, expected=x, got=y), key="preprocessing:fit-parameters")


def axis_probes(ctx, rng, gs, reps):
    """vario_estimate_axis: missing values by NaN / no_data / mask are one and the same; f+c, c f; and the axis
    estimator equals the directional vario_estimate of the same regular grid along that axis"""
    for rep in range(reps):
        for dim in (1, 2, 3):
            shape = tuple(int(x) for x in rng.integers(3, 7, size=dim))
            fld = rng.normal(size=shape)
            axis = int(rng.integers(dim))
            est = "matheron" if rng.random() < 0.5 else "cressie"
            m = rng.random(size=shape) < 0.2
            base = dict(shape=list(shape), axis=axis, est=est, field=arr_desc(fld), mask=arr_desc(m))
            hist = dict(entry="probe-axis", dim=dim, n=int(np.prod(shape)), est=est)

            def va(f, **kw):
                try:
                    return np.asarray(gs.vario_estimate_axis(f, direction=axis, estimator=est, **kw))
                except Exception as e:   # noqa
                    ctx.violation("probe: vario_estimate_axis raised", "%s: %s" % (type(e).__name__, e), base, key="vario_estimate_axis:exception")
                    return None
            ctx.count(("axis-missing", shape, axis, est), hist=hist)
            A = va(np.ma.array(fld, mask=m))
            fn = fld.copy(); fn[m] = np.nan
            fd = fld.copy(); fd[m] = -999.0
            for name, B in (("NaN", va(fn)), ("no_data", va(fd, no_data=-999.0)), ("masked NaN", va(np.ma.array(fn, mask=m)))):
                if A is not None and B is not None and not C.bit_equal(A, B):
                    ctx.violation("probe: vario_estimate_axis missing values", "%s cells are not treated like masked cells" % name,
                                  dict(base, masked=A.tolist(), other=B.tolist()), key="axis:missing:" + name)
            ctx.count(("axis-shift-scale", shape, axis, est), hist=hist)
            c = float(rng.choice([-2.5, 0.5, 30.0]))
            F0, F1, F2 = va(fld), va(fld + c), va(fld * c)
            if F0 is not None and F1 is not None and F2 is not None:
                if not rel_close(F0, F1, rtol=1e-9 * max(1.0, c * c), atol=1e-300) or not rel_close(F0 * c * c, F2, atol=1e-300):
                    ctx.violation("probe: vario_estimate_axis f+c / c f", "axis estimator not shift invariant / not scaling with c^2",
                                  dict(base, c=c, plain=F0.tolist(), shifted=F1.tolist(), scaled=F2.tolist()), key="axis:shift-scale")
            # regular unit grid: lag k along the axis = directional estimate, band < 1, bins [k - 1/2, k + 1/2)
            if dim >= 2:
                ctx.count(("axis-vs-directional", shape, axis, est), hist=hist)
                axes = [np.arange(s, dtype=float) for s in shape]
                d = np.zeros(dim); d[axis] = 1.0
                nk = shape[axis]
                edges = np.arange(nk + 1) - 0.5
                edges[0] = 0.25
                try:
                    _, g = gs.vario_estimate(tuple(axes), np.ma.array(fld, mask=m), edges, direction=[d], bandwidth=0.5, angles_tol=0.3,
                                             estimator=est, mesh_type="structured")
                    if A is not None and not rel_close(A[1:], np.asarray(g)[1:], atol=1e-300):
                        ctx.violation("probe: axis estimator vs directional estimate of the same grid",
                                      "vario_estimate_axis differs from vario_estimate(structured, direction = axis)",
                                      dict(base, axis_est=A.tolist(), directional=np.asarray(g).tolist()), key="axis:vs-directional")
                except Exception as e:   # noqa
                    ctx.violation("probe: vario_estimate raised", "%s: %s" % (type(e).__name__, e), base, key="vario_estimate:exception")


def corpus(ctx, gs):
    """deterministic cases that once failed (kept as regression corpus, run first)"""
    # 1. default bins must not depend on points that carry no data (fixed in /repo: 'fix: vario_estimate drops points ...')
    rng = np.random.default_rng(7)
    pos = rng.normal(size=(2, 12)) * 2
    f = rng.normal(size=12)
    m = np.zeros(12, bool); m[[1, 4, 5, 9]] = True
    fn = f.copy(); fn[m] = np.nan
    P = Probe(ctx, gs)
    base = dict(pos=arr_desc(pos), field=arr_desc(f), removed=arr_desc(m))
    ctx.count(("corpus", "nan-default-bins"), hist=dict(entry="corpus"))
    P.same("NaN points = removed points with default bins", "missing:nan:default-bins",
           P.ve(tuple(pos[:, ~m]), f[~m], base), P.ve(tuple(pos), fn, base), base, exact=True)
    # 2. grids whose axes have equal lengths 2x2 / 3x3x3 are n-D grids, not 1-D point lists
    for shape in ((2, 2), (3, 3, 3)):
        axes = [np.arange(s, dtype=float) * (k + 1.0) for k, s in enumerate(shape)]
        fld = rng.normal(size=shape)
        mesh = np.array(np.meshgrid(*axes, indexing="ij")).reshape(len(shape), -1)
        e = np.array([0.0, 1.5, 2.5, 3.5, 7.0])
        base = dict(shape=list(shape), axes=[arr_desc(a) for a in axes], field=arr_desc(fld))
        ctx.count(("corpus", "equal-axes", shape), hist=dict(entry="corpus"))
        P.same("structured mesh = equivalent point list (equal axis lengths %s)" % (shape,), "structured:equal-axis-lengths-read-as-1d",
               P.ve(tuple(mesh), fld.reshape(-1), base, bin_edges=e), P.ve(tuple(axes), fld, base, bin_edges=e, mesh_type="structured"), base, exact=True)


def run(ctx):
    import gstools as gs
    rng = C.Rng(ctx.seed, "C09")
    thorough = ctx.tier == "thorough"
    ctx.rule = ("vario_estimate configurations: mesh unstructured/structured (dim 1-3), lat-lon with geo_scale in {1, degree, km, 3.7}, "
                "1-3 fields (stacked or not), NaNs, no_data (exact and isclose values), field masks, mask argument, missing-in-every-field "
                "points, given / default bins, directions (vectors of any length, angles, 1-3 directions, tolerance, bandwidth), "
                "sampling sizes/seeds, both estimators; metamorphic transformations (permutation, translation, orthogonal map, f+c, c f, "
                "removal, expansion, subset, unit conversion, joint rotation). non-trivial = at least 3 points; distinct = distinct "
                "(relation or option combination, dim, n, nf, estimator, bins) keys")
    ctx.trusted = [
        "Coq 8.16.1 kernel; stdlib Reals axioms as printed per theorem (R-level theorems), generic-T theorems closed",
        "translator pyx2py/pyx2coq (the specification is proved equal to the translated kernels in C15/C08); ExtrOcamlBasic extraction; OCaml float instance",
        "numpy.random.RandomState(seed).choice is an oracle: the drawn index list is an input of the model",
        "numpy semantics of masked arrays / isclose / linspace / meshgrid as modelled in coq/c09/C09_Model.v (checked by execution on every run)",
    ]
    ctx.not_proved = [
        "float rounding under re-association: the invariance theorems are over R; probes compare with 1e-9 relative and exact counts "
        "(except when a pair distance lies within 1e-11 of a bin edge); the removal theorems hold for every number type and are probed bit-exactly",
        "directional estimates: rotation with the coordinate system is proved for the translated kernel over R; permutation invariance "
        "of the directional estimate is probed only (the directional kernel has no proved pair-enumeration spec yet, see C08)",
        "a NaN in one field of a stack removes exactly that field's pairs: structural lemma C09_nan_point_in_no_pair + probe (counts and Matheron sums add up over the fields)",
        "mean / trend / normalizer preprocessing (normalizer/tools.py) is probed against preprocessing by hand, not modelled",
        "lat-lon: rotation invariance of the great-circle distance is C13; here only longitude shifts / equator mirroring are probed",
    ]
    import time
    t0 = time.time()
    gen = C.regenerate(["Estimator_gen.v"])
    tie_broken = [("%s: %s" % kv) for kv in gen.items() if kv[1]]
    ctx.tie["estimator.pyx"] = "translated (pyx2coq) on this run" if not tie_broken else "TRANSLATION FAILED"
    proofs_ok = (not tie_broken) and ctx.proofs("props/C09.v")
    drv = None
    if not tie_broken:
        ok, out = C.build_driver("c09")
        if ok:
            drv = C.Driver("c09")
        else:
            tie_broken.append("extraction/driver: " + out[-400:])
    ctx.tie["vario_estimate preprocessing (VarioPre: pre_mask, pre_no_data, pre_drop_missing, pre_dirs, ang2dir_row, sep_test, pre_sample, "
            "std_bins_kw (Sturges / box diameter / linspace with the bin_no, max_dist overrides; also vs standard_bins called directly), pre_edges, centers, generate_grid)"] = "hand model + correspondence (arguments handed to the kernels and results)"
    ctx.tie["unstructured_spec / directional"] = "spec proved equal to the translated kernel (C15/C08) / translated kernel; executed on the model's preprocessed arrays"
    t1 = time.time()
    try:
        corpus(ctx, gs)
        bad = []
        if drv is not None:
            bad = correspondence(ctx, rng, gs, drv, 40000 if thorough else 4000, thorough)
            bad += std_bins_correspondence(ctx, rng, gs, drv, 3000 if thorough else 400)
            bad += axis_correspondence(ctx, rng, gs, drv, 40 if thorough else 6)
        history_sequences(ctx, rng, gs, drv, 6000 if thorough else 800, thorough)
        t2 = time.time()
        probes(ctx, rng, gs, 400 if thorough else 40, thorough)
        axis_probes(ctx, rng, gs, 400 if thorough else 40)
        preproc_product(ctx, rng, gs, 200 if thorough else 30)
        ctx.notes.append("wall: proofs+driver build (incl. waiting for the shared build lock) %.0fs, correspondence %.0fs, probes %.0fs"
                         % (t1 - t0, t2 - t1, time.time() - t2))
        C.log("[C09] " + ctx.notes[-1])
    finally:
        if drv:
            drv.close()
    if bad:
        what, cfg, detail = bad[0]
        ctx.notes.append("correspondence disagreements: %d (first: %s)" % (len(bad), what))
        if not ctx.violations:
            ctx.violation("correspondence: VarioPre model vs vario_estimate", "the preprocessing model no longer matches the implementation: " + what,
                          dict(cfg=cfg_case(cfg) if (isinstance(cfg, dict) and "pos_arg" in cfg) else cfg, detail=detail, n_disagreements=len(bad)),
                          key="correspondence:" + what, no_input=True)
    if (tie_broken or not proofs_ok) and not ctx.violations:
        ctx.violation("proof/tie", "proof obligations or the model/code tie of C09 no longer check: %s" % (
            tie_broken or getattr(ctx, "proof_failure", {}).get("output_tail", "")[-600:]),
            dict(tie_broken=tie_broken, proof=getattr(ctx, "proof_failure", None)), no_input=True)


def replay(ctx, path):
    rec = json.load(open(path))
    print(json.dumps({k: rec[k] for k in ("stage", "what", "seed", "tier")}, indent=1))
    ctx.seed, ctx.tier = rec.get("seed", ctx.seed), rec.get("tier", ctx.tier)
    run(ctx)
    return ctx.finish()
