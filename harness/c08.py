"""C08 — empirical variogram estimates equal their mathematical definition.

stages: translate estimator.pyx ; theorems props/C08.v ; extracted hand-written SPEC (pair enumeration) run at floats
vs the compiled kernels (bitwise: the theorems hold for every number type) ; independent numpy brute-force oracle
(documented formulas) vs kernels and vs vario_estimate / vario_estimate_axis end to end."""
import itertools
import json

import numpy as np

import common as C


# ----------------------------------------------------------------- independent oracle (numpy, documented formulas)
def haversine(p, q):
    la1, lo1, la2, lo2 = map(np.deg2rad, (p[0], p[1], q[0], q[1]))
    a = np.sin((la2 - la1) / 2) ** 2 + np.cos(la1) * np.cos(la2) * np.sin((lo2 - lo1) / 2) ** 2
    return 2 * np.arctan2(np.sqrt(a), np.sqrt(1 - a))


def normalise(est, s, n):
    n1 = max(n, 1)
    if est == "m":
        return s / (2.0 * n1)
    return 0.5 * (s / n1) ** 4 / (0.457 + 0.494 / n1 + 0.045 / n1 ** 2)


def incr(est, d):
    return d * d if est == "m" else np.sqrt(abs(d))


def brute_unstructured(f, edges, pos, est="m", dist="e", direction=None, tol=None, bw=-1.0, separate=False):
    """enumerate all pairs; half-open bins; returns (gamma, counts) with one row per direction"""
    nf, n = f.shape
    nb = len(edges) - 1
    nd = 1 if direction is None else len(direction)
    S = np.zeros((nd, nb))
    N = np.zeros((nd, nb), dtype=np.int64)
    for j, k in itertools.combinations(range(n), 2):
        d = np.sqrt(((pos[:, j] - pos[:, k]) ** 2).sum()) if dist == "e" else haversine(pos[:, j], pos[:, k])
        for i in range(nb):
            if not (edges[i] <= d < edges[i + 1]):
                if not np.isnan(d):
                    continue
            dirs = [0]
            if direction is not None:
                dirs = []
                for dd in range(nd):
                    v = pos[:, k] - pos[:, j]
                    sp = float(v @ direction[dd])
                    ok = True
                    if bw > 0:
                        ok = np.sqrt(((v - sp * direction[dd]) ** 2).sum()) < bw
                    if d > 0:
                        t = abs(sp) / d
                        if t < 1.0:
                            ok = ok and (np.arccos(t) < tol)
                    if ok:
                        dirs.append(dd)
                        if separate:
                            break
            for dd in dirs:
                for m in range(nf):
                    if not (np.isnan(f[m, j]) or np.isnan(f[m, k])):
                        N[dd, i] += 1
                        S[dd, i] += incr(est, f[m, k] - f[m, j])
    G = np.array([[normalise(est, S[a, b], N[a, b]) for b in range(nb)] for a in range(nd)])
    if direction is None:
        return G[0], N[0]
    return G, N


def brute_axis(f, mask, est):
    nx, ny = f.shape
    S = np.zeros(nx)
    N = np.zeros(nx, dtype=np.int64)
    for k in range(1, nx):
        for i in range(nx - k):
            for j in range(ny):
                if mask is None or (not mask[i, j] and not mask[i + k, j]):
                    N[k] += 1
                    S[k] += incr(est, f[i, j] - f[i + k, j])
    return np.array([normalise(est, S[k], N[k]) for k in range(nx)])


def rel_close(a, b, rtol=1e-9):
    a = np.asarray(a, float)
    b = np.asarray(b, float)
    return a.shape == b.shape and bool(np.all(np.abs(a - b) <= rtol * np.maximum(1e-300, np.maximum(np.abs(a), np.abs(b)))))


def gen_cloud(rng, dim, n, kind):
    if kind == "lattice":
        pos = rng.integers(-2, 3, size=(dim, n)).astype(float)          # duplicates, collinear, exact distances
    elif kind == "collinear":
        t = rng.normal(size=n)
        v = rng.normal(size=dim)
        pos = np.outer(v, t)
    else:
        pos = rng.normal(size=(dim, n)) * 2
    return np.ascontiguousarray(pos)


def gen_edges(rng, nb, maxd=5.0, first_zero=None, pos=None):
    if pos is not None and pos.shape[1] >= 3 and rng.random() < 0.5:
        # edges that coincide exactly with pair distances: half-open bin semantics [e_i, e_{i+1}) decided at equality
        dd = np.unique(np.sqrt(((pos[:, :, None] - pos[:, None, :]) ** 2).sum(axis=0)).ravel())
        if len(dd) >= 2:
            return np.sort(rng.choice(dd, size=min(len(dd), nb + 1), replace=False))
    e = np.sort(rng.uniform(0, maxd, nb + 1))
    if first_zero if first_zero is not None else rng.random() < 0.5:
        e[0] = 0.0
    if rng.random() < 0.3 and nb >= 2:
        e[1] = e[0] + 1e-9      # (nearly) empty bin
        e = np.sort(e)
    return e


def describe(*arrs):
    return [dict(shape=list(np.shape(a)), hex=[C.fhex(v) for v in np.asarray(a, float).ravel()[:3000]]) for a in arrs]


def run(ctx):
    from gstools.variogram import estimator as E
    import gstools as gs
    rng = C.Rng(ctx.seed, "C08")
    thorough = ctx.tier == "thorough"
    ctx.rule = ("point clouds dim 1-3 (normal / integer lattice with duplicates / collinear), 1-3 fields with NaNs, random increasing "
                "edges (first edge 0 or >0, near-empty bins), both estimators, euclid/haversine, 1-3 directions with tolerance, "
                "bandwidth, overlapping/separated; grids with masks. non-trivial = at least 3 points and 2 bins (or 3 grid rows); "
                "distinct = distinct (entry, dim, n, nf, nb, est, options) keys")
    ctx.trusted = [
        "Coq 8.16.1 kernel; stdlib Reals axioms as printed per theorem",
        "translator pyx2py/pyx2coq; ExtrOcamlBasic extraction; OCaml float instance (glibc libm)",
        "numpy brute-force oracle in this file (independent re-implementation of the documented formulas)",
    ]
    ctx.not_proved = [
        "that the wrapper's _separate_dirs_test (cones at least 2*tol apart) implies the premise of C08_break_harmless (no pair of "
        "distinct points passes two direction tests) is proved in 2-D (C08_separated_2d) and probed only in 3-D; it is false for "
        "coincident points (the known finding)",
        "the meaning of the direction test (angle via acos of |cos|, band distance) over the reals is not restated as a theorem; it is the translated dir_test",
        "float rounding: the generic theorems hold for doubles as executed; the R-level meaning (order freedom) ignores rounding",
        "vario_estimate preprocessing (masking, no_data, sampling, direction normalisation) is property C09",
    ]
    gen = C.regenerate(["Estimator_gen.v"])
    tie_broken = [("%s: %s" % kv) for kv in gen.items() if kv[1]]
    ctx.tie["estimator.pyx"] = "translated (pyx2coq) on this run" if not tie_broken else "TRANSLATION FAILED"
    proofs_ok = (not tie_broken) and ctx.proofs("props/C08.v")
    drv = None
    if not tie_broken:
        ok, out = C.build_driver("c08")
        if ok:
            drv = C.Driver("c08")
        else:
            tie_broken.append("extraction/driver: " + out[-400:])
    ctx.tie["unstructured_spec/structured_spec/ma_structured_spec"] = "hand-written spec, proved equal to the translated kernel, executed vs the .so (bitwise)"

    n_reps = 6 if thorough else 4
    sizes = [0, 1, 2, 3, 5, 9, 17] + ([33] if thorough else [])
    try:
        # ---- A. spec (extracted, floats) vs compiled kernel, bitwise; and vs brute force
        for rep in range(n_reps):
            for dim in (1, 2, 3):
                for n in sizes:
                    for est in ("m", "c"):
                        kind = ["normal", "lattice", "collinear"][int(rng.integers(3))]
                        pos = gen_cloud(rng, dim, n, kind)
                        nf = int(rng.integers(1, 4))
                        f = rng.normal(size=(nf, n))
                        if n and rng.random() < 0.6:
                            f[rng.random(size=f.shape) < 0.25] = np.nan
                        nb = int(rng.integers(1, 6))
                        edges = gen_edges(rng, nb, pos=pos if kind == "lattice" else None)
                        nb = len(edges) - 1
                        key = ("unstructured", dim, n, nf, nb, est, kind)
                        ctx.count(key if (n >= 3 and nb >= 2) else None, hist=dict(entry="unstructured", dim=dim, n=n, est=est, cloud=kind))
                        ctx.sample(dict(entry="unstructured", dim=dim, n=n, nf=nf, edges=edges.tolist(), est=est, cloud=kind))
                        g, c = E.unstructured(f, edges, pos, est, "e")
                        case = dict(entry="unstructured", est=est, dist="e", arrays=describe(f, edges, pos))
                        if drv is not None:
                            r = drv.call("unstructured_spec", f, edges, pos, ("z", ord(est)), ("z", ord("e")))
                            if r is None or not (C.bit_equal(r[0], g) and (r[1] == c).all()):
                                ctx.violation("correspondence: pair-enumeration spec vs compiled unstructured",
                                              "compiled estimator differs from the pair-enumeration specification", case, key="unstructured:spec-vs-so")
                        bg, bc = brute_unstructured(f, edges, pos, est)
                        if not ((bc == c).all() and rel_close(bg, g)):
                            ctx.violation("probe: brute-force pair enumeration vs unstructured kernel",
                                          "bin values/counts differ from enumerating all pairs with the documented formulas",
                                          dict(case, expected=[bg.tolist(), bc.tolist()], got=[np.asarray(g).tolist(), np.asarray(c).tolist()]),
                                          key="unstructured:brute")
            # haversine
            for n in sizes[2:]:
                for est in ("m", "c"):
                    ll = np.vstack([rng.uniform(-90, 90, n), rng.uniform(-200, 400, n)])
                    if n > 2:
                        ll[:, 1] = ll[:, 0]
                        ll[0, 2] = 90.0
                    ll = np.ascontiguousarray(ll)
                    f = rng.normal(size=(1, n))
                    nb = int(rng.integers(1, 6))
                    edges = np.sort(rng.uniform(0, np.pi, nb + 1)); edges[0] = 0.0
                    ctx.count(("haversine", n, nb, est) if n >= 3 and nb >= 2 else None, hist=dict(entry="unstructured-haversine", n=n, est=est))
                    g, c = E.unstructured(f, edges, ll, est, "h")
                    case = dict(entry="unstructured", est=est, dist="h", arrays=describe(f, edges, ll))
                    if drv is not None:
                        r = drv.call("unstructured_spec", f, edges, ll, ("z", ord(est)), ("z", ord("h")))
                        if r is None or not (C.bit_equal(r[0], g) and (r[1] == c).all()):
                            ctx.violation("correspondence: spec vs compiled unstructured (haversine)", "compiled estimator differs from spec", case,
                                          key="unstructured-h:spec-vs-so")
                    bg, bc = brute_unstructured(f, edges, ll, est, dist="h")
                    # a pair whose great-circle distance is within 1e-12 of an edge may legitimately fall either side
                    if not ((bc == c).all() and rel_close(bg, g)) and not near_edge(ll, edges, "h"):
                        ctx.violation("probe: brute force vs unstructured kernel (great-circle)", "great-circle binning differs from definition",
                                      case, key="unstructured-h:brute")
            # grids
            for (nx, ny) in [(1, 1), (2, 1), (3, 2), (5, 4), (9, 3), (17, 5)] + ([(40, 7)] if thorough else []):
                for est in ("m", "c"):
                    f = rng.normal(size=(nx, ny))
                    mask = rng.random(size=(nx, ny)) < 0.3
                    ctx.count(("grid", nx, ny, est) if nx >= 3 else None, hist=dict(entry="structured", n=nx, est=est))
                    g1 = E.structured(f, est)
                    g2 = E.ma_structured(f, mask.astype(np.uint8), est)
                    case = dict(entry="structured", est=est, arrays=describe(f, mask))
                    if drv is not None:
                        r1 = drv.call("structured_spec", f, ("z", ord(est)))
                        r2 = drv.call("ma_structured_spec", f, mask.astype(np.int64), ("z", ord(est)))
                        if not C.bit_equal(r1, g1):
                            ctx.violation("correspondence: lag-enumeration spec vs compiled structured", "structured differs from spec", case, key="structured:spec-vs-so")
                        if not C.bit_equal(r2, g2):
                            ctx.violation("correspondence: lag-enumeration spec vs compiled ma_structured", "ma_structured differs from spec", case, key="ma_structured:spec-vs-so")
                    if not rel_close(brute_axis(f, None, est), g1):
                        ctx.violation("probe: brute force vs structured", "axis estimator differs from definition", case, key="structured:brute")
                    if not rel_close(brute_axis(f, mask, est), g2):
                        ctx.violation("probe: brute force vs ma_structured", "masked axis estimator differs from definition", case, key="ma_structured:brute")
        # ---- B. directional kernel vs brute force (documented direction test, bandwidth, separated directions)
        for rep in range(6 * n_reps):
            for dim in (2, 3):
                n = int(rng.choice([2, 3, 5, 9, 14]))
                est = "m" if rng.random() < 0.6 else "c"
                kind = ["normal", "lattice"][int(rng.integers(2))]
                pos = gen_cloud(rng, dim, n, kind)
                f = rng.normal(size=(int(rng.integers(1, 3)), n))
                f[rng.random(size=f.shape) < 0.15] = np.nan
                nb = int(rng.integers(1, 5))
                edges = gen_edges(rng, nb, pos=pos if kind == "lattice" else None)
                nb = len(edges) - 1
                nd = int(rng.integers(1, 4))
                dirs = rng.normal(size=(nd, dim)); dirs /= np.linalg.norm(dirs, axis=1)[:, None]
                if kind == "lattice" and rng.random() < 0.5:
                    dirs = np.eye(dim)[:nd]
                tol = float(rng.uniform(0.05, np.pi / 2))
                bw = float(rng.choice([-1.0, 0.7, 2.5]))
                sep = bool(rng.random() < 0.5)
                ctx.count(("directional", dim, n, nb, nd, est, sep, bw > 0, kind) if n >= 3 and nb >= 2 else None,
                          hist=dict(entry="directional", dim=dim, n=n, est=est, nd=nd, sep=sep))
                g, c = E.directional(f, edges, pos, np.ascontiguousarray(dirs), tol, bw, sep, est)
                bg, bc = brute_unstructured(f, edges, pos, est, direction=dirs, tol=tol, bw=bw, separate=sep)
                case = dict(entry="directional", est=est, tol=tol, bw=bw, separate=sep, arrays=describe(f, edges, pos, dirs))
                if not ((bc == c).all() and rel_close(bg, g)) and not near_edge(pos, edges, "e", dirs, tol, bw):
                    ctx.violation("probe: brute force vs directional kernel", "directional estimate differs from pair enumeration with the documented tests",
                                  case, key="directional:brute")
        # ---- C. end to end: vario_estimate / vario_estimate_axis
        e2e(ctx, rng, gs, n_reps)
    finally:
        if drv:
            drv.close()
    if (tie_broken or not proofs_ok) and not ctx.violations:
        ctx.violation("proof/tie", "proof obligations or the model/code tie of C08 no longer check: %s" % (
            tie_broken or getattr(ctx, "proof_failure", {}).get("output_tail", "")[-600:]),
            dict(tie_broken=tie_broken, proof=getattr(ctx, "proof_failure", None)), no_input=True)


def near_edge(pos, edges, dist, dirs=None, tol=None, bw=-1.0, eps=1e-11):
    """True if some pair distance (or angle / band distance) is within eps of a decision threshold, so that
    the independent oracle and the kernel may legitimately disagree by rounding"""
    n = pos.shape[1]
    for j, k in itertools.combinations(range(n), 2):
        d = np.sqrt(((pos[:, j] - pos[:, k]) ** 2).sum()) if dist == "e" else haversine(pos[:, j], pos[:, k])
        gap = np.abs(edges - d)
        if np.any((gap > 0) & (gap <= eps * max(1.0, d))):
            return True        # near but not equal: rounding may flip the bin; exact ties are decided identically
        if dirs is not None and d > 0:
            v = pos[:, k] - pos[:, j]
            for dd in dirs:
                sp = float(v @ dd)
                t = abs(sp) / d
                if abs(t - 1.0) < 1e-12:
                    return True
                if t < 1 and abs(np.arccos(t) - tol) < 1e-9:
                    return True
                if bw > 0 and abs(np.sqrt(((v - sp * dd) ** 2).sum()) - bw) < 1e-9:
                    return True
    return False


def corpus_coincident_pair(ctx, gs):
    """corpus case (known finding): coincident pair, first edge 0, two separated directions"""
    pos = np.array([[0.0, 0.0, 1.0, 3.0], [0.0, 0.0, 0.5, 0.2]])
    fld = np.array([1.0, 2.0, 0.5, -1.0])
    edges = np.array([0.0, 1.0, 2.0, 4.0])
    dirs = np.array([[1.0, 0.0], [0.0, 1.0]])
    tol = np.pi / 8
    _, gm, cm = gs.vario_estimate(tuple(pos), fld, edges, direction=dirs, angles_tol=tol, return_counts=True)
    ctx.count(("corpus", "coincident-pair"), hist=dict(entry="corpus"))
    for d in range(2):
        _, g1, c1 = gs.vario_estimate(tuple(pos), fld, edges, direction=[dirs[d]], angles_tol=tol, return_counts=True)
        if not ((c1 == cm[d]).all() and rel_close(g1, gm[d])):
            ctx.violation("corpus: multi-direction vs single-direction vario_estimate",
                          "row %d of the multi-direction estimate differs from the single-direction estimate" % d,
                          dict(entry="vario_estimate", tol=tol, arrays=describe(fld, edges, pos, dirs),
                               multi_counts=cm.tolist(), single_counts=c1.tolist()),
                          key="directional:separated-dirs:coincident-pair:first-edge<=0")
            break


def e2e(ctx, rng, gs, n_reps):
    corpus_coincident_pair(ctx, gs)
    for rep in range(4 * n_reps):
        dim = int(rng.integers(1, 4))
        n = int(rng.choice([4, 7, 12]))
        pos = rng.normal(size=(dim, n)) * 2
        nf = int(rng.integers(1, 3))
        f = rng.normal(size=(nf, n))
        edges = gen_edges(rng, int(rng.integers(2, 5)), first_zero=True)
        est = "matheron" if rng.random() < 0.5 else "cressie"
        ctx.count(("e2e", dim, n, nf, est), hist=dict(entry="vario_estimate", dim=dim, n=n))
        bc_, g, c = gs.vario_estimate(tuple(pos), f if nf > 1 else f[0], edges, estimator=est, return_counts=True)
        bg, bcnt = brute_unstructured(f, edges, pos, est[0])
        case = dict(entry="vario_estimate", est=est, arrays=describe(f, edges, pos))
        if not ((bcnt == c).all() and rel_close(bg, g) and rel_close(bc_, (edges[:-1] + edges[1:]) / 2)) and not near_edge(pos, edges, "e"):
            ctx.violation("probe: vario_estimate vs pair enumeration", "vario_estimate differs from the documented formula", case, key="vario_estimate:brute")
        if dim >= 2:
            # multiple directions: "one variogram for each direction" = the single-direction runs
            nd = 2
            if dim == 2:
                dirs = np.array([[1.0, 0.0], [0.0, 1.0]])
            else:
                dirs = np.eye(3)[:2]
            tol = float(rng.uniform(0.1, np.pi / 4 - 0.01)) if rng.random() < 0.5 else float(rng.uniform(np.pi / 4 + 0.01, np.pi / 2))
            ppos = pos.copy()
            dup = rng.random() < 0.5
            if dup:
                ppos[:, 1] = ppos[:, 0]      # coincident pair
            _, gm, cm = gs.vario_estimate(tuple(ppos), f[0], edges, direction=dirs, angles_tol=tol, return_counts=True)
            ctx.count(("e2e-dirs", dim, n, dup, tol < np.pi / 4), hist=dict(entry="vario_estimate-multidir", dim=dim, n=n))
            for d in range(nd):
                _, g1, c1 = gs.vario_estimate(tuple(ppos), f[0], edges, direction=[dirs[d]], angles_tol=tol, return_counts=True)
                if not ((c1 == cm[d]).all() and rel_close(g1, gm[d])):
                    separated = tol <= np.pi / 4
                    key = ("directional:separated-dirs:coincident-pair:first-edge<=0" if (dup and separated and edges[0] <= 0)
                           else "vario_estimate:multi-vs-single-direction")
                    ctx.violation("probe: multi-direction vs single-direction vario_estimate",
                                  "row %d of the multi-direction estimate differs from the single-direction estimate" % d,
                                  dict(entry="vario_estimate", tol=tol, duplicate=dup, arrays=describe(f[0], edges, ppos, dirs)), key=key)
                    break
    # several fields with DIFFERENT missing-value patterns given as masked arrays / NaN / no_data: a value missing in one
    # field removes exactly that field's pairs
    for rep in range(4 * n_reps):
        dim = int(rng.integers(1, 4))
        n = int(rng.choice([7, 12]))
        pos = rng.normal(size=(dim, n)) * 2
        nf = int(rng.integers(2, 4))
        f = rng.normal(size=(nf, n)) * 3
        miss = rng.random(size=f.shape) < 0.3
        miss[:, 0] = False
        how = ["masked", "nan", "no_data", "no_data"][rep % 4]       # cycled: every form occurs in every run
        edges = gen_edges(rng, int(rng.integers(2, 5)), first_zero=True)
        est = "matheron" if rng.random() < 0.5 else "cressie"
        kw = {}
        if how == "masked":
            inp = [np.ma.array(f[i], mask=miss[i]) for i in range(nf)]
        elif how == "nan":
            inp = np.where(miss, np.nan, f)
        else:
            nd = [-999.0, -999.9, 1e20][(rep // 4) % 3]
            if rep % 4 == 3:
                # single-precision data with a marker that is not representable in that precision: still "no data"
                f = f.astype(np.float32).astype(np.double)
                inp = np.where(miss, nd, f).astype(np.float32)
            else:
                inp = np.where(miss, nd, f)
            kw["no_data"] = nd
        ctx.count(("e2e-multifield-missing", dim, n, nf, how, est), hist=dict(entry="vario_estimate-multifield", how=how))
        _, g, c = gs.vario_estimate(tuple(pos), inp, edges, estimator=est, return_counts=True, **kw)
        keep = ~miss.all(axis=0)
        bg, bcnt = brute_unstructured(np.where(miss, np.nan, f)[:, keep], edges, pos[:, keep], est[0])
        if not ((bcnt == c).all() and rel_close(bg, g)) and not near_edge(pos, edges, "e"):
            ctx.violation("probe: vario_estimate with per-field missing values vs pair enumeration",
                          "a value missing in one field (%s) must remove exactly that field's pairs" % how,
                          dict(entry="vario_estimate", how=how, est=est, arrays=describe(f, edges, pos), missing=miss.tolist(),
                               expected_counts=bcnt.tolist(), got_counts=np.asarray(c).tolist()), key="vario_estimate:multifield-missing:" + how)
    # general direction sets (acute / obtuse / opposite vectors, 1-4 directions, overlapping or not, unnormalised vectors,
    # bandwidth, the `angles` argument): every row must be the independent enumeration for that direction
    for rep in range(10 * n_reps):
        dim = int(rng.integers(2, 4))
        n = int(rng.choice([6, 10, 16]))
        pos = rng.normal(size=(dim, n)) * 2          # continuous coordinates: no coincident points
        nf = int(rng.integers(1, 3))
        f = rng.normal(size=(nf, n))
        if rng.random() < 0.4:
            f[rng.random(size=f.shape) < 0.15] = np.nan
        edges = gen_edges(rng, int(rng.integers(2, 5)), first_zero=bool(rng.random() < 0.5))
        est = "matheron" if rng.random() < 0.6 else "cressie"
        nd = int(rng.integers(1, 5))
        style = ["random", "fan", "opposite", "wrap"][int(rng.integers(4))]
        if style == "opposite":
            nd = max(2, min(nd, 3))
        wrap_tol = None
        if style == "wrap":
            # first and last direction nearly the same axis, neighbours well separated
            nd = 3
            a = rng.uniform(0, np.pi)
            delta = rng.uniform(0.05, 0.3)
            if dim == 2:
                angs3 = np.array([a, a + np.pi / 2, a + np.pi - delta])
                wdirs = np.stack([np.cos(angs3), np.sin(angs3)], axis=1)
            else:
                q, _ = np.linalg.qr(rng.normal(size=(3, 3)))
                wdirs = np.array([q[0], q[1], -np.cos(delta) * q[0] + np.sin(delta) * q[2]])
            wrap_tol = float(rng.uniform(0.2, 0.6))
        if style == "fan" and dim == 2:
            base = rng.uniform(0, np.pi)
            step = rng.uniform(0.15, 1.4)
            angs = base + step * np.arange(nd) * rng.choice([1, -1])
            dirs = np.stack([np.cos(angs), np.sin(angs)], axis=1)
        else:
            dirs = rng.normal(size=(nd, dim))
            if style == "opposite" and nd >= 2:
                dirs[1] = -dirs[0] + 0.35 * rng.normal(size=dim)
        if style == "wrap":
            dirs = wdirs
        dirs = dirs * rng.uniform(0.5, 3.0, size=(nd, 1))          # not normalised on purpose
        unit = dirs / np.linalg.norm(dirs, axis=1)[:, None]
        tol = float(rng.uniform(0.08, np.pi / 2))
        if nd >= 2 and rng.random() < 0.75:
            # put the tolerance just below half of a characteristic angle of the direction set, so that the
            # "are the cones separated?" decision is exercised on both sides and for several notions of angle
            dots = unit @ unit.T
            iu = np.triu_indices(nd, 1)
            axis_all = np.arccos(np.minimum(np.abs(dots[iu]), 1.0))
            axis_consec = np.arccos(np.minimum(np.abs(np.sum(unit[:-1] * unit[1:], axis=1)), 1.0))
            oriented = np.arccos(np.clip(dots[iu], -1.0, 1.0))
            cand = [axis_all.min(), axis_consec.min(), oriented.min(), axis_all.max()]
            tol = float(np.clip(0.5 * cand[int(rng.integers(len(cand)))] * rng.choice([0.9, 1.1]), 0.06, np.pi / 2))
        if wrap_tol is not None:
            tol = wrap_tol
        bw = None if rng.random() < 0.6 else float(rng.uniform(0.5, 3.0))
        ctx.count(("e2e-general-dirs", dim, n, nd, style, est, bw is None), hist=dict(entry="vario_estimate-dirs", dim=dim, nd=nd, style=style))
        ctx.sample(dict(entry="vario_estimate", directions=dirs.tolist(), angles_tol=tol, bandwidth=bw, n=n, dim=dim))
        try:
            _, g, c = gs.vario_estimate(tuple(pos), f if nf > 1 else f[0], edges, estimator=est, direction=dirs,
                                        angles_tol=tol, bandwidth=bw, return_counts=True)
        except Exception as e:
            ctx.violation("probe: vario_estimate with directions raised", repr(e),
                          dict(entry="vario_estimate", arrays=describe(f, edges, pos, dirs), tol=tol, bw=bw), key="vario_estimate:dirs-exception")
            continue
        g = np.atleast_2d(g); c = np.atleast_2d(c)
        bg, bcnt = brute_unstructured(f, edges, pos, est[0], direction=unit, tol=tol, bw=-1.0 if bw is None else bw, separate=False)
        if not ((bcnt == c).all() and rel_close(bg, g)) and not near_edge(pos, edges, "e", unit, tol, -1.0 if bw is None else bw):
            ctx.violation("probe: vario_estimate (direction set) vs per-direction pair enumeration",
                          "a row of the multi-direction estimate differs from enumerating the pairs of that direction",
                          dict(entry="vario_estimate", est=est, tol=tol, bw=bw, style=style, arrays=describe(f, edges, pos, dirs),
                               expected_counts=bcnt.tolist(), got_counts=c.tolist()), key="vario_estimate:direction-set")
    # documented rejections: a zero-length direction (alone or inside a set), direction together with lat-lon, both direction and
    # angles missing dimension: the call must raise ValueError and must not return numbers
    for rep in range(2 * n_reps):
        dim = int(rng.integers(2, 4))
        n = 8
        pos = rng.normal(size=(dim, n)) * 2
        f = rng.normal(size=n)
        edges = gen_edges(rng, 3, first_zero=True)
        nd = int(rng.integers(1, 4))
        dirs = rng.normal(size=(nd, dim))
        z = int(rng.integers(nd))
        dirs[z] = [0.0, 1e-300, -0.0][int(rng.integers(3))]
        bw = None if rng.random() < 0.5 else 1.0
        ctx.count(("e2e-reject", dim, nd, z, bw is None), hist=dict(entry="vario_estimate-reject", nd=nd))
        case = dict(entry="vario_estimate", directions=dirs.tolist(), bandwidth=bw, arrays=describe(f, edges, pos))
        try:
            with np.errstate(all="ignore"):
                out = gs.vario_estimate(tuple(pos), f, edges, direction=dirs, bandwidth=bw, return_counts=True)
        except ValueError:
            continue
        except Exception as e:
            ctx.violation("probe: zero-length direction raised something else than ValueError", repr(e), case, key="vario_estimate:reject-zero-direction")
            continue
        ctx.violation("probe: a direction set with a zero-length member must be rejected (ValueError)",
                      "vario_estimate accepted a zero-length direction and returned numbers for an empty search sector",
                      dict(case, returned_counts=np.asarray(out[2]).tolist()), key="vario_estimate:reject-zero-direction")
    # lattice point sets (grids, transects): pairs EXACTLY perpendicular / parallel to an axis-aligned direction, tolerances at the
    # ends of the documented range (pi/2 exactly: a perpendicular pair is NOT inside the strict sector), exact bandwidth ties
    for rep in range(4 * n_reps):
        dim = int(rng.integers(2, 4))
        shape = tuple(int(x) for x in rng.integers(2, 5, size=dim))
        grid = np.array(np.meshgrid(*[np.arange(k, dtype=float) for k in shape], indexing="ij")).reshape(dim, -1)
        if rng.random() < 0.4:
            grid = grid[:, rng.random(size=grid.shape[1]) < 0.8]
        n = grid.shape[1]
        if n < 3:
            continue
        nf = int(rng.integers(1, 3))
        f = rng.normal(size=(nf, n))
        edges = np.array([0.0, 0.5, 1.5, 2.5, 10.0]) if rng.random() < 0.5 else np.array([0.5, 1.0, 2.0, 3.0, 9.0])
        est = "matheron" if rng.random() < 0.6 else "cressie"
        nd = int(rng.integers(1, dim + 1))
        axes = rng.permutation(dim)[:nd]
        unit = np.eye(dim)[axes] * rng.choice([1.0, -1.0], size=(nd, 1))
        dirs = unit * rng.choice([1.0, 2.0, 0.5], size=(nd, 1))
        tol = [np.pi / 2, np.pi / 4, np.pi / 8, 1.0][int(rng.integers(4))]
        bw = [None, None, 1.0, 2.0, 0.75][int(rng.integers(5))]
        ctx.count(("e2e-lattice", dim, nd, est, round(tol, 3), bw), hist=dict(entry="vario_estimate-lattice", dim=dim, nd=nd, tol=round(tol, 4)))
        case = dict(entry="vario_estimate", est=est, tol=tol, bw=bw, style="lattice", arrays=describe(f, edges, grid, dirs))
        try:
            _, g, c = gs.vario_estimate(tuple(grid), f if nf > 1 else f[0], edges, estimator=est, direction=dirs,
                                        angles_tol=tol, bandwidth=bw, return_counts=True)
        except Exception as e:
            ctx.violation("probe: vario_estimate on a lattice raised", repr(e), case, key="vario_estimate:dirs-exception")
            continue
        g = np.atleast_2d(g); c = np.atleast_2d(c)
        bg, bcnt = brute_unstructured(f, edges, grid, est[0], direction=unit, tol=tol, bw=-1.0 if bw is None else bw, separate=False)
        # axis-aligned unit directions on integer coordinates: every scalar product, distance and band distance is exact or an
        # identically rounded square root on both sides, so exact ties are decided identically
        if not ((bcnt == c).all() and rel_close(bg, g)):
            ctx.violation("probe: vario_estimate on a lattice (exact perpendicular/parallel pairs) vs pair enumeration",
                          "a row of the directional estimate differs from enumerating the pairs of that direction",
                          dict(case, expected_counts=bcnt.tolist(), got_counts=c.tolist()), key="vario_estimate:lattice")
    # great-circle distance: explicit bins in any length unit (geo_scale) and the documented default bins
    # (Sturges bin count, a third of the great-circle bounding-box diameter) must give the pair enumeration
    for rep in range(6 * n_reps):
        n = [5, 8, 9, 14, 16][(rep // 5) % 5]          # cycled with the mode: power-of-two counts meet every default rule
        span = float(rng.choice([2.0, 20.0, 80.0]))
        lat = rng.uniform(-span, span, size=n)
        lon = rng.uniform(-2 * span, 2 * span, size=n)
        pos = np.array([lat, lon])
        nf = int(rng.integers(1, 3))
        f = rng.normal(size=(nf, n))
        if rng.random() < 0.3 and n not in (8, 16):
            f[rng.random(size=f.shape) < 0.15] = np.nan
        gsc = [1.0, float(gs.KM_SCALE), float(gs.DEGREE_SCALE), float(rng.uniform(0.3, 40.0))][int(rng.integers(4))]
        mode = ["explicit", "default", "bin_no", "max_dist", "both"][rep % 5]
        est = "matheron" if rng.random() < 0.6 else "cressie"
        # independent computation of the documented default binning
        keep = ~np.isnan(f).all(axis=0)          # points missing in every field count as removed
        la, lo = np.deg2rad(lat[keep]), np.deg2rad(lon[keep])
        xyz = np.array([np.cos(la) * np.cos(lo), np.cos(la) * np.sin(lo), np.sin(la)])
        chord = np.sqrt(((xyz.max(axis=1) - xyz.min(axis=1)) ** 2).sum())
        diam = 2 * np.arcsin(min(chord / 2, 1.0)) * gsc
        kw = {}
        nb = int(np.ceil(2 * np.log2(int(keep.sum())) + 1)); md = diam / 3
        if mode in ("bin_no", "both"):
            nb = int(rng.integers(2, 7)); kw["bin_no"] = nb
        if mode in ("max_dist", "both"):
            md = float(rng.uniform(0.3, 0.9)) * diam; kw["max_dist"] = md
        if mode == "explicit":
            edges = gen_edges(rng, int(rng.integers(2, 5)), first_zero=bool(rng.random() < 0.5)) * (diam / 5.0)
            args = (edges.copy(),)
        else:
            edges = np.linspace(0, md, nb + 1)
            args = ()
        ctx.count(("e2e-latlon", n, nf, est, mode, gsc in (1.0,)), hist=dict(entry="vario_estimate-latlon", mode=mode, geo_scale=round(gsc, 3)))
        case = dict(entry="vario_estimate", latlon=True, geo_scale=gsc, mode=mode, est=est, kw=kw, arrays=describe(f, edges, pos))
        try:
            bc_, g, c = gs.vario_estimate(tuple(pos), f if nf > 1 else f[0], *args, estimator=est, latlon=True, geo_scale=gsc,
                                          return_counts=True, **kw)
        except Exception as e:
            ctx.violation("probe: lat-lon vario_estimate raised", repr(e), case, key="vario_estimate:latlon-exception")
            continue
        if mode == "explicit" and rng.random() < 0.7:
            # the estimate is a function of the argument VALUES: a second call with the very same argument objects
            # (bins reused for the next field / time step) must give the enumeration for the original values again
            try:
                bc_, g, c = gs.vario_estimate(tuple(pos), f if nf > 1 else f[0], *args, estimator=est, latlon=True, geo_scale=gsc,
                                              return_counts=True, **kw)
                case["call"] = "second call with the same argument objects"
            except Exception as e:
                ctx.violation("probe: lat-lon vario_estimate raised on a repeated call", repr(e), case, key="vario_estimate:latlon-exception")
                continue
        bg, bcnt = brute_unstructured(f, edges / gsc, pos, est[0], dist="h")
        ok_bins = len(bc_) == len(edges) - 1 and rel_close(bc_, (edges[:-1] + edges[1:]) / 2)
        if not ok_bins:
            ctx.violation("probe: lat-lon vario_estimate bin centres vs documented binning",
                          "returned bin centres are not the centres of the given / documented default bins (unit: geo_scale)",
                          dict(case, expected_centres=((edges[:-1] + edges[1:]) / 2).tolist(), got=np.asarray(bc_).tolist()), key="vario_estimate:latlon-bins:" + mode)
        elif not ((bcnt == c).all() and rel_close(bg, g)) and not near_edge(pos, edges / gsc, "h", eps=1e-9):
            ctx.violation("probe: lat-lon vario_estimate vs great-circle pair enumeration",
                          "great-circle variogram differs from enumerating the pairs with haversine distance * geo_scale",
                          dict(case, expected_counts=bcnt.tolist(), got_counts=np.asarray(c).tolist()), key="vario_estimate:latlon:" + mode)
    # the `mask` argument in every form a caller may write it (bool array / bool list / 0-1 integer array or list / n-D shape
    # of a structured field), alone and together with masked-array fields and NaNs; both public names of the estimator
    for rep in range(5 * n_reps):
        dim = int(rng.integers(1, 4))
        n = int(rng.choice([6, 9, 14]))
        pos = rng.normal(size=(dim, n)) * 2
        nf = int(rng.integers(1, 3))
        f = rng.normal(size=(nf, n))
        mk = rng.random(size=n) < 0.35
        mk[:2] = False
        own = (rng.random(size=(nf, n)) < 0.2) if rng.random() < 0.5 else np.zeros((nf, n), bool)
        own[:, :2] = False
        nanm = (rng.random(size=(nf, n)) < 0.15) if rng.random() < 0.4 else np.zeros((nf, n), bool)
        nanm[:, :2] = False
        form = ["bool-array", "bool-list", "int64", "int32", "int-list", "uint8"][int(rng.integers(6))]
        marg = {"bool-array": mk.copy(), "bool-list": [bool(x) for x in mk], "int64": mk.astype(np.int64), "int32": mk.astype(np.int32),
                "int-list": [int(x) for x in mk], "uint8": mk.astype(np.uint8)}[form]
        data = np.where(nanm, np.nan, f)
        inp = [np.ma.array(data[i], mask=own[i]) for i in range(nf)] if own.any() else data
        edges = gen_edges(rng, int(rng.integers(2, 5)), first_zero=True)
        est = "matheron" if rng.random() < 0.5 else "cressie"
        fn, fname = [(gs.vario_estimate, "gs.vario_estimate"), (gs.vario_estimate_unstructured, "gs.vario_estimate_unstructured"),
                     (gs.variogram.vario_estimate_unstructured, "gs.variogram.vario_estimate_unstructured")][int(rng.integers(3))]
        ctx.count(("e2e-mask-arg", dim, n, nf, form, bool(own.any()), bool(nanm.any()), est), hist=dict(entry="vario_estimate-mask", form=form))
        case = dict(entry=fname, mask_form=form, est=est, arrays=describe(f, edges, pos), mask=mk.tolist(), field_masks=own.tolist(), nan=nanm.tolist())
        try:
            _, g, c = fn(tuple(pos), inp if (nf > 1 or own.any()) else data[0], edges, estimator=est, mask=marg, return_counts=True)
        except Exception as e:
            ctx.violation("probe: vario_estimate(mask=...) raised", repr(e), case, key="vario_estimate:mask-arg-exception:" + form)
            continue
        gone = own | nanm
        keep = ~(mk | gone.all(axis=0))
        bg, bcnt = brute_unstructured(np.where(gone, np.nan, f)[:, keep], edges, pos[:, keep], est[0])
        if not ((bcnt == c).all() and rel_close(bg, g)) and not near_edge(pos, edges, "e"):
            ctx.violation("probe: vario_estimate(mask=...) vs pair enumeration over the unmasked points",
                          "masked points (mask argument as %s) must be treated like removed points" % form,
                          dict(case, expected_counts=bcnt.tolist(), got_counts=np.asarray(c).tolist()), key="vario_estimate:mask-arg:" + form)
    # the `angles` argument (2-D azimuth, 3-D azimuth + inclination)
    for rep in range(2 * n_reps):
        dim = int(rng.integers(2, 4))
        n = 9
        pos = rng.normal(size=(dim, n)) * 2
        f = rng.normal(size=(1, n))
        edges = gen_edges(rng, 3, first_zero=True)
        ang = rng.uniform(-np.pi, np.pi, size=dim - 1)
        tol = float(rng.uniform(0.2, 1.2))
        if dim == 2:
            unit = np.array([[np.cos(ang[0]), np.sin(ang[0])]])
        else:
            unit = np.array([[np.cos(ang[0]) * np.sin(ang[1]), np.sin(ang[0]) * np.sin(ang[1]), np.cos(ang[1])]])
        ctx.count(("e2e-angles", dim), hist=dict(entry="vario_estimate-angles", dim=dim))
        _, g, c = gs.vario_estimate(tuple(pos), f[0], edges, angles=ang, angles_tol=tol, return_counts=True)
        bg, bcnt = brute_unstructured(f, edges, pos, "m", direction=unit, tol=tol, bw=-1.0, separate=False)
        if not ((bcnt[0] == c).all() and rel_close(bg[0], g)) and not near_edge(pos, edges, "e", unit, tol, -1.0):
            ctx.violation("probe: vario_estimate(angles=...) vs pair enumeration along the documented direction",
                          "angles argument does not select the documented direction",
                          dict(entry="vario_estimate", angles=ang.tolist(), tol=tol, arrays=describe(f, edges, pos)), key="vario_estimate:angles")
    for rep in range(8 * n_reps):
        shape = tuple(int(x) for x in rng.integers(2, 7, size=int(rng.integers(1, 4))))
        fld = rng.normal(size=shape)
        axis = int(rng.integers(len(shape)))
        est = "matheron" if rng.random() < 0.5 else "cressie"
        masked = rng.random() < 0.7
        missing = ["none", "nan", "no_data"][int(rng.integers(3))]
        ctx.count(("axis", shape, axis, est, masked, missing), hist=dict(entry="vario_estimate_axis", dim=len(shape), masked=masked, missing=missing))
        m = (rng.random(size=shape) < 0.25) if masked else np.zeros(shape, bool)
        miss = (rng.random(size=shape) < 0.2) if missing != "none" else np.zeros(shape, bool)
        data = fld.copy()
        kw = {}
        if missing == "nan":
            data[miss] = np.nan
        elif missing == "no_data":
            data[miss] = -999.0
            kw["no_data"] = -999.0
        inp = np.ma.array(data, mask=m) if masked else data
        # every public name of the along-axis estimator (the legacy names are part of the API), keyword and positional use
        ax_fn, ax_name = [(gs.vario_estimate_axis, "gs.vario_estimate_axis"), (gs.vario_estimate_structured, "gs.vario_estimate_structured"),
                          (gs.variogram.vario_estimate_axis, "gs.variogram.vario_estimate_axis"),
                          (gs.variogram.vario_estimate_structured, "gs.variogram.vario_estimate_structured")][int(rng.integers(4))]
        if kw and rng.random() < 0.5:
            g = ax_fn(inp, axis, est, kw["no_data"])
        else:
            g = ax_fn(inp, direction=axis, estimator=est, **kw)
        m = m | miss
        if not m.any():
            m = None
        f2 = np.swapaxes(fld, 0, axis).reshape(shape[axis], -1)
        m2 = None if m is None else np.swapaxes(m, 0, axis).reshape(shape[axis], -1)
        if not rel_close(brute_axis(f2, m2, est[0]), g):
            ctx.violation("probe: vario_estimate_axis vs lag enumeration", "axis estimator differs from definition",
                          dict(entry=ax_name, axis=axis, est=est, missing=missing, arrays=describe(fld) + ([m.tolist()] if m is not None else [])),
                          key="vario_estimate_axis:brute")


def replay(ctx, path):
    rec = json.load(open(path))
    print(json.dumps({k: rec[k] for k in ("stage", "what")}, indent=1))
    run(ctx)
    return ctx.finish()
