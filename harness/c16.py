"""C16 — vector fields from isotropic models are incompressible.

stages: translate summator.pyx -> Gallina (tie 1) ; theorems props/C16.v (refinement of summate_incompr to the
        closed-form spec for every number type; projector orthogonality, divergence = 0, mean — over R) ;
        extraction + driver ; correspondence: closed-form spec / translated kernel vs compiled .so (bitwise),
        IncomprRandMeth.__call__ and SRF(generator='VectorField') vs the hand model of the wrapper ;
        probes on the implementation: central-difference divergence with a rigorous error budget, ensemble mean
        and component variances over seeds (6 standard errors), structured grid = pointwise evaluation."""
import json
import math
import warnings

import numpy as np

import common as C

EPS = 2.0 ** -52
CLASSES = ["Gaussian", "Exponential", "Matern", "Integral", "Stable", "Rational", "Cubic", "Linear", "Circular",
           "Spherical", "HyperSpherical", "SuperSpherical", "JBessel", "TPLGaussian", "TPLExponential",
           "TPLStable", "TPLSimple"]
# fractions of mean_u^2 * var carried by each component: E[p_d(k)^2] for a uniformly distributed direction of k
#   2-D: k = (cos t, sin t): p = (sin^2 t, -sin t cos t): E = 3/8, 1/8
#   3-D: k_0 = m uniform on [-1,1]: p_0 = 1 - m^2: E = 8/15; the other two share E[m^2 (1-m^2)] = 2/15 equally
SPLIT = {2: [3.0 / 8, 1.0 / 8], 3: [8.0 / 15, 1.0 / 15, 1.0 / 15]}
SIZES = [0, 1, 2, 3, 5, 17]


# ----------------------------------------------------------------------------------------------- helpers

def make_model(name, dim, var, len_scale, nugget=0.0, opt=None):
    import gstools as gs
    kw = dict(dim=dim, var=var, len_scale=len_scale, nugget=nugget)
    if opt:
        kw.update(opt)
    return getattr(gs, name)(**kw)


def rand_opt(rng, name):
    """optional shape parameters inside their bounds for a few classes (defaults otherwise)"""
    if rng.random() < 0.5:
        return {}
    if name == "Matern":
        return {"nu": float(np.exp(rng.uniform(np.log(0.3), np.log(5.0))))}
    if name == "Stable":
        return {"alpha": float(rng.uniform(0.5, 2.0))}
    if name == "Rational":
        return {"alpha": float(np.exp(rng.uniform(np.log(0.6), np.log(5.0))))}
    if name in ("TPLGaussian", "TPLExponential", "TPLSimple"):
        return {"hurst": float(rng.uniform(0.2, 0.8))} if name != "TPLSimple" else {}
    return {}


TPL = ("TPLGaussian", "TPLExponential", "TPLStable")     # classes with var = var_raw * var_factor(), var_factor != 1


def rand_cfg(rng, name, dim, mode_choices=(1, 2, 7, 64, 200, 1000)):
    cfg = dict(cls=name, dim=dim, var=float(np.exp(rng.uniform(np.log(0.1), np.log(10.0)))),
               len_scale=float(np.exp(rng.uniform(np.log(0.2), np.log(20.0)))),
               mean_u=float(rng.choice([-1.0, 1.0]) * np.exp(rng.uniform(np.log(0.1), np.log(5.0)))),
               mode_no=int(rng.choice(mode_choices)), seed=int(rng.integers(0, 2 ** 31 - 1)), opt=rand_opt(rng, name))
    if name in TPL:
        # truncated power laws: hurst, lower cut-off and length scale such that var_factor() is clearly != 1
        # (var_raw and var then differ by at least a factor 2: the variance the field must carry is model.var)
        for _ in range(200):
            opt = {"hurst": float(rng.uniform(0.15, 0.85))}
            if rng.random() < 0.5:
                opt["len_low"] = float(rng.uniform(0.0, 2.0) * cfg["len_scale"])
            if name == "TPLStable" and rng.random() < 0.5:
                opt["alpha"] = float(rng.uniform(0.6, 2.0))
            cfg["opt"] = opt
            vf = float(make_model(name, dim, cfg["var"], cfg["len_scale"], 0.0, opt).var_factor())
            if abs(math.log(vf)) >= math.log(2.0):
                break
            cfg["len_scale"] = float(np.exp(rng.uniform(np.log(0.2), np.log(20.0))))
        cfg["var_factor"] = vf
    return cfg


def make_srf(cfg, nugget=0.0):
    import gstools as gs
    m = make_model(cfg["cls"], cfg["dim"], cfg["var"], cfg["len_scale"], nugget, cfg.get("opt"))
    return gs.SRF(m, generator="VectorField", mean_velocity=cfg["mean_u"], mode_no=cfg["mode_no"], seed=cfg["seed"])


def hexarr(a):
    a = np.asarray(a, dtype=float)
    return dict(shape=list(a.shape), hex=[C.fhex(v) for v in a.ravel()[:3000]])


def unhex(d):
    return np.array([float.fromhex(x) if x not in ("nan", "inf", "-inf") else float(x) for x in d["hex"]],
                    dtype=float).reshape(d["shape"])


def same_bits(a, b):
    a = np.asarray(a, dtype=float)
    b = np.asarray(b, dtype=float)
    if a.shape != b.shape:
        return a.size == 0 and b.size == 0          # the list model cannot tell (0,n) from (n,0)
    return C.bit_equal(a, b)


def special_values(rng, shape, kind):
    a = rng.normal(size=shape)
    if kind == "mixed":
        a *= 10.0 ** rng.integers(-6, 6, size=shape)
    elif kind == "int":
        a = rng.integers(-2, 3, size=shape).astype(float)      # zero wave vectors -> 0/0 = NaN on both sides
    elif kind == "huge":
        a *= 1e150
    elif kind == "tiny":
        a *= 1e-160
    return np.ascontiguousarray(a)


# ----------------------------------------------------------------------------------------------- correspondence

def corr_kernel(ctx, rng, drv):
    """closed-form spec (extracted, floats) and translated kernel vs the compiled summate_incompr: bitwise"""
    from gstools.field import summator as S
    reps = 3 if ctx.tier == "thorough" else 1
    sizes = SIZES + ([64] if ctx.tier == "thorough" else [])
    n = 0
    for _ in range(reps):
        for dim in (1, 2, 3, 4):
            for npts in sizes:
                m = int(rng.choice(sizes))
                kind = ["normal", "mixed", "int", "huge", "tiny"][int(rng.integers(5))]
                ks = special_values(rng, (dim, m), kind)
                pos = special_values(rng, (dim, npts), "normal" if kind in ("huge", "tiny") else kind)
                z1 = special_values(rng, (m,), "normal")
                z2 = special_values(rng, (m,), "normal")
                ref = np.asarray(S.summate_incompr(ks, z1, z2, pos))
                key = ("kernel", dim, npts, m, kind)
                ctx.count(key if (npts >= 2 and m >= 2 and dim >= 2) else None,
                          hist=dict(stage="kernel-correspondence", dim=dim, kind=kind, n_points=npts))
                case = dict(dim=dim, n=npts, m=m, kind=kind, ks=hexarr(ks), z1=hexarr(z1), z2=hexarr(z2), pos=hexarr(pos))
                for fn in ("spec", "summate_incompr"):
                    r = drv.call(fn, ks, z1, z2, pos)
                    n += 1
                    if not same_bits(ref, r):
                        ctx.violation("correspondence: %s (model, floats) vs compiled summate_incompr" % fn,
                                      "closed-form specification / translated source and the compiled kernel differ",
                                      dict(case, fn=fn, so=hexarr(ref), model=hexarr(np.asarray(r))),
                                      key="kernel:%s-vs-so" % fn, no_input=kernel_case_divfree(ks, z1, z2, pos, ref))
                        break
    ctx.notes.append("kernel correspondence: %d model runs, all compared bitwise with the .so" % n)


def kernel_case_divfree(ks, z1, z2, pos, out):
    """a correspondence disagreement is a counter-example to the PROPERTY only if the compiled kernel's output is
    not the solenoidal sum; decided against a numpy evaluation of the closed form with a budget for the rounding of
    the phases (eps |k||x| per mode) and of the accumulation.  True = the .so still returns the solenoidal sum."""
    try:
        with np.errstate(all="ignore"):
            k2 = (ks ** 2).sum(0)
            ph = ks.T @ pos
            w = z1[:, None] * np.cos(ph) + z2[:, None] * np.sin(ph)
            e1 = np.zeros(ks.shape[0]); e1[0] = 1.0
            p = e1[:, None] - ks * ks[0] / k2
            ref = p @ w
            hyp = np.hypot(z1, z2)[:, None]
            dphi = 8 * EPS * (np.abs(ks).T @ np.abs(pos))
            tol = (np.abs(p) + 8 * EPS) @ (hyp * (dphi + (ks.shape[1] + 16) * EPS)) + 1e-300
        ok = np.isfinite(ref) & np.isfinite(out) & np.isfinite(tol)
        return bool((np.abs(ref - out)[ok] <= 4 * tol[ok]).all())
    except Exception:
        return True


def wrapper_tol(mu, amp, sm, nug):
    e1 = np.zeros_like(sm)
    e1[0] = 1.0
    return 8 * EPS * (abs(mu) * e1 + np.abs(amp * sm) + np.abs(nug)) + 1e-300


def corr_wrapper(ctx, rng, drv):
    """IncomprRandMeth.__call__ (mean velocity, amplitude, nugget) and SRF(generator='VectorField') vs the model"""
    from gstools.field.generator import IncomprRandMeth
    from gstools.field import summator as S
    ncfg = 60 if ctx.tier == "thorough" else 18
    bitwise = total = 0
    fixed = ["Gaussian", "Exponential", "Matern", "TPLGaussian", "TPLExponential", "TPLStable"]
    followups = []
    for c in range(ncfg):
        name = CLASSES[int(rng.integers(len(CLASSES)))] if c >= len(fixed) else fixed[c]
        dim = int(rng.choice([2, 3]))
        cfg = rand_cfg(rng, name, dim, mode_choices=(1, 2, 7, 33, 64))
        nug_var = float(rng.choice([0.0, 0.0, 0.3, 2.5]))
        npts = int(rng.choice([1, 2, 5, 17]))
        pos = np.ascontiguousarray(rng.uniform(-10, 10, size=(dim, npts)) * cfg["len_scale"])
        case = dict(cfg, nugget=nug_var, pos=hexarr(pos))
        try:
            model = make_model(name, dim, cfg["var"], cfg["len_scale"], nug_var, cfg["opt"])
            g = IncomprRandMeth(model, mean_velocity=cfg["mean_u"], mode_no=cfg["mode_no"], seed=cfg["seed"])
            ks, z1, z2 = (np.ascontiguousarray(np.asarray(a, dtype=float)) for a in (g._cov_sample, g._z_1, g._z_2))
            N = ("z", cfg["mode_no"])
            var = float(model.var)            # the variance of the model as the implementation reports it (= var_raw * var_factor())
            case["model_var"] = C.fhex(var); case["model_var_raw"] = C.fhex(float(model.var_raw))
            amp = cfg["mean_u"] * math.sqrt(var / cfg["mode_no"])
            sm = np.asarray(S.summate_incompr(ks, z1, z2, pos))
            # (a) no nugget requested
            out0 = np.asarray(g(pos, add_nugget=False))
            zero = np.zeros((dim, npts))
            mod0 = drv.call("generate", cfg["mean_u"], var, N, ks, z1, z2, pos, zero)
            # (b) nugget: replay the generator's random stream
            mst = g._rng._master_rng._master_rng_fct        # RNG.random opens a new stream seeded by the master
            st = mst.get_state()
            out1 = np.asarray(g(pos))
            if nug_var > 0:
                mst.set_state(st)
                nug = np.sqrt(nug_var) * g._rng.random.normal(size=(dim, npts))
            else:
                nug = zero
            mod1 = drv.call("generate", cfg["mean_u"], var, N, ks, z1, z2, pos, nug)
            mod1b = drv.call("call", cfg["mean_u"], var, N, sm, nug)
            # (c) the field function used by the theorems, point by point
            i = int(rng.integers(npts)); d = int(rng.integers(dim))
            v = drv.call("velocity", cfg["mean_u"], var, N, ks, z1, z2, np.ascontiguousarray(pos[:, i]), ("n", d))
            # (d) through SRF
            srf = make_srf(cfg, nug_var)
            f = np.asarray(srf(tuple(pos), mesh_type="unstructured"))
            same_modes = same_bits(srf.generator._cov_sample, ks) and same_bits(srf.generator._z_1, z1)
        except Exception as e:
            ctx.violation("correspondence: IncomprRandMeth.__call__", "unexpected exception %r" % (e,), case,
                          key="wrapper:exception")
            continue
        ctx.count(("wrapper", name, dim, cfg["mode_no"], nug_var > 0, npts),
                  hist=dict(stage="wrapper-correspondence", cls=name, dim=dim, nugget=nug_var > 0, mode_no=cfg["mode_no"]))
        ctx.sample(dict(stage="wrapper-correspondence", cfg=cfg, nugget=nug_var, n_points=npts))
        checks = [("__call__(add_nugget=False)", out0, mod0, zero), ("__call__ with nugget stream", out1, mod1, nug),
                  ("incompr_call on the kernel output", out1, mod1b, nug)]
        if same_modes and nug_var == 0:
            checks.append(("SRF(generator='VectorField') unstructured", f, mod0, zero))
        for what, a, b, ng in checks:
            total += 1
            b = np.asarray(b)
            if a.shape != b.shape or not (np.abs(a - b) <= wrapper_tol(cfg["mean_u"], amp, sm, ng)).all():
                # does the property still hold for the implementation's output?  (mean_u e1 + c * kernel sum, any c)
                ctx.violation("correspondence: %s vs model" % what,
                              "generator wrapper (mean velocity, amplitude sqrt(var/mode_no), nugget) differs from its model",
                              dict(case, impl=hexarr(a), model=hexarr(b)), key="wrapper:model-vs-impl", no_input=True)
                followups.append(cfg)
                break
            bitwise += int(same_bits(a, b))
        if abs(v - out0[d, i]) > wrapper_tol(cfg["mean_u"], amp, sm, zero)[d, i]:
            ctx.violation("correspondence: velocity (field function of the theorems) vs __call__",
                          "pointwise field function differs from the generator output",
                          dict(case, d=d, i=i, impl=C.fhex(out0[d, i]), model=C.fhex(v)), key="wrapper:velocity", no_input=True)
        if not same_modes:
            ctx.violation("correspondence: SRF generator modes", "SRF(generator='VectorField', seed=s) and "
                          "IncomprRandMeth(seed=s) drew different modes", case, key="wrapper:srf-modes", no_input=True)
    ctx.notes.append("wrapper correspondence: %d comparisons within 8 eps * sum|terms|, %d of them bitwise" % (total, bitwise))
    # a disagreement with the model of __call__ is followed by the property probes on that very configuration (divergence,
    # ensemble mean and variance split against mean_u^2 * model.var * q_d): a failing input if the property is broken there
    seen = set()
    for cfg in followups:
        if (cfg["cls"], cfg["dim"]) in seen or len(seen) >= 3:
            continue
        seen.add((cfg["cls"], cfg["dim"]))
        cfg2 = dict(cfg, mode_no=64)
        x = np.ascontiguousarray(rng.uniform(-10, 10, size=(cfg["dim"], 6)) * cfg["len_scale"])
        run_divergence(ctx, cfg2, x)
        M = 120 if cfg["cls"] == "TPLStable" else 300
        xs = np.ascontiguousarray(rng.uniform(-50, 50, size=(cfg["dim"], 24)) * cfg["len_scale"])
        run_ensemble(ctx, cfg2, M, rng.choice(2 ** 31 - 1, size=M, replace=False), xs)
        ctx.notes.append("wrapper disagreement on %s dim %d followed by divergence + ensemble probes on that configuration" % (cfg["cls"], cfg["dim"]))


# ----------------------------------------------------------------------------------------------- probes

def modes_of(srf):
    g = srf.generator
    return (np.asarray(g._cov_sample, dtype=float), np.asarray(g._z_1, dtype=float), np.asarray(g._z_2, dtype=float))


def divergence_budget(srf, cfg, x):
    """constants of the error budget of a central-difference divergence estimate with step h at the points x:
       |estimate - true divergence| <= T h^2 + R/h + S   (T scalar; R, S per point), see design/C16.md.
       u_d = mean_u e1_d + amp sum_j P_dj (z1_j cos phi_j + z2_j sin phi_j)"""
    dim, n = x.shape
    ks, z1, z2 = modes_of(srf)
    N = ks.shape[1]
    amp = abs(cfg["mean_u"]) * math.sqrt(float(srf.model.var) / N)
    e1 = np.zeros(dim); e1[0] = 1.0
    # the budget must hold for whatever scalar amplitude the implementation really applies to the kernel sum:
    # measure it at the points and take the larger one (so that a wrong amplitude alone is never reported as divergence)
    from gstools.field import summator as S
    sm = np.asarray(S.summate_incompr(ks, z1, z2, np.ascontiguousarray(x)))
    u0 = np.asarray(srf(tuple(x), mesh_type="unstructured")) - cfg["mean_u"] * e1[:, None]
    if np.isfinite(sm).all() and (sm ** 2).sum() > 0:
        amp = 1.01 * max(amp, math.sqrt(float((u0 ** 2).sum() / (sm ** 2).sum())))
    k2 = (ks ** 2).sum(0)
    P = np.abs(e1[:, None] - ks * ks[0] / k2) + 4 * EPS     # |P_dj| incl. its own rounding error
    hyp = np.hypot(z1, z2)                                   # |z1 cos + z2 sin| <= hyp
    A = amp * P * hyp                                        # (dim, N)
    absk = np.abs(ks)
    T = (A * absk ** 3).sum() / 6.0                          # sum_d max|d^3 u_d / dx_d^3| / 6
    # rounding of one evaluation of u_d at a point y, |y_d| <= 1.01 |x_d| + tiny: phase error, libm, accumulation, affine map
    ymax = 1.01 * np.abs(x) + 1e-300                         # (dim, n)
    dphi = (dim + 2) * EPS * (absk.T @ ymax)                 # (N, n)
    err = A @ (dphi + (N + 12) * EPS) + 8 * EPS * (abs(cfg["mean_u"]) + A.sum(1))[:, None]   # (dim, n)
    R = err.sum(0)
    # the two evaluation points are symmetric about a midpoint that is off x_d by <= 2 eps |x_d|
    S = ((A * absk ** 2).sum(1)[:, None] * (2 * EPS * ymax)).sum(0)
    return T, R, S, float(np.abs(ks).max())


def divergence_case(srf, cfg, x, h, budget=None):
    """central-difference divergence of the implementation's field at the points x (dim, n) with step h.
    returns dict(div, bound, grad) arrays over the points"""
    dim, n = x.shape
    T, R, S, kmax = budget or divergence_budget(srf, cfg, x)
    if not (h <= 0.01 * np.abs(x).min() or True):
        pass
    xs = np.repeat(x[:, None, :], 2 * dim, axis=1)          # (dim, 2*dim, n): x +- h e_d for every axis, one call
    for d in range(dim):
        xs[d, 2 * d, :] += h
        xs[d, 2 * d + 1, :] -= h
    u = np.asarray(srf(tuple(xs.reshape(dim, -1)), mesh_type="unstructured")).reshape(dim, 2 * dim, n)
    grad = np.empty((dim, dim, n))                           # grad[c, d] = d u_c / d x_d
    hmin = h
    for d in range(dim):
        hh = xs[d, 2 * d, :] - xs[d, 2 * d + 1, :]
        hmin = min(hmin, float(hh.min()) / 2)
        grad[:, d, :] = (u[:, 2 * d, :] - u[:, 2 * d + 1, :]) / hh
    div = sum(grad[d, d, :] for d in range(dim))
    gnorm = np.sqrt((grad ** 2).sum((0, 1)))
    hmax = h * (1 + 1e-6) + 4 * EPS * float(np.abs(x).max())
    bound = 2.0 * (T * hmax ** 2 + R / hmin + S + 4 * EPS * np.abs(grad).sum((0, 1)))
    return dict(div=div, bound=bound, grad=gnorm, h=h, trunc=T * h * h)


def divergence_steps(T, R, kmax):
    """the step that minimises T h^2 + R/h (median point), capped at 1e-2/max|k_d|, and three times that step"""
    r = float(np.median(R))
    h = (r / (2 * T)) ** (1.0 / 3) if T > 0 and r > 0 else 1e-3 / kmax
    h = min(h, 1e-2 / kmax)
    return [h, 3 * h]


def probe_divergence(ctx, rng):
    thorough = ctx.tier == "thorough"
    nseeds = 3 if thorough else 1
    npts = 12 if thorough else 6
    worst = 0.0
    insens = 0
    for name in CLASSES:
        for dim in (2, 3):
            for _ in range(nseeds):
                cfg = rand_cfg(rng, name, dim)
                x = np.ascontiguousarray(rng.uniform(-10, 10, size=(dim, npts)) * cfg["len_scale"])
                run_divergence(ctx, cfg, x, stats := {})
                worst = max(worst, stats.get("worst", 0.0))
                insens += stats.get("insensitive", 0)
    ctx.notes.append("divergence probe: largest |div|/|grad u| seen %.2e (error budget relative to |grad u| < 1e-3 required "
                     "for a point to count as non-trivial; %d evaluations were above that and only counted as trivial)" % (worst, insens))


def run_divergence(ctx, cfg, x, stats=None):
    case = dict(cfg, x=hexarr(x))
    try:
        with warnings.catch_warnings():
            warnings.simplefilter("ignore")
            srf = make_srf(cfg)
            bud = divergence_budget(srf, cfg, x)
            steps = divergence_steps(bud[0], bud[1], bud[3])
            res = [divergence_case(srf, cfg, x, h, bud) for h in steps]
    except Exception as e:
        ctx.violation("probe: divergence", "unexpected exception %r" % (e,), case, key="div:exception")
        return
    for r, c in zip(res, ("h*", "3h*")):
        rel_budget = r["bound"] / np.maximum(r["grad"], 1e-300)
        for i in range(x.shape[1]):
            sens = bool(rel_budget[i] < 1e-3)
            ctx.count(("div", cfg["cls"], cfg["dim"], cfg["mode_no"], c) if sens else None,
                      hist=dict(stage="divergence-probe", cls=cfg["cls"], dim=cfg["dim"], mode_no=cfg["mode_no"], step=c))
            if stats is not None:
                stats["insensitive"] = stats.get("insensitive", 0) + (0 if sens else 1)
                if r["grad"][i] > 0:
                    stats["worst"] = max(stats.get("worst", 0.0), abs(r["div"][i]) / r["grad"][i])
        bad = np.abs(r["div"]) > r["bound"]
        if bad.any():
            i = int(np.argmax(np.abs(r["div"]) / r["bound"]))
            ctx.violation("probe: divergence (central differences, step %s = %.3g)" % (c, r["h"]),
                          "divergence of the generated vector field exceeds the truncation+rounding budget of the estimate: "
                          "|div| = %.3e, budget %.3e, |grad u| = %.3e at point %d" % (abs(r["div"][i]), r["bound"][i], r["grad"][i], i),
                          dict(case, point=i, div=float(r["div"][i]), budget=float(r["bound"][i]), grad=float(r["grad"][i]), h=r["h"]),
                          key="div:%s:dim%d" % (cfg["cls"], cfg["dim"]))
            return
    ctx.sample(dict(stage="divergence-probe", cfg=cfg, step=res[0]["h"], max_div=float(np.abs(res[0]["div"]).max()),
                    min_grad=float(res[0]["grad"].min()), budget=float(res[0]["bound"].max())))


def ensemble_case(ctx, cfg, M, seeds, npts, x):
    """per-seed spatial averages of u_d and (u_d - mean_u e1_d)^2 over the points x; seeds are independent draws.
    returns (mean stats, var stats): arrays (M, dim)"""
    from gstools.field.generator import IncomprRandMeth
    model = make_model(cfg["cls"], cfg["dim"], cfg["var"], cfg["len_scale"], 0.0, cfg.get("opt"))
    g = IncomprRandMeth(model, mean_velocity=cfg["mean_u"], mode_no=cfg["mode_no"], seed=int(seeds[0]))
    mu = np.zeros(cfg["dim"]); mu[0] = cfg["mean_u"]
    ms = np.empty((M, cfg["dim"])); vs = np.empty((M, cfg["dim"]))
    for s in range(M):
        g.reset_seed(int(seeds[s]))
        u = np.asarray(g(x))
        ms[s] = u.mean(1)
        vs[s] = ((u - mu[:, None]) ** 2).mean(1)
    return ms, vs, float(model.var), float(model.var_raw)


def run_ensemble(ctx, cfg, M, seeds, x):
    case = dict(cfg, M=M, seeds_first=[int(s) for s in seeds[:5]], seed_gen="C.Rng(VERIF_SEED,'C16')", x=hexarr(x))
    dim = cfg["dim"]
    try:
        with warnings.catch_warnings():
            warnings.simplefilter("ignore")
            ms, vs, model_var, model_var_raw = ensemble_case(ctx, cfg, M, seeds, x.shape[1], x)
    except Exception as e:
        ctx.violation("probe: ensemble", "unexpected exception %r" % (e,), case, key="ens:exception")
        return
    mu = np.zeros(dim); mu[0] = cfg["mean_u"]
    # the variance the field has to carry is the model's variance model.var (= var_raw * var_factor(), not var_raw)
    target = cfg["mean_u"] ** 2 * model_var * np.array(SPLIT[dim])
    case = dict(case, model_var=model_var, model_var_raw=model_var_raw)
    m_est, m_se = ms.mean(0), ms.std(0, ddof=1) / math.sqrt(M)
    v_est, v_se = vs.mean(0), vs.std(0, ddof=1) / math.sqrt(M)
    ctx.count(("ensemble", cfg["cls"], dim, cfg["mode_no"]), n=M,
              hist=dict(stage="ensemble-probe", cls=cfg["cls"], dim=dim, mode_no=cfg["mode_no"],
                        var_factor=("%.2g" % (model_var / model_var_raw)) if cfg["cls"] in TPL else "1"))
    ctx.sample(dict(stage="ensemble-probe", cfg=cfg, seeds=M, mean=[float(v) for v in m_est], mean_se=[float(v) for v in m_se],
                    var_over_target=[float(v) for v in v_est / target], var_se_over_target=[float(v) for v in v_se / target]), limit=9)
    for d in range(dim):
        if abs(m_est[d] - mu[d]) > 6 * m_se[d] + 1e-12 * abs(cfg["mean_u"]):
            ctx.violation("probe: ensemble mean", "component %d: mean over %d seeds %.5g, expected %.5g, standard error %.3g (%.1f SE)"
                          % (d, M, m_est[d], mu[d], m_se[d], abs(m_est[d] - mu[d]) / m_se[d]),
                          dict(case, component=d, estimate=float(m_est[d]), expected=float(mu[d]), se=float(m_se[d])),
                          key="ens-mean:%s:dim%d" % (cfg["cls"], dim))
        if abs(v_est[d] - target[d]) > 6 * v_se[d]:
            ctx.violation("probe: component variance split",
                          "component %d: variance over %d seeds %.5g, expected mean_u^2 * model.var * %.4f = %.5g, standard error %.3g (%.1f SE)"
                          % (d, M, v_est[d], SPLIT[dim][d], target[d], v_se[d], abs(v_est[d] - target[d]) / v_se[d]),
                          dict(case, component=d, estimate=float(v_est[d]), expected=float(target[d]), se=float(v_se[d])),
                          key="ens-var:%s:dim%d" % (cfg["cls"], dim))
    return float((6 * v_se / target).max())


def probe_ensemble(ctx, rng):
    thorough = ctx.tier == "thorough"
    if thorough:
        plan = [(n, d, 150 if n != "TPLStable" else 100) for n in CLASSES for d in (2, 3)]
        plan[0] = ("Gaussian", 2, 3000)
        plan[2] = ("Exponential", 2, 3000)
    else:
        # Gaussian / Exponential always; the other classes rotate with VERIF_SEED (every class is reached over the seeds,
        # every class on every run in the thorough tier); one truncated power law (var_factor != 1) on every run
        others = [c for c in CLASSES if c not in ("Gaussian", "Exponential") + TPL]
        pick = others[int(rng.integers(len(others)))]
        tpl = TPL[int(rng.integers(len(TPL)))]
        plan = [("Gaussian", 2, 1000), ("Exponential", 2, 1000), ("Gaussian", 3, 100), (pick, int(rng.choice([2, 3])), 120),
                (tpl, int(rng.choice([2, 3])), 50 if tpl == "TPLStable" else 120)]
    worst = 0.0
    for name, dim, M in plan:
        cfg = rand_cfg(rng, name, dim, mode_choices=(16, 64, 100))
        seeds = rng.choice(2 ** 31 - 1, size=M, replace=False)
        x = np.ascontiguousarray(rng.uniform(-50, 50, size=(dim, 24)) * cfg["len_scale"])
        w = run_ensemble(ctx, cfg, M, seeds, x)
        worst = max(worst, w or 0.0)
    ctx.notes.append("ensemble probe: %d configurations; the 6-standard-error window of the variance fractions was at most "
                     "%.0f%% of the expected value (a wrong projector such as 1/2:1/2 or 3/8:3/8 in 2-D is off by >= 33%%)"
                     % (len(plan), 100 * worst))


def probe_structured(ctx, rng):
    """SRF on a structured grid = the same field evaluated point by point (the field is a function of the point)"""
    for dim in (2, 3):
        name = CLASSES[int(rng.integers(len(CLASSES)))]
        cfg = rand_cfg(rng, name, dim, mode_choices=(7, 64))
        axes = [np.sort(rng.uniform(-5, 5, size=int(rng.integers(2, 5))) * cfg["len_scale"]) for _ in range(dim)]
        try:
            with warnings.catch_warnings():
                warnings.simplefilter("ignore")
                srf = make_srf(cfg)
                fs = np.asarray(srf.structured(axes))
                grid = np.meshgrid(*axes, indexing="ij")
                fu = np.asarray(srf(tuple(g.ravel() for g in grid), mesh_type="unstructured")).reshape(fs.shape)
        except Exception as e:
            ctx.violation("probe: structured", "unexpected exception %r" % (e,), dict(cfg), key="struct:exception")
            continue
        ctx.count(("structured", name, dim), hist=dict(stage="structured-probe", cls=name, dim=dim))
        if fs.shape != (dim,) + tuple(len(a) for a in axes) or not C.bit_equal(fs, fu):
            ctx.violation("probe: structured grid vs pointwise evaluation",
                          "the vector field on a structured grid differs from its evaluation at the grid points",
                          dict(cfg, axes=[hexarr(a) for a in axes]), key="struct:%s" % name)


def probe_sphere(ctx, rng):
    """RNG.sample_sphere is the parameterisation the variance-split theorems integrate over:
       2-D (cos t, sin t), t = uniform(0, 2 pi);  3-D (sqrt(1-m^2) cos t, sqrt(1-m^2) sin t, m), m = uniform(-1, 1).
       The generator's random stream is replayed and the formulas compared bitwise."""
    from gstools.random import RNG
    for dim in (2, 3):
        for _ in range(3):
            seed = int(rng.integers(0, 2 ** 31 - 1)); n = int(rng.choice([1, 7, 200]))
            try:
                r = RNG(seed)
                mst = r._master_rng._master_rng_fct
                st = mst.get_state()
                c = np.asarray(r.sample_sphere(dim, n))
                mst.set_state(st)
                t = r.random.uniform(0.0, 2 * np.pi, n)
                if dim == 2:
                    ref = np.array([np.cos(t), np.sin(t)])
                else:
                    m = r.random.uniform(-1.0, 1.0, n)
                    ref = np.array([np.sqrt(1.0 - m ** 2) * np.cos(t), np.sqrt(1.0 - m ** 2) * np.sin(t), m])
            except Exception as e:
                ctx.violation("probe: sample_sphere", "unexpected exception %r" % (e,), dict(dim=dim, seed=seed, n=n),
                              key="sphere:exception")
                continue
            ctx.count(("sphere", dim, n), hist=dict(stage="sphere-parameterisation", dim=dim))
            if c.shape != ref.shape or not C.bit_equal(c, ref):
                ctx.violation("correspondence: RNG.sample_sphere vs the parameterisation of C16_variance_split",
                              "directions are no longer (cos t, sin t) / (sqrt(1-m^2) cos t, sqrt(1-m^2) sin t, m) with uniform t, m",
                              dict(dim=dim, seed=seed, n=n), key="sphere:param", no_input=True)


# ----------------------------------------------------------------------------------------------- run

def run(ctx):
    rng = C.Rng(ctx.seed, "C16")
    ctx.rule = ("kernel/wrapper correspondence cases = (dim, n_points, n_modes, value kind) resp. (class, dim, mode_no, nugget, n_points); "
                "divergence probe = (class, dim, mode_no, step) per evaluation point whose error budget is < 1e-3 of |grad u| "
                "(others are trivial); ensemble probe = (class, dim, mode_no) per seed; distinct = distinct keys")
    ctx.trusted = [
        "Coq 8.16.1 kernel (coqc); no native_compute; Coquelicot 3.x derivative library",
        "translators tools/pyx2py.py, tools/pyx2coq.py (construct table = assumed semantics of the Cython subset)",
        "extraction (ExtrOcamlBasic only), OCaml 4.13, ocaml/proto.ml float instance (glibc libm)",
        "theorems about derivatives and expectations are over exact reals (Rops): IEEE rounding is not modelled there",
        "C16_mean: the expectation E, the random wave vectors and amplitudes are universally quantified; linearity of E and "
        "'amplitudes centred and uncorrelated with every function of the wave vectors' are explicit hypotheses (shown satisfiable)",
        "numpy RandomState and the spectral sampling of the modes are modelled, not verified (C01/C11)",
    ]
    ctx.not_proved = [
        "that numpy's uniform/normal streams are uniform/standard normal and independent: the moment hypotheses of C16_mean / "
        "C16_variance and the uniform weights of C16_variance_split are explicit hypotheses, probed statistically over seeds",
        "the identification E[g(k_j)] = normalised integral over the sample_sphere parameterisation (a statement about the RNG)",
        "floating-point divergence: theorems are over R; the central-difference probe bounds the float behaviour numerically",
        "anisotropic / rotated models are outside the property (the stretched field is not solenoidal)",
    ]
    ctx.tie["IncomprRandMeth.__call__ (generator.py)"] = "hand model incompr_call/velocity + correspondence"
    ctx.tie["compiled summator .so"] = "execution: bitwise vs extracted spec and translated kernel"
    ctx.tie["RNG.sample_sphere (directions of the modes)"] = "hand parameterisation kdir2/kdir3 + bitwise replay of the random stream"
    # coq/gen is shared with checks running concurrently (possibly on another checkout): make sure the translation
    # that was compiled is the one of THIS checkout's summator.pyx, else translate and build again
    import os
    import pyx2coq
    tie_broken, proofs_ok, drv = [], False, None
    for attempt in range(3):
        gen = C.regenerate(["Summator_gen.v"])
        tie_broken = [("%s: %s" % (k, v)) for k, v in gen.items() if v]
        if tie_broken:
            break
        proofs_ok = ctx.proofs("props/C16.v")
        ok, out = C.build_driver("c16")
        try:
            mine = pyx2coq.translate(os.path.join(C.REPO, "src/gstools/field/summator.pyx"))
            stable = open(os.path.join(C.COQ, "gen", "Summator_gen.v")).read() == mine
        except Exception:
            stable = True
        if stable:
            if ok:
                drv = C.Driver("c16")
            else:
                tie_broken.append("extraction/driver build: " + out[-400:])
            break
        ctx.notes.append("coq/gen/Summator_gen.v was rewritten by a concurrent check during the build (attempt %d): rebuilt" % (attempt + 1))
    ctx.tie["summate_incompr (summator.pyx)"] = ("translated (pyx2coq), proved equal to summate_incompr_spec"
                                                  if not tie_broken else "TRANSLATION FAILED")
    import time
    try:
        stages = ([("kernel correspondence", lambda: corr_kernel(ctx, rng, drv)),
                   ("wrapper correspondence", lambda: corr_wrapper(ctx, rng, drv))] if drv is not None else []) + [
                  ("divergence probe", lambda: probe_divergence(ctx, rng)),
                  ("structured probe", lambda: probe_structured(ctx, rng)),
                  ("sample_sphere parameterisation", lambda: probe_sphere(ctx, rng)),
                  ("ensemble probe", lambda: probe_ensemble(ctx, rng))]
        for nm, fn in stages:
            t0 = time.time()
            fn()
            C.log("[C16]   %s: %.1fs" % (nm, time.time() - t0))
    finally:
        if drv:
            drv.close()
    if (tie_broken or not proofs_ok) and not [v for v in ctx.violations if not v["no_input"]]:
        ctx.violation("proof/tie", "proof obligations or the model/code tie of C16 no longer check: %s" % (
            tie_broken or getattr(ctx, "proof_failure", {}).get("output_tail", "")[-600:]),
            dict(tie_broken=tie_broken, proof=getattr(ctx, "proof_failure", None)), no_input=True)


def replay(ctx, path):
    rec = json.load(open(path))
    print(json.dumps({k: rec[k] for k in ("stage", "what")}, indent=1))
    case = rec.get("case") or {}
    stage = rec.get("stage", "")
    cfg = {k: case[k] for k in ("cls", "dim", "var", "len_scale", "mean_u", "mode_no", "seed", "opt") if k in case}
    if stage.startswith("probe: divergence") and "x" in case:
        run_divergence(ctx, cfg, unhex(case["x"]))
    elif stage.startswith("probe: ensemble") or stage.startswith("probe: component variance"):
        rng = C.Rng(rec.get("seed", ctx.seed), "C16-replay")
        M = int(case.get("M", 300))
        run_ensemble(ctx, cfg, M, rng.choice(2 ** 31 - 1, size=M, replace=False), unhex(case["x"]))
    else:
        run(ctx)
    return ctx.finish()
