"""C16 — vector fields from isotropic models are incompressible.

stages: translate summator.pyx -> Gallina (tie 1) ; theorems props/C16.v (refinement of summate_incompr to the
        closed-form spec for every number type; projector orthogonality, divergence = 0, mean — over R) ;
        extraction + driver ; correspondence: closed-form spec / translated kernel vs compiled .so (bitwise),
        IncomprRandMeth.__call__ and SRF(generator='VectorField') vs the hand model of the wrapper ;
        probes on the implementation: central-difference divergence with a rigorous error budget, ensemble mean
        and component variances over seeds (6 standard errors), structured grid = pointwise evaluation."""
import copy
import json
import os
import math
import warnings

import numpy as np

import common as C

EPS = 2.0 ** -52
CLASSES = ["Gaussian", "Exponential", "Matern", "Integral", "Stable", "Rational", "Cubic", "Linear", "Circular",
           "Spherical", "HyperSpherical", "SuperSpherical", "JBessel", "TPLGaussian", "TPLExponential",
           "TPLStable", "TPLSimple"]
# fractions of mean_u^2 * var carried by each component: E[p_d(k)^2] for a uniformly distributed direction of k
#   2-D: k = (cos t, sin t): p = (sin^2 t, -sin t cos t): E = 3/8, 1/8
#   3-D: k_0 = m uniform on [-1,1]: p_0 = 1 - m^2: E = 8/15; the other two share E[m^2 (1-m^2)] = 2/15 equally
SPLIT = {2: [3.0 / 8, 1.0 / 8], 3: [8.0 / 15, 1.0 / 15, 1.0 / 15]}
SIZES = [0, 1, 2, 3, 5, 17]


# ----------------------------------------------------------------------------------------------- helpers

def make_model(name, dim, var, len_scale, nugget=0.0, opt=None):
    import gstools as gs
    kw = dict(dim=dim, var=var, len_scale=len_scale, nugget=nugget)
    if opt:
        kw.update(opt)
    return getattr(gs, name)(**kw)


def rand_opt(rng, name):
    """optional shape parameters inside their bounds for a few classes (defaults otherwise)"""
    if rng.random() < 0.5:
        return {}
    if name == "Matern":
        return {"nu": float(np.exp(rng.uniform(np.log(0.3), np.log(5.0))))}
    if name == "Stable":
        return {"alpha": float(rng.uniform(0.5, 2.0))}
    if name == "Rational":
        return {"alpha": float(np.exp(rng.uniform(np.log(0.6), np.log(5.0))))}
    if name in ("TPLGaussian", "TPLExponential", "TPLSimple"):
        return {"hurst": float(rng.uniform(0.2, 0.8))} if name != "TPLSimple" else {}
    return {}


TPL = ("TPLGaussian", "TPLExponential", "TPLStable")     # classes with var = var_raw * var_factor(), var_factor != 1


def rand_cfg(rng, name, dim, mode_choices=(1, 2, 7, 64, 200, 1000)):
    cfg = dict(cls=name, dim=dim, var=float(np.exp(rng.uniform(np.log(0.1), np.log(10.0)))),
               len_scale=float(np.exp(rng.uniform(np.log(0.2), np.log(20.0)))),
               mean_u=float(rng.choice([-1.0, 1.0]) * np.exp(rng.uniform(np.log(0.1), np.log(5.0)))),
               mode_no=int(rng.choice(mode_choices)), seed=int(rng.integers(0, 2 ** 31 - 1)), opt=rand_opt(rng, name))
    if name in TPL:
        # truncated power laws: hurst, lower cut-off and length scale such that var_factor() is clearly != 1
        # (var_raw and var then differ by at least a factor 2: the variance the field must carry is model.var)
        for _ in range(200):
            opt = {"hurst": float(rng.uniform(0.15, 0.85))}
            if rng.random() < 0.5:
                opt["len_low"] = float(rng.uniform(0.0, 2.0) * cfg["len_scale"])
            if name == "TPLStable" and rng.random() < 0.5:
                opt["alpha"] = float(rng.uniform(0.6, 2.0))
            cfg["opt"] = opt
            vf = float(make_model(name, dim, cfg["var"], cfg["len_scale"], 0.0, opt).var_factor())
            if abs(math.log(vf)) >= math.log(2.0):
                break
            cfg["len_scale"] = float(np.exp(rng.uniform(np.log(0.2), np.log(20.0))))
        cfg["var_factor"] = vf
    if rng.random() < 0.5:
        # rotation angles on an isotropic model: the model (and the field) must not depend on them
        ang = rng.uniform(0.2, 3.0, size=1 if dim == 2 else 3) * rng.choice([-1.0, 1.0], size=1 if dim == 2 else 3)
        if dim == 3:
            ang = ang * (rng.random(3) < 0.6)              # every zero / non-zero pattern of the three angles
            if not ang.any():
                ang[int(rng.integers(3))] = 0.9
        cfg["opt"] = dict(cfg["opt"], angles=[float(a) for a in ang])
    return cfg


def make_srf(cfg, nugget=None):
    import gstools as gs
    nugget = cfg.get("nugget", 0.0) if nugget is None else nugget
    m = make_model(cfg["cls"], cfg["dim"], cfg["var"], cfg["len_scale"], nugget, cfg.get("opt"))
    return gs.SRF(m, generator="VectorField", mean_velocity=cfg["mean_u"], mode_no=cfg["mode_no"], seed=cfg["seed"])


def hexarr(a):
    a = np.asarray(a, dtype=float)
    return dict(shape=list(a.shape), hex=[C.fhex(v) for v in a.ravel()[:3000]])


def unhex(d):
    return np.array([float.fromhex(x) if x not in ("nan", "inf", "-inf") else float(x) for x in d["hex"]],
                    dtype=float).reshape(d["shape"])


def same_bits(a, b):
    a = np.asarray(a, dtype=float)
    b = np.asarray(b, dtype=float)
    if a.shape != b.shape:
        return a.size == 0 and b.size == 0          # the list model cannot tell (0,n) from (n,0)
    return C.bit_equal(a, b)


def special_values(rng, shape, kind):
    a = rng.normal(size=shape)
    if kind == "mixed":
        a *= 10.0 ** rng.integers(-6, 6, size=shape)
    elif kind == "int":
        a = rng.integers(-2, 3, size=shape).astype(float)      # zero wave vectors -> 0/0 = NaN on both sides
    elif kind == "huge":
        a *= 1e150
    elif kind == "tiny":
        a *= 1e-160
    return np.ascontiguousarray(a)


# ----------------------------------------------------------------------------------------------- correspondence

def corr_kernel(ctx, rng, drv):
    """closed-form spec (extracted, floats) and translated kernel vs the compiled summate_incompr: bitwise"""
    from gstools.field import summator as S
    reps = 3 if ctx.tier == "thorough" else 1
    sizes = SIZES + ([64] if ctx.tier == "thorough" else [])
    n = 0
    for _ in range(reps):
        for dim in (1, 2, 3, 4):
            for npts in sizes:
                m = int(rng.choice(sizes))
                kind = ["normal", "mixed", "int", "huge", "tiny"][int(rng.integers(5))]
                ks = special_values(rng, (dim, m), kind)
                pos = special_values(rng, (dim, npts), "normal" if kind in ("huge", "tiny") else kind)
                z1 = special_values(rng, (m,), "normal")
                z2 = special_values(rng, (m,), "normal")
                ref = np.asarray(S.summate_incompr(ks, z1, z2, pos))
                key = ("kernel", dim, npts, m, kind)
                ctx.count(key if (npts >= 2 and m >= 2 and dim >= 2) else None,
                          hist=dict(stage="kernel-correspondence", dim=dim, kind=kind, n_points=npts))
                case = dict(dim=dim, n=npts, m=m, kind=kind, ks=hexarr(ks), z1=hexarr(z1), z2=hexarr(z2), pos=hexarr(pos))
                for fn in ("spec", "summate_incompr"):
                    r = drv.call(fn, ks, z1, z2, pos)
                    n += 1
                    if not same_bits(ref, r):
                        ctx.violation("correspondence: %s (model, floats) vs compiled summate_incompr" % fn,
                                      "closed-form specification / translated source and the compiled kernel differ",
                                      dict(case, fn=fn, so=hexarr(ref), model=hexarr(np.asarray(r))),
                                      key="kernel:%s-vs-so" % fn, no_input=kernel_case_divfree(ks, z1, z2, pos, ref))
                        break
    ctx.notes.append("kernel correspondence: %d model runs, all compared bitwise with the .so" % n)


def kernel_case_divfree(ks, z1, z2, pos, out):
    """a correspondence disagreement is a counter-example to the PROPERTY only if the compiled kernel's output is
    not the solenoidal sum; decided against a numpy evaluation of the closed form with a budget for the rounding of
    the phases (eps |k||x| per mode) and of the accumulation.  True = the .so still returns the solenoidal sum."""
    try:
        with np.errstate(all="ignore"):
            k2 = (ks ** 2).sum(0)
            ph = ks.T @ pos
            w = z1[:, None] * np.cos(ph) + z2[:, None] * np.sin(ph)
            e1 = np.zeros(ks.shape[0]); e1[0] = 1.0
            p = e1[:, None] - ks * ks[0] / k2
            ref = p @ w
            hyp = np.hypot(z1, z2)[:, None]
            dphi = 8 * EPS * (np.abs(ks).T @ np.abs(pos))
            tol = (np.abs(p) + 8 * EPS) @ (hyp * (dphi + (ks.shape[1] + 16) * EPS)) + 1e-300
        ok = np.isfinite(ref) & np.isfinite(out) & np.isfinite(tol)
        return bool((np.abs(ref - out)[ok] <= 4 * tol[ok]).all())
    except Exception:
        return True


def wrapper_tol(mu, amp, sm, nug):
    e1 = np.zeros_like(sm)
    e1[0] = 1.0
    return 8 * EPS * (abs(mu) * e1 + np.abs(amp * sm) + np.abs(nug)) + 1e-300


def corr_wrapper(ctx, rng, drv):
    """IncomprRandMeth.__call__ (mean velocity, amplitude, nugget) and SRF(generator='VectorField') vs the model"""
    from gstools.field.generator import IncomprRandMeth
    from gstools.field import summator as S
    ncfg = 60 if ctx.tier == "thorough" else 18
    bitwise = total = 0
    fixed = ["Gaussian", "Exponential", "Matern", "TPLGaussian", "TPLExponential", "TPLStable"]
    followups = []
    for c in range(ncfg):
        name = CLASSES[int(rng.integers(len(CLASSES)))] if c >= len(fixed) else fixed[c]
        dim = int(rng.choice([2, 3]))
        cfg = rand_cfg(rng, name, dim, mode_choices=(1, 2, 7, 33, 64))
        nug_var = float(rng.choice([0.0, 0.0, 0.3, 2.5]))
        npts = [1, max(1, dim - 1), dim, dim + 1, 5, 17][c % 6] if c % 12 < 6 else int(rng.choice([1, dim, dim + 1, 5]))
        pos = np.ascontiguousarray(rng.uniform(-10, 10, size=(dim, npts)) * cfg["len_scale"])
        case = dict(cfg, nugget=nug_var, pos=hexarr(pos))
        try:
            model = make_model(name, dim, cfg["var"], cfg["len_scale"], nug_var, cfg["opt"])
            g = IncomprRandMeth(model, mean_velocity=cfg["mean_u"], mode_no=cfg["mode_no"], seed=cfg["seed"])
            ks, z1, z2 = (np.ascontiguousarray(np.asarray(a, dtype=float)) for a in (g._cov_sample, g._z_1, g._z_2))
            N = ("z", cfg["mode_no"])
            var = float(model.var)            # the variance of the model as the implementation reports it (= var_raw * var_factor())
            case["model_var"] = C.fhex(var); case["model_var_raw"] = C.fhex(float(model.var_raw))
            amp = cfg["mean_u"] * math.sqrt(var / cfg["mode_no"])
            sm = np.asarray(S.summate_incompr(ks, z1, z2, pos))
            # (a) no nugget requested
            out0 = np.asarray(g(pos, add_nugget=False))
            zero = np.zeros((dim, npts))
            mod0 = drv.call("generate", cfg["mean_u"], var, N, ks, z1, z2, pos, zero)
            # (b) nugget: replay the generator's random stream
            mst = g._rng._master_rng._master_rng_fct        # RNG.random opens a new stream seeded by the master
            st = mst.get_state()
            out1 = np.asarray(g(pos))
            if nug_var > 0:
                mst.set_state(st)
                nug = np.sqrt(nug_var) * g._rng.random.normal(size=(dim, npts))
            else:
                nug = zero
            mod1 = drv.call("generate", cfg["mean_u"], var, N, ks, z1, z2, pos, nug)
            mod1b = drv.call("call", cfg["mean_u"], var, N, sm, nug)
            # (c) the field function used by the theorems, point by point
            i = int(rng.integers(npts)); d = int(rng.integers(dim))
            v = drv.call("velocity", cfg["mean_u"], var, N, ks, z1, z2, np.ascontiguousarray(pos[:, i]), ("n", d))
            # (d) through SRF
            srf = make_srf(cfg, 0.0)
            f = np.asarray(srf(tuple(pos), mesh_type="unstructured"))
            same_modes = same_bits(srf.generator._cov_sample, ks) and same_bits(srf.generator._z_1, z1)
        except Exception as e:
            ctx.violation("correspondence: IncomprRandMeth.__call__", "unexpected exception %r" % (e,), case,
                          key="wrapper:exception")
            continue
        ctx.count(("wrapper", name, dim, cfg["mode_no"], nug_var > 0, npts),
                  hist=dict(stage="wrapper-correspondence", cls=name, dim=dim, nugget=nug_var > 0, mode_no=cfg["mode_no"]))
        ctx.sample(dict(stage="wrapper-correspondence", cfg=cfg, nugget=nug_var, n_points=npts))
        checks = [("__call__(add_nugget=False)", out0, mod0, zero), ("__call__ with nugget stream", out1, mod1, nug),
                  ("incompr_call on the kernel output", out1, mod1b, nug)]
        if same_modes:
            checks.append(("SRF(generator='VectorField') unstructured, %s points" % ("dim" if npts == dim else npts), f, mod0, zero))
        for what, a, b, ng in checks:
            total += 1
            b = np.asarray(b)
            if a.shape != b.shape or not (np.abs(a - b) <= wrapper_tol(cfg["mean_u"], amp, sm, ng)).all():
                # does the property still hold for the implementation's output?  (mean_u e1 + c * kernel sum, any c)
                ctx.violation("correspondence: %s vs model" % what,
                              "generator wrapper (mean velocity, amplitude sqrt(var/mode_no), nugget) differs from its model",
                              dict(case, impl=hexarr(a), model=hexarr(b)), key="wrapper:model-vs-impl", no_input=True)
                followups.append(cfg)
                break
            bitwise += int(same_bits(a, b))
        if abs(v - out0[d, i]) > wrapper_tol(cfg["mean_u"], amp, sm, zero)[d, i]:
            ctx.violation("correspondence: velocity (field function of the theorems) vs __call__",
                          "pointwise field function differs from the generator output",
                          dict(case, d=d, i=i, impl=C.fhex(out0[d, i]), model=C.fhex(v)), key="wrapper:velocity", no_input=True)
        if not same_modes:
            ctx.violation("correspondence: SRF generator modes", "SRF(generator='VectorField', seed=s) and "
                          "IncomprRandMeth(seed=s) drew different modes", case, key="wrapper:srf-modes", no_input=True)
    ctx.notes.append("wrapper correspondence: %d comparisons within 8 eps * sum|terms|, %d of them bitwise" % (total, bitwise))
    # a disagreement with the model of __call__ is followed by the property probes on that very configuration (divergence,
    # ensemble mean and variance split against mean_u^2 * model.var * q_d): a failing input if the property is broken there
    seen = set()
    for cfg in followups:
        if (cfg["cls"], cfg["dim"]) in seen or len(seen) >= 3:
            continue
        seen.add((cfg["cls"], cfg["dim"]))
        cfg2 = dict(cfg, mode_no=64)
        x = np.ascontiguousarray(rng.uniform(-10, 10, size=(cfg["dim"], 6)) * cfg["len_scale"])
        run_divergence(ctx, cfg2, x)
        M = 120 if cfg["cls"] == "TPLStable" else 300
        xs = np.ascontiguousarray(rng.uniform(-50, 50, size=(cfg["dim"], 24)) * cfg["len_scale"])
        run_ensemble(ctx, cfg2, M, rng.choice(2 ** 31 - 1, size=M, replace=False), xs)
        ctx.notes.append("wrapper disagreement on %s dim %d followed by divergence + ensemble probes on that configuration" % (cfg["cls"], cfg["dim"]))


# ----------------------------------------------------------------------------------------------- option cells

DEFAULT = "<default>"
OPTION_VALUES = {
    # every numeric option of the generator / model: falsy, signed-zero, negative, tiny, huge values, numpy scalars, the
    # documented default (option omitted).  Expected value used by the model prediction = float()/int() of the given value.
    "mean_velocity": [0, 0.0, -0.0, np.float64(0.0), np.int64(0), np.float32(0.0), -1.5, -1, 3, 1e-300, 1e-12, 1e100,
                      np.float32(2.5), np.float64(-0.25), np.int64(4), DEFAULT],
    "var": [1e-200, 1e-12, 1, 3, 1e12, 1e150, np.float64(2.0), np.float32(0.5)],
    "mode_no": [1, 2, 3, np.int64(5), 7.0, np.float64(4.0), DEFAULT],
    "len_scale": [1e-8, 1e-3, 1, 7, 1e6, np.float32(1.5), np.int64(2)],
    "seed": [0, 1, np.int64(7), 2 ** 31 - 1],
}
OPTION_DEFAULTS = {"mean_velocity": 1.0, "mode_no": 1000}          # documented defaults of IncomprRandMeth
OPTION_BASE = {"mean_velocity": 0.7, "var": 1.3, "mode_no": 6, "len_scale": 2.5, "seed": 12345}
ALIASES = ["VectorField", "VelocityField", "IncomprRandMeth"]


def option_cell(ctx, drv, cls, dim, opts, route, pos_unit, followups):
    """one cell: build the bare generator (route 'generator') or SRF(generator=<alias>) with the given option values and
    compare its output with the extracted model evaluated at the values the user passed:
       field = mean_u e1 + mean_u sqrt(var/N) * kernel sum     (mean_u = float(mean_velocity), N = int(mode_no))"""
    import gstools as gs
    from gstools.field.generator import IncomprRandMeth
    from gstools.field import summator as S
    given = {k: v for k, v in opts.items() if not (isinstance(v, str) and v == DEFAULT)}
    exp = {k: (OPTION_DEFAULTS[k] if (isinstance(v, str) and v == DEFAULT) else v) for k, v in opts.items()}
    mean_u = float(exp["mean_velocity"]); N = int(exp["mode_no"])
    desc = {k: ("%s(%r)" % (type(v).__name__, v.item() if hasattr(v, "item") else v)) for k, v in opts.items()}
    pos = np.ascontiguousarray(pos_unit * float(exp["len_scale"]))
    case = dict(cls=cls, dim=dim, options=desc, route=route, pos=hexarr(pos))
    try:
        with warnings.catch_warnings():
            warnings.simplefilter("ignore")
            model = getattr(gs, cls)(dim=dim, var=opts["var"], len_scale=opts["len_scale"])
            kw = {k: given[k] for k in ("mean_velocity", "mode_no", "seed") if k in given}
            if route == "generator":
                g = IncomprRandMeth(model, **kw)
                out = np.asarray(g(pos, add_nugget=False))
            else:
                srf = gs.SRF(model, generator=route, **kw)
                out = np.asarray(srf(tuple(pos), mesh_type="unstructured"))
                g = srf.generator
            ks, z1, z2 = (np.ascontiguousarray(np.asarray(a, dtype=float)) for a in (g._cov_sample, g._z_1, g._z_2))
            var = float(model.var)
            sm = np.asarray(S.summate_incompr(ks, z1, z2, pos))
            mod = np.asarray(drv.call("generate", mean_u, var, ("z", N), ks, z1, z2, pos, np.zeros_like(pos)))
            public = dict(mean_u=g.mean_u, mode_no=g.mode_no, seed=g.seed)
    except Exception as e:
        ctx.violation("correspondence: option cell", "unexpected exception %r for a valid option value" % (e,), case,
                      key="options:exception:%s" % route, no_input=True)
        return
    key_opt = "+".join(k for k in opts if opts[k] is not OPTION_BASE.get(k)) or "base"
    ctx.count(("options", cls, dim, route, tuple(sorted(desc.items()))),
              hist=dict(stage="option-cells", route=route, varied=key_opt, dim=dim))
    problems = []
    if ks.shape != (dim, N) or z1.shape != (N,) or z2.shape != (N,):
        problems.append("generator holds %r modes for mode_no=%r" % (ks.shape, opts["mode_no"]))
    if not (float(public["mean_u"]) == mean_u and int(public["mode_no"]) == N):
        problems.append("public mean_u=%r / mode_no=%r differ from the given values" % (public["mean_u"], public["mode_no"]))
    amp = mean_u * math.sqrt(var / N)
    tol = wrapper_tol(mean_u, amp, sm, np.zeros_like(sm))
    if out.shape != mod.shape or not (np.abs(out - mod) <= tol).all():
        problems.append("output differs from the model prediction: max |diff| %.3g" % (
            float(np.nanmax(np.abs(out - mod))) if out.shape == mod.shape else float("nan")))
    if not problems:
        return
    if mean_u == 0.0 and np.any(out != 0.0):
        # mean_u = 0: the field is identically zero (field = mean_u * (e1 + sqrt(var/N) * sum)); deterministic counter-example
        ctx.violation("correspondence: option cell %s via %s" % (desc, route),
                      "mean_velocity = %s must give the identically zero field (mean mean_u e1 = 0, variance mean_u^2 var q = 0); "
                      "got values up to %.3g; %s" % (desc["mean_velocity"], float(np.max(np.abs(out))), "; ".join(problems)),
                      dict(case, got=hexarr(out), model=hexarr(mod)), key="options:mean_velocity=0:%s" % route)
        return
    ctx.violation("correspondence: option cell %s via %s" % (desc, route), "; ".join(problems),
                  dict(case, got=hexarr(out), model=hexarr(mod)), key="options:%s:%s" % (key_opt, route), no_input=True)
    followups.append(dict(cls=cls, dim=dim, var=float(exp["var"]), len_scale=float(exp["len_scale"]), mean_u=mean_u,
                          mode_no=max(N, 16), seed=int(exp["seed"]), opt={}))


def corr_options(ctx, rng, drv):
    """boundary / falsy / numpy-scalar values of every numeric option, one option at a time and in random pairs, on the bare
    generator and through SRF with every generator alias, dims 2 and 3"""
    followups = []
    thorough = ctx.tier == "thorough"
    n = 0
    for dim in (2, 3):
        pos_unit = np.ascontiguousarray(rng.uniform(-3, 3, size=(dim, 4)))
        classes = ["Gaussian"] + (["Exponential", "TPLExponential"] if thorough else [])
        for cls in classes:
            for name, values in OPTION_VALUES.items():
                for v in values:
                    opts = dict(OPTION_BASE); opts[name] = v
                    if name != "mode_no" and opts["mode_no"] == 6:
                        opts["mode_no"] = 6
                    routes = ["generator"] + (ALIASES if (thorough or name == "mean_velocity") else [ALIASES[n % 3]])
                    for route in routes:
                        option_cell(ctx, drv, cls, dim, opts, route, pos_unit, followups); n += 1
        # pairs of options
        names = list(OPTION_VALUES)
        for _ in range(40 if thorough else 12):
            a, b = rng.choice(len(names), size=2, replace=False)
            opts = dict(OPTION_BASE)
            for i in (a, b):
                vals = OPTION_VALUES[names[i]]
                opts[names[i]] = vals[int(rng.integers(len(vals)))]
            if isinstance(opts["mode_no"], str):
                opts["mode_no"] = 9          # keep pair cells cheap
            route = (["generator"] + ALIASES)[int(rng.integers(4))]
            option_cell(ctx, drv, "Gaussian", dim, opts, route, pos_unit, followups); n += 1
    ctx.notes.append("option cells: %d constructions (values: %s)" % (n, {k: len(v) for k, v in OPTION_VALUES.items()}))
    seen = set()
    for cfg in followups:
        k = (cfg["cls"], cfg["dim"], cfg["mean_u"], cfg["var"])
        if k in seen or len(seen) >= 2:
            continue
        seen.add(k)
        xs = np.ascontiguousarray(rng.uniform(-50, 50, size=(cfg["dim"], 24)) * cfg["len_scale"])
        run_ensemble(ctx, cfg, 200, rng.choice(2 ** 31 - 1, size=200, replace=False), xs)


def corr_frames(ctx, rng, drv):
    """which positions the generator sees.  Isotropic model with rotation angles: the user's positions (the field is bitwise
    the field of the same model without angles: same solenoidal field, mean along the first axis).  Anisotropic models
    (outside the property: C16_rotated_or_stretched_not_solenoidal): the isometrized positions M x with unchanged components,
    and the finite-difference divergence equals the formula of C16_divergence_linear_map."""
    import gstools as gs
    from gstools.tools.geometric import matrix_isometrize
    ncfg = 10 if ctx.tier == "thorough" else 3
    for dim in (2, 3):
        for c in range(ncfg):
            name = CLASSES[int(rng.integers(len(CLASSES)))] if c else "Gaussian"
            cfg = rand_cfg(rng, name, dim, mode_choices=(2, 7, 33))
            k = 1 if dim == 2 else 3
            angles = [float(a) for a in rng.uniform(0.2, 3.0, size=k) * rng.choice([-1.0, 1.0], size=k)]
            anis = [float(a) for a in np.exp(rng.uniform(np.log(0.2), np.log(3.0), size=dim - 1))]
            opt0 = {kk: v for kk, v in cfg["opt"].items() if kk != "angles"}
            npts = [1, dim, 5][c % 3]
            pos = np.ascontiguousarray(rng.uniform(-5, 5, size=(dim, npts)) * cfg["len_scale"])
            for variant, extra in (("isotropic+angles", dict(angles=angles)), ("anis", dict(anis=anis)),
                                   ("anis+angles", dict(anis=anis, angles=angles))):
                case = dict(cfg, variant=variant, extra=extra, pos=hexarr(pos))
                try:
                    with warnings.catch_warnings():
                        warnings.simplefilter("ignore")
                        srf = make_srf(dict(cfg, opt=dict(opt0, **extra)))
                        f = np.asarray(srf(tuple(pos), mesh_type="unstructured"))
                        ks, z1, z2 = (np.ascontiguousarray(a) for a in modes_of(srf))
                        var = float(srf.model.var); N = cfg["mode_no"]
                        M = np.asarray(matrix_isometrize(dim, srf.model.angles, srf.model.anis))
                        if variant == "isotropic+angles":
                            seen = pos
                            plain = np.asarray(make_srf(dict(cfg, opt=opt0))(tuple(pos), mesh_type="unstructured"))
                        else:
                            seen = np.ascontiguousarray(np.asarray(srf.model.isometrize(pos)))
                        mod = np.asarray(drv.call("generate", cfg["mean_u"], var, ("z", N), ks, z1, z2, seen, np.zeros_like(pos)))
                        from gstools.field import summator as S
                        sm = np.asarray(S.summate_incompr(ks, z1, z2, seen))
                except Exception as e:
                    ctx.violation("correspondence: frames", "unexpected exception %r" % (e,), case, key="frames:exception")
                    continue
                ctx.count(("frames", variant, name, dim, npts), hist=dict(stage="frames-correspondence", variant=variant, dim=dim))
                amp = cfg["mean_u"] * math.sqrt(var / N)
                tol = wrapper_tol(cfg["mean_u"], amp, sm, np.zeros_like(sm))
                if variant == "isotropic+angles":
                    if not C.bit_equal(f, plain):
                        # the field of an isotropic model depends on its (meaningless) rotation angles: follow with the divergence probe
                        ctx.violation("correspondence: isotropic model with angles vs the same model without angles",
                                      "SRF(generator='VectorField') of an isotropic model changes with the rotation angles %r: max |diff| %.3g"
                                      % (angles, float(np.max(np.abs(f - plain)))), dict(case, got=hexarr(f), plain=hexarr(plain)),
                                      key="frames:isotropic-angles", no_input=True)
                        x = np.ascontiguousarray(rng.uniform(-10, 10, size=(dim, 6)) * cfg["len_scale"])
                        run_divergence(ctx, dict(cfg, opt=dict(opt0, **extra), mode_no=max(cfg["mode_no"], 7)), x)
                        continue
                if f.shape != mod.shape or not (np.abs(f - mod) <= tol).all():
                    ctx.violation("correspondence: SRF %s vs model at the %s positions" % (variant, "given" if seen is pos else "isometrized"),
                                  "max |diff| %.3g" % (float(np.max(np.abs(f - mod))) if f.shape == mod.shape else float("nan")),
                                  dict(case, got=hexarr(f), model=hexarr(mod)), key="frames:%s" % variant, no_input=True)
                    continue
                if variant != "isotropic+angles":
                    # divergence in the user's coordinates = amp sum_j W'_j sum_d p_d(k_j) (M^T k_j)_d   (C16_divergence_linear_map)
                    k2 = (ks ** 2).sum(0)
                    e1 = np.zeros(dim); e1[0] = 1.0
                    P = e1[:, None] - ks * ks[0] / k2
                    coeff = (P * (M.T @ ks)).sum(0)
                    ph = ks.T @ seen
                    pred = amp * ((z2[:, None] * np.cos(ph) - z1[:, None] * np.sin(ph)) * coeff[:, None]).sum(0)
                    kM = np.abs(M.T @ ks)
                    h = 1e-4 / max(float(kM.max()), 1e-300)
                    est = np.zeros(npts)
                    for d in range(dim):
                        xp = pos.copy(); xp[d] += h; xm = pos.copy(); xm[d] -= h
                        fp = np.asarray(srf(tuple(xp), mesh_type="unstructured")); fm = np.asarray(srf(tuple(xm), mesh_type="unstructured"))
                        est += (fp[d] - fm[d]) / (xp[d] - xm[d])
                    scale = abs(amp) * (np.hypot(z1, z2) * np.abs(P).sum(0) * kM.max(0)).sum() + 1e-300
                    if not (np.abs(est - pred) <= 1e-5 * scale).all():
                        ctx.violation("correspondence: divergence of an anisotropic/rotated field vs C16_divergence_linear_map",
                                      "finite-difference divergence %r, formula %r (scale %.3g)" % (est.tolist(), pred.tolist(), scale),
                                      case, key="frames:divergence-formula:%s" % variant, no_input=True)


# ----------------------------------------------------------------------------------------------- probes

def modes_of(srf):
    g = srf.generator
    return (np.asarray(g._cov_sample, dtype=float), np.asarray(g._z_1, dtype=float), np.asarray(g._z_2, dtype=float))


def divergence_budget(srf, cfg, x, ev=None):
    """constants of the error budget of a central-difference divergence estimate with step h at the points x:
       |estimate - true divergence| <= T h^2 + R/h + S   (T scalar; R, S per point), see design/C16.md.
       u_d = mean_u e1_d + amp sum_j P_dj (z1_j cos phi_j + z2_j sin phi_j)"""
    dim, n = x.shape
    ks, z1, z2 = modes_of(srf)
    N = ks.shape[1]
    amp = abs(cfg["mean_u"]) * math.sqrt(float(srf.model.var) / N)
    e1 = np.zeros(dim); e1[0] = 1.0
    # the budget must hold for whatever scalar amplitude the implementation really applies to the kernel sum:
    # measure it at the points and take the larger one (so that a wrong amplitude alone is never reported as divergence)
    from gstools.field import summator as S
    sm = np.asarray(S.summate_incompr(ks, z1, z2, np.ascontiguousarray(x)))
    u0 = np.asarray(ev(x) if ev else srf(tuple(x), mesh_type="unstructured")) - cfg["mean_u"] * e1[:, None]
    if np.isfinite(sm).all() and (sm ** 2).sum() > 0:
        amp = 1.01 * max(amp, math.sqrt(float((u0 ** 2).sum() / (sm ** 2).sum())))
    k2 = (ks ** 2).sum(0)
    P = np.abs(e1[:, None] - ks * ks[0] / k2) + 4 * EPS     # |P_dj| incl. its own rounding error
    hyp = np.hypot(z1, z2)                                   # |z1 cos + z2 sin| <= hyp
    A = amp * P * hyp                                        # (dim, N)
    absk = np.abs(ks)
    T = (A * absk ** 3).sum() / 6.0                          # sum_d max|d^3 u_d / dx_d^3| / 6
    # rounding of one evaluation of u_d at a point y, |y_d| <= 1.01 |x_d| + tiny: phase error, libm, accumulation, affine map
    ymax = 1.01 * np.abs(x) + 1e-300                         # (dim, n)
    dphi = (dim + 2) * EPS * (absk.T @ ymax)                 # (N, n)
    err = A @ (dphi + (N + 12) * EPS) + 8 * EPS * (abs(cfg["mean_u"]) + A.sum(1))[:, None]   # (dim, n)
    R = err.sum(0)
    # the two evaluation points are symmetric about a midpoint that is off x_d by <= 2 eps |x_d|
    S = ((A * absk ** 2).sum(1)[:, None] * (2 * EPS * ymax)).sum(0)
    return T, R, S, float(np.abs(ks).max())


def divergence_case(srf, cfg, x, h, budget=None, ev=None):
    """central-difference divergence of the implementation's field at the points x (dim, n) with step h.
    returns dict(div, bound, grad) arrays over the points"""
    dim, n = x.shape
    T, R, S, kmax = budget or divergence_budget(srf, cfg, x)
    if not (h <= 0.01 * np.abs(x).min() or True):
        pass
    xs = np.repeat(x[:, None, :], 2 * dim, axis=1)          # (dim, 2*dim, n): x +- h e_d for every axis, one call
    for d in range(dim):
        xs[d, 2 * d, :] += h
        xs[d, 2 * d + 1, :] -= h
    u = np.asarray(ev(xs.reshape(dim, -1)) if ev else srf(tuple(xs.reshape(dim, -1)), mesh_type="unstructured")).reshape(dim, 2 * dim, n)
    grad = np.empty((dim, dim, n))                           # grad[c, d] = d u_c / d x_d
    hmin = h
    for d in range(dim):
        hh = xs[d, 2 * d, :] - xs[d, 2 * d + 1, :]
        hmin = min(hmin, float(hh.min()) / 2)
        grad[:, d, :] = (u[:, 2 * d, :] - u[:, 2 * d + 1, :]) / hh
    div = sum(grad[d, d, :] for d in range(dim))
    gnorm = np.sqrt((grad ** 2).sum((0, 1)))
    hmax = h * (1 + 1e-6) + 4 * EPS * float(np.abs(x).max())
    bound = 2.0 * (T * hmax ** 2 + R / hmin + S + 4 * EPS * np.abs(grad).sum((0, 1)))
    return dict(div=div, bound=bound, grad=gnorm, h=h, trunc=T * h * h)


def divergence_steps(T, R, kmax):
    """the step that minimises T h^2 + R/h (median point), capped at 1e-2/max|k_d|, and three times that step"""
    r = float(np.median(R))
    h = (r / (2 * T)) ** (1.0 / 3) if T > 0 and r > 0 else 1e-3 / kmax
    h = min(h, 1e-2 / kmax)
    return [h, 3 * h]


def probe_divergence(ctx, rng):
    thorough = ctx.tier == "thorough"
    nseeds = 3 if thorough else 1
    npts = 12 if thorough else 6
    worst = 0.0
    insens = 0
    for name in CLASSES:
        for dim in (2, 3):
            for _ in range(nseeds):
                cfg = rand_cfg(rng, name, dim)
                x = np.ascontiguousarray(rng.uniform(-10, 10, size=(dim, npts)) * cfg["len_scale"])
                run_divergence(ctx, cfg, x, stats := {})
                worst = max(worst, stats.get("worst", 0.0))
                insens += stats.get("insensitive", 0)
    ctx.notes.append("divergence probe: largest |div|/|grad u| seen %.2e (error budget relative to |grad u| < 1e-3 required "
                     "for a point to count as non-trivial; %d evaluations were above that and only counted as trivial)" % (worst, insens))


def run_divergence(ctx, cfg, x, stats=None, via=None):
    """via = (label, factory): factory(srf) returns an evaluator pos -> field going through another public entry point"""
    case = dict(cfg, x=hexarr(x), via=via[0] if via else "SRF.__call__")
    try:
        with warnings.catch_warnings():
            warnings.simplefilter("ignore")
            srf = make_srf(cfg)
            ev = via[1](srf) if via else None
            bud = divergence_budget(srf, cfg, x, ev)
            steps = divergence_steps(bud[0], bud[1], bud[3])
            res = [divergence_case(srf, cfg, x, h, bud, ev) for h in steps]
    except Exception as e:
        ctx.violation("probe: divergence", "unexpected exception %r" % (e,), case, key="div:exception")
        return
    for r, c in zip(res, ("h*", "3h*")):
        rel_budget = r["bound"] / np.maximum(r["grad"], 1e-300)
        for i in range(x.shape[1]):
            sens = bool(rel_budget[i] < 1e-3)
            ctx.count(("div", cfg["cls"], cfg["dim"], cfg["mode_no"], c) if sens else None,
                      hist=dict(stage="divergence-probe", cls=cfg["cls"], dim=cfg["dim"], mode_no=cfg["mode_no"], step=c))
            if stats is not None:
                stats["insensitive"] = stats.get("insensitive", 0) + (0 if sens else 1)
                if r["grad"][i] > 0:
                    stats["worst"] = max(stats.get("worst", 0.0), abs(r["div"][i]) / r["grad"][i])
        bad = np.abs(r["div"]) > r["bound"]
        if bad.any():
            i = int(np.argmax(np.abs(r["div"]) / r["bound"]))
            ctx.violation("probe: divergence (central differences, step %s = %.3g)" % (c, r["h"]),
                          "divergence of the generated vector field exceeds the truncation+rounding budget of the estimate: "
                          "|div| = %.3e, budget %.3e, |grad u| = %.3e at point %d" % (abs(r["div"][i]), r["bound"][i], r["grad"][i], i),
                          dict(case, point=i, div=float(r["div"][i]), budget=float(r["bound"][i]), grad=float(r["grad"][i]), h=r["h"]),
                          key="div:%s:dim%d" % (cfg["cls"], cfg["dim"]))
            return
    ctx.sample(dict(stage="divergence-probe", cfg=cfg, step=res[0]["h"], max_div=float(np.abs(res[0]["div"]).max()),
                    min_grad=float(res[0]["grad"].min()), budget=float(res[0]["bound"].max())))


def ensemble_case(ctx, cfg, M, seeds, npts, x, history=False):
    """per-seed spatial averages of u_d and (u_d - mean_u e1_d)^2 over the points x; seeds are independent draws.
    The generator is called directly with add_nugget=False and add_nugget=True (nugget 0: must agree bitwise).
    history=True: before every draw the public attribute mean_u holds ANOTHER value (-2.7 mean_u) while the modes are
    re-seeded and is re-assigned afterwards: the field must follow the current mean_u.
    returns dict variant -> (mean stats, var stats) arrays (M, dim), model.var, model.var_raw, #bitwise disagreements"""
    from gstools.field.generator import IncomprRandMeth
    model = make_model(cfg["cls"], cfg["dim"], cfg["var"], cfg["len_scale"], 0.0, cfg.get("opt"))
    g = IncomprRandMeth(model, mean_velocity=cfg["mean_u"], mode_no=cfg["mode_no"], seed=int(seeds[0]))
    mu = np.zeros(cfg["dim"]); mu[0] = cfg["mean_u"]
    out = {v: (np.empty((M, cfg["dim"])), np.empty((M, cfg["dim"]))) for v in ("add_nugget=False", "add_nugget=True")}
    differ = None
    for s in range(M):
        if history is True:
            g.mean_u = -2.7 * cfg["mean_u"]
        g.reset_seed(int(seeds[s]))
        if history is True:
            g.mean_u = cfg["mean_u"]
        us = {}
        ge = copy.deepcopy(g) if history == "deepcopy" else g
        for v, flag in (("add_nugget=False", False), ("add_nugget=True", True)):
            u = np.asarray(ge(x, add_nugget=flag))
            us[v] = u
            out[v][0][s] = u.mean(1)
            out[v][1][s] = ((u - mu[:, None]) ** 2).mean(1)
        if differ is None and not C.bit_equal(us["add_nugget=False"], us["add_nugget=True"]):
            differ = int(seeds[s])
    return out, float(model.var), float(model.var_raw), differ


def run_ensemble(ctx, cfg, M, seeds, x, history=False):
    case = dict(cfg, M=M, seeds_first=[int(s) for s in seeds[:5]], seed_gen="C.Rng(VERIF_SEED,'C16')", x=hexarr(x),
                history=("mean_u = -2.7 * mean_u; reset_seed(s); mean_u = mean_u" if history is True else
                         "reset_seed(s); evaluate copy.deepcopy(generator)" if history == "deepcopy" else "reset_seed(s)"))
    dim = cfg["dim"]
    try:
        with warnings.catch_warnings():
            warnings.simplefilter("ignore")
            out, model_var, model_var_raw, differ = ensemble_case(ctx, cfg, M, seeds, x.shape[1], x, history)
    except Exception as e:
        ctx.violation("probe: ensemble", "unexpected exception %r" % (e,), case, key="ens:exception")
        return
    mu = np.zeros(dim); mu[0] = cfg["mean_u"]
    # the variance the field has to carry is the model's variance model.var (= var_raw * var_factor(), not var_raw)
    target = cfg["mean_u"] ** 2 * model_var * np.array(SPLIT[dim])
    case = dict(case, model_var=model_var, model_var_raw=model_var_raw)
    ctx.count(("ensemble", cfg["cls"], dim, cfg["mode_no"], history), n=M,
              hist=dict(stage="ensemble-probe", cls=cfg["cls"], dim=dim, mode_no=cfg["mode_no"], history=history,
                        var_factor=("%.2g" % (model_var / model_var_raw)) if cfg["cls"] in TPL else "1"))
    worst = 0.0
    for variant, (ms, vs) in out.items():
        m_est, m_se = ms.mean(0), ms.std(0, ddof=1) / math.sqrt(M)
        v_est, v_se = vs.mean(0), vs.std(0, ddof=1) / math.sqrt(M)
        worst = max(worst, float((6 * v_se / np.maximum(target, 1e-300)).max())) if cfg["mean_u"] != 0 else worst
        if variant == "add_nugget=True":
            ctx.sample(dict(stage="ensemble-probe", cfg=cfg, seeds=M, history=history, mean=[float(v) for v in m_est],
                            mean_se=[float(v) for v in m_se], var_over_target=[float(v) for v in v_est / np.maximum(target, 1e-300)],
                            var_se_over_target=[float(v) for v in v_se / np.maximum(target, 1e-300)]), limit=9)
        for d in range(dim):
            if abs(m_est[d] - mu[d]) > 6 * m_se[d] + 1e-12 * abs(cfg["mean_u"]):
                ctx.violation("probe: ensemble mean (generator call, %s)" % variant,
                              "component %d: mean over %d seeds %.5g, expected mean_u e1 = %.5g, standard error %.3g (%.1f SE)"
                              % (d, M, m_est[d], mu[d], m_se[d], abs(m_est[d] - mu[d]) / max(m_se[d], 1e-300)),
                              dict(case, variant=variant, component=d, estimate=float(m_est[d]), expected=float(mu[d]), se=float(m_se[d])),
                              key="ens-mean:%s:dim%d" % (cfg["cls"], dim))
            if abs(v_est[d] - target[d]) > 6 * v_se[d]:
                ctx.violation("probe: component variance split (generator call, %s)" % variant,
                              "component %d: variance over %d seeds %.5g, expected mean_u^2 * model.var * %.4f = %.5g, standard error %.3g (%.1f SE)"
                              % (d, M, v_est[d], SPLIT[dim][d], target[d], v_se[d], abs(v_est[d] - target[d]) / max(v_se[d], 1e-300)),
                              dict(case, variant=variant, component=d, estimate=float(v_est[d]), expected=float(target[d]), se=float(v_se[d])),
                              key="ens-var:%s:dim%d" % (cfg["cls"], dim))
    if differ is not None:
        ctx.violation("probe: generator call add_nugget=False vs add_nugget=True (nugget 0)",
                      "with a zero nugget the two calls must return the same field; they differ for seed %d" % differ,
                      dict(case, seed_of_difference=differ), key="ens:add_nugget:%s:dim%d" % (cfg["cls"], dim))
    return worst


def probe_ensemble(ctx, rng):
    thorough = ctx.tier == "thorough"
    if thorough:
        plan = [(n, d, 150 if n != "TPLStable" else 100, (False, True, "deepcopy")[k % 3]) for k, (n, d) in
                enumerate((n, d) for n in CLASSES for d in (2, 3))]
        plan[0] = ("Gaussian", 2, 3000, False)
        plan[2] = ("Exponential", 2, 3000, True)
    else:
        # Gaussian / Exponential always; the other classes rotate with VERIF_SEED (every class is reached over the seeds,
        # every class on every run in the thorough tier); one truncated power law (var_factor != 1) on every run;
        # one configuration with a re-assignment history of the public mean_u
        others = [c for c in CLASSES if c not in ("Gaussian", "Exponential") + TPL]
        pick = others[int(rng.integers(len(others)))]
        tpl = TPL[int(rng.integers(len(TPL)))]
        plan = [("Gaussian", 2, 800, False), ("Exponential", 2, 800, True), ("Gaussian", 3, 100, "deepcopy"),
                (pick, int(rng.choice([2, 3])), 120, bool(rng.integers(2))),
                (tpl, int(rng.choice([2, 3])), 50 if tpl == "TPLStable" else 120, bool(rng.integers(2)))]
    worst = 0.0
    for name, dim, M, history in plan:
        cfg = rand_cfg(rng, name, dim, mode_choices=(16, 64, 100))
        seeds = rng.choice(2 ** 31 - 1, size=M, replace=False)
        x = np.ascontiguousarray(rng.uniform(-50, 50, size=(dim, 24)) * cfg["len_scale"])
        w = run_ensemble(ctx, cfg, M, seeds, x, history)
        worst = max(worst, w or 0.0)
    ctx.notes.append("ensemble probe: %d configurations (direct generator calls with add_nugget False and True; %d with a mean_u "
                     "re-assignment history); the 6-standard-error window of the variance fractions was at most %.0f%% of the "
                     "expected value (a wrong projector such as 1/2:1/2 or 3/8:3/8 in 2-D is off by >= 33%%)"
                     % (len(plan), sum(1 for p_ in plan if p_[3] is True), 100 * worst))


STRUCT_SHAPES = {2: [(2, 1), (1, 2), (1, 1), (3, 1), (2, 2), (3, 2)],
                 3: [(3, 1, 1), (1, 3, 1), (1, 1, 3), (1, 1, 1), (2, 1, 1), (2, 2, 1), (2, 3, 2)]}


def probe_pointwise(ctx, rng):
    """the field is a function of the point: the same locations evaluated inside a larger set, alone, in groups of
    dim-1, dim, dim+1 points, through the generator directly and on structured meshes (incl. meshes with exactly dim
    nodes) must give bitwise the same vectors, component d in row d."""
    ncfg = 4 if ctx.tier == "thorough" else 1
    for dim in (2, 3):
        for _ in range(ncfg):
            name = CLASSES[int(rng.integers(len(CLASSES)))]
            cfg = rand_cfg(rng, name, dim, mode_choices=(2, 7, 64))
            P = 2 * dim + 3
            X = np.ascontiguousarray(rng.uniform(-5, 5, size=(dim, P)) * cfg["len_scale"])
            case = dict(cfg, X=hexarr(X))
            try:
                with warnings.catch_warnings():
                    warnings.simplefilter("ignore")
                    srf = make_srf(cfg)
                    ref = np.asarray(srf(tuple(X), mesh_type="unstructured")).copy()      # P != dim points
                    if ref.shape != (dim, P):
                        ctx.violation("probe: pointwise", "SRF output shape %r for %d points in %d-D" % (ref.shape, P, dim), case,
                                      key="pointwise:shape")
                        continue
                    for g in sorted({1, max(1, dim - 1), dim, dim + 1}):
                        for start in range(0, P - g + 1, g):
                            idx = list(range(start, start + g))
                            sub = np.ascontiguousarray(X[:, idx])
                            outs = [("SRF unstructured", np.asarray(srf(tuple(sub), mesh_type="unstructured"))),
                                    ("generator call", np.asarray(srf.generator(sub, add_nugget=False))),
                                    ("generator call with (zero) nugget", np.asarray(srf.generator(sub)))]
                            for what, o in outs:
                                ctx.count(("pointwise", what, dim, g), hist=dict(stage="pointwise-probe", dim=dim, n_points=g, via=what))
                                if o.shape != (dim, g) or not C.bit_equal(o, ref[:, idx]):
                                    ctx.violation("probe: pointwise evaluation (%s, %d points in %d-D)" % (what, g, dim),
                                                  "the vectors returned for points %s evaluated as a group of %d differ from the vectors "
                                                  "of the same points evaluated inside a set of %d points (row d = component d)" % (idx, g, P),
                                                  dict(case, group=idx, via=what, got=hexarr(o), expected=hexarr(ref[:, idx])),
                                                  key="pointwise:%s:n=%s" % (what, "dim" if g == dim else g))
                    for shp in STRUCT_SHAPES[dim] if ctx.tier == "thorough" else STRUCT_SHAPES[dim][:5]:
                        axes = [np.sort(rng.uniform(-5, 5, size=k) * cfg["len_scale"]) for k in shp]
                        fs = np.asarray(srf.structured(axes))
                        grid = np.meshgrid(*axes, indexing="ij")
                        pts = np.array([g_.ravel() for g_ in grid])
                        extra = np.ascontiguousarray(np.hstack([pts, X[:, :dim + 2]]))   # never exactly dim points
                        fu = np.asarray(srf(tuple(extra), mesh_type="unstructured"))[:, :pts.shape[1]]
                        ctx.count(("structured", dim, shp), hist=dict(stage="pointwise-probe", dim=dim, n_points=pts.shape[1], via="structured"))
                        if fs.shape != (dim,) + tuple(shp) or not C.bit_equal(fs.reshape(dim, -1), fu):
                            ctx.violation("probe: structured mesh %r vs pointwise evaluation (%d-D)" % (shp, dim),
                                          "the vector field on a structured mesh with %d nodes differs from its evaluation at the nodes"
                                          % pts.shape[1], dict(case, axes=[hexarr(a) for a in axes], got=hexarr(fs)),
                                          key="pointwise:structured:n=%s" % ("dim" if pts.shape[1] == dim else pts.shape[1]))
            except Exception as e:
                ctx.violation("probe: pointwise", "unexpected exception %r" % (e,), case, key="pointwise:exception")


def apply_history(rng, cfg):
    """a second configuration of the same class reached by re-assigning public parameters (changes well above the
    isclose tolerance of the model comparison); returns (cfgB, ordered list of re-assigned names)"""
    names = [n for n in ("mean_u", "var", "len_scale", "mode_no", "seed", "angles") if rng.random() < 0.6] or ["mean_u"]
    B = dict(cfg)
    if "mean_u" in names:
        B["mean_u"] = float(cfg["mean_u"] * rng.choice([-3.1, -0.4, 0.3, 2.3, 0.0, -0.0]))
    if "var" in names:
        B["var"] = float(cfg["var"] * rng.choice([0.3, 2.5]))
    if "len_scale" in names:
        B["len_scale"] = float(cfg["len_scale"] * rng.choice([0.4, 1.9]))
    if "mode_no" in names:
        B["mode_no"] = int(cfg["mode_no"] + rng.choice([1, 9, 30]))
    if "seed" in names:
        B["seed"] = int(rng.integers(0, 2 ** 31 - 1))
    if "angles" in names:
        k = 1 if cfg["dim"] == 2 else 3
        B["opt"] = dict(cfg["opt"], angles=[float(a) for a in rng.uniform(-3.0, 3.0, size=k)])
    if cfg["cls"] in TPL and "len_scale" in names and "var" not in names:
        names.append("var")          # var = var_raw * var_factor(len_scale): len_scale alone would change var; re-assign var too
    first = [n for n in ("len_scale", "var") if n in names]          # var last of the two: var = var_raw * var_factor(len_scale)
    rest = [n for n in names if n not in first]
    rng.shuffle(rest)
    return B, first + rest


def probe_history(ctx, rng):
    """re-assigning mean_u / var / len_scale / mode_no / seed on an EXISTING SRF or generator and evaluating again must give
    the field of a freshly built object with the current parameters (deterministic: bitwise), in particular mean
    mean_u_current e1 and variances mean_u_current^2 var_current q_d"""
    from gstools.field.generator import IncomprRandMeth
    ncfg = 24 if ctx.tier == "thorough" else 8
    fixed = ["Gaussian", "Exponential", "TPLExponential"]
    followups = []
    for c in range(ncfg):
        name = fixed[c] if c < len(fixed) else CLASSES[int(rng.integers(len(CLASSES)))]
        dim = int(rng.choice([2, 3]))
        A = rand_cfg(rng, name, dim, mode_choices=(2, 7, 33, 64))
        B, order = apply_history(rng, A)
        npts = int(rng.choice([1, dim, 5]))
        pos = np.ascontiguousarray(rng.uniform(-10, 10, size=(dim, npts)) * A["len_scale"])
        case = dict(start=A, reassigned=order, current=B, pos=hexarr(pos))
        try:
            with warnings.catch_warnings():
                warnings.simplefilter("ignore")
                # --- through SRF
                srf = make_srf(A)
                srf(tuple(pos), mesh_type="unstructured")
                call_seed = np.nan
                for n in order:
                    if n == "mean_u":
                        srf.generator.mean_u = B["mean_u"]
                    elif n == "var":
                        srf.model.var = B["var"]
                    elif n == "len_scale":
                        srf.model.len_scale = B["len_scale"]
                    elif n == "mode_no":
                        srf.generator.mode_no = B["mode_no"]
                    elif n == "seed":
                        call_seed = B["seed"]
                    elif n == "angles":
                        srf.model.angles = B["opt"]["angles"]
                got = np.asarray(srf(tuple(pos), seed=call_seed, mesh_type="unstructured"))
                fresh = np.asarray(make_srf(B)(tuple(pos), mesh_type="unstructured"))
                # --- generator alone
                mA = make_model(name, dim, A["var"], A["len_scale"], 0.0, A["opt"])
                mB = make_model(name, dim, B["var"], B["len_scale"], 0.0, B["opt"])
                g = IncomprRandMeth(mA, mean_velocity=A["mean_u"], mode_no=A["mode_no"], seed=A["seed"])
                g(pos)
                for n in order:
                    if n == "mean_u":
                        g.mean_u = B["mean_u"]
                    elif n in ("var", "len_scale", "angles"):
                        g.update(mB)
                    elif n == "mode_no":
                        g.mode_no = B["mode_no"]
                    elif n == "seed":
                        g.seed = B["seed"]
                got_g = np.asarray(g(pos, add_nugget=False))
                fresh_g = np.asarray(IncomprRandMeth(mB, mean_velocity=B["mean_u"], mode_no=B["mode_no"], seed=B["seed"])(pos, add_nugget=False))
        except Exception as e:
            ctx.violation("probe: history", "unexpected exception %r" % (e,), case, key="history:exception")
            continue
        ctx.count(("history", name, dim, tuple(sorted(order))), hist=dict(stage="history-probe", cls=name, dim=dim,
                  reassigned="+".join(sorted(order))))
        ctx.sample(dict(stage="history-probe", start=A, reassigned=order, current=B), limit=12)
        for what, a, b in (("SRF", got, fresh), ("generator", got_g, fresh_g)):
            if a.shape != b.shape or not C.bit_equal(a, b):
                ctx.violation("probe: %s after re-assigning %s vs freshly built object" % (what, ", ".join(order)),
                              "the field evaluated after re-assigning public parameters of an existing %s is not the field of the "
                              "current parameters (mean_u_current e1 + mean_u_current sqrt(var_current/N) * kernel sum): max |diff| %.3g"
                              % (what, float(np.max(np.abs(a - b))) if a.shape == b.shape else float("nan")),
                              dict(case, via=what, got=hexarr(a), fresh=hexarr(b)), key="history:%s:%s" % (what, "+".join(sorted(order))))
                if "mean_u" in order:
                    followups.append(B)
                break
    for cfg in followups[:1]:
        # statistical confirmation on that configuration: seeds drawn while mean_u holds another value
        cfg2 = dict(cfg, mode_no=64)
        M = 100 if cfg["cls"] == "TPLStable" else 250
        xs = np.ascontiguousarray(rng.uniform(-50, 50, size=(cfg["dim"], 24)) * cfg["len_scale"])
        run_ensemble(ctx, cfg2, M, rng.choice(2 ** 31 - 1, size=M, replace=False), xs, history=True)


def probe_sphere(ctx, rng):
    """RNG.sample_sphere is the parameterisation the variance-split theorems integrate over:
       2-D (cos t, sin t), t = uniform(0, 2 pi);  3-D (sqrt(1-m^2) cos t, sqrt(1-m^2) sin t, m), m = uniform(-1, 1).
       The generator's random stream is replayed and the formulas compared bitwise."""
    from gstools.random import RNG
    for dim in (2, 3):
        for _ in range(3):
            seed = int(rng.integers(0, 2 ** 31 - 1)); n = int(rng.choice([1, 7, 200]))
            try:
                r = RNG(seed)
                mst = r._master_rng._master_rng_fct
                st = mst.get_state()
                c = np.asarray(r.sample_sphere(dim, n))
                mst.set_state(st)
                t = r.random.uniform(0.0, 2 * np.pi, n)
                if dim == 2:
                    ref = np.array([np.cos(t), np.sin(t)])
                else:
                    m = r.random.uniform(-1.0, 1.0, n)
                    ref = np.array([np.sqrt(1.0 - m ** 2) * np.cos(t), np.sqrt(1.0 - m ** 2) * np.sin(t), m])
            except Exception as e:
                ctx.violation("probe: sample_sphere", "unexpected exception %r" % (e,), dict(dim=dim, seed=seed, n=n),
                              key="sphere:exception")
                continue
            ctx.count(("sphere", dim, n), hist=dict(stage="sphere-parameterisation", dim=dim))
            if c.shape != ref.shape or not C.bit_equal(c, ref):
                ctx.violation("correspondence: RNG.sample_sphere vs the parameterisation of C16_variance_split",
                              "directions are no longer (cos t, sin t) / (sqrt(1-m^2) cos t, sqrt(1-m^2) sin t, m) with uniform t, m",
                              dict(dim=dim, seed=seed, n=n), key="sphere:param", no_input=True)


# ----------------------------------------------------------------------------------------------- entry points, sizes, mean/trend

def mesh_of_points(pos, cols, blocks):
    """meshio mesh whose points carry the coordinates pos (dim, n) in the columns `cols` of an (n, len(all cols)) array
    (other columns filled with unrelated numbers) and one 'vertex' cell per point, split into `blocks` cell blocks"""
    import meshio
    dim, n = pos.shape
    width = max(max(cols) + 1, dim)
    pts = np.full((n, width), 123.25)
    for d, c in enumerate(cols):
        pts[:, c] = pos[d]
    edges = np.linspace(0, n, blocks + 1).astype(int)
    cells = [("vertex", np.arange(a, b).reshape(-1, 1)) for a, b in zip(edges[:-1], edges[1:])]
    return meshio.Mesh(points=pts, cells=cells)


def entry_points(dim, rng):
    """adapters: label -> factory(srf) -> (pos (dim,n) -> field (dim,n)) through every public way of evaluating at given points"""
    names = "xyz"
    perms = [list(range(dim)), list(range(dim))[::-1]] + ([[0, 2]] if dim == 2 else [[1, 2, 0]])
    out = [("SRF.unstructured", lambda srf: (lambda pos: srf.unstructured(tuple(pos)))),
           ("SRF.__call__ (list of arrays)", lambda srf: (lambda pos: srf([np.array(p) for p in pos]))),
           ("SRF.__call__ (2-d array)", lambda srf: (lambda pos: srf(np.array(pos)))),
           ("SRF.__call__ (Fortran-ordered array)", lambda srf: (lambda pos: srf(np.asfortranarray(pos)))),
           ("SRF.__call__ (strided view)", lambda srf: (lambda pos: srf(np.repeat(np.asarray(pos), 2, axis=1)[:, ::2]))),
           ("SRF.__call__ (transposed (n, dim) array)", lambda srf: (lambda pos: srf(np.ascontiguousarray(np.asarray(pos).T).T))),
           ("generator call (Fortran-ordered array)", lambda srf: (lambda pos: srf.generator(np.asfortranarray(pos), add_nugget=False))),
           ("generator call (strided view)", lambda srf: (lambda pos: srf.generator(np.repeat(np.asarray(pos), 3, axis=1)[:, 1::3], add_nugget=False)))]
    for cols in perms:
        for as_string in (True, False):
            direction = "".join(names[c] for c in cols) if as_string else list(cols)
            for where in ("points", "centroids"):
                blocks = int(rng.integers(1, 4))
                nm = "vel" if as_string else "field"

                def fac(srf, cols=cols, direction=direction, where=where, blocks=blocks, nm=nm):
                    def ev(pos):
                        mesh = mesh_of_points(np.asarray(pos), cols, blocks if where == "centroids" else 1)
                        ret = np.asarray(srf.mesh(mesh, points=where, direction=direction, name=nm))
                        if where == "points":
                            stored = np.asarray(mesh.point_data[nm])
                        else:
                            stored = np.vstack([np.asarray(b) for b in mesh.cell_data[nm]])
                        if stored.shape != (np.shape(pos)[1], srf.dim):
                            raise AssertionError("data stored in the mesh has shape %r for %d points in %d-D" % (stored.shape, np.shape(pos)[1], srf.dim))
                        if not C.bit_equal(ret, stored.T):
                            raise AssertionError("data stored in the mesh differs from the returned field")
                        return stored.T
                    return ev
                out.append(("SRF.mesh(points=%r, direction=%r, %d cell block(s))" % (where, direction, blocks), fac))
    return out


def probe_entry_points(ctx, rng):
    """every public way of evaluating the vector field at given points — unstructured(), call with lists / arrays, mesh() on meshio
    meshes (points / centroids, several cell blocks, direction strings and lists, custom names) — must return and STORE, point by
    point, the vectors of the pointwise field (bitwise); real cell types (triangles, quads, tetrahedra) give centroid data per block;
    the divergence probe is run on the data stored in a mesh."""
    import meshio
    for dim in (2, 3):
        name = CLASSES[int(rng.integers(len(CLASSES)))]
        cfg = rand_cfg(rng, name, dim, mode_choices=(2, 7, 64))
        n = int(rng.choice([1, dim, 7, 12]))
        pos = np.ascontiguousarray(rng.uniform(-5, 5, size=(dim, n)) * cfg["len_scale"])
        case = dict(cfg, pos=hexarr(pos))
        try:
            with warnings.catch_warnings():
                warnings.simplefilter("ignore")
                ref = np.asarray(make_srf(cfg)(tuple(pos), mesh_type="unstructured"))
        except Exception as e:
            ctx.violation("probe: entry points", "unexpected exception %r" % (e,), case, key="entry:exception")
            continue
        eps_ = entry_points(dim, rng)
        for label, fac in eps_:
            ctx.count(("entry", label.split("(")[0], dim, n), hist=dict(stage="entry-points", via=label.split(",")[0], dim=dim, n_points=n))
            try:
                with warnings.catch_warnings():
                    warnings.simplefilter("ignore")
                    got = np.asarray(fac(make_srf(cfg))(pos))
                msg = None if (got.shape == ref.shape and C.bit_equal(got, ref)) else "field differs from the pointwise field"
            except AssertionError as e:
                msg, got = str(e), np.zeros(0)
            except Exception as e:
                ctx.violation("probe: entry point %s" % label, "unexpected exception %r" % (e,), case, key="entry:exception:%s" % label.split("(")[0])
                continue
            if msg:
                ctx.violation("probe: entry point %s (%d points in %d-D)" % (label, n, dim),
                              "%s: the vector stored / returned for point i must be the field at point i (component d in column / row d)" % msg,
                              dict(case, via=label, got=hexarr(got), expected=hexarr(ref)), key="entry:%s" % label.split(",")[0])
        # real cells: centroids per block
        try:
            with warnings.catch_warnings():
                warnings.simplefilter("ignore")
                npts = 9
                pts = rng.uniform(-5, 5, size=(npts, dim)) * cfg["len_scale"]
                kinds = [("triangle", 3), ("quad", 4)] if dim == 2 else [("tetra", 4), ("hexahedron", 8), ("triangle", 3)]
                cells = [(k, rng.integers(0, npts, size=(int(rng.integers(1, 5)), m))) for k, m in kinds]
                mesh = meshio.Mesh(points=pts, cells=cells)
                srf = make_srf(cfg)
                srf.mesh(mesh, points="centroids", name="u")
                cen = np.vstack([np.mean(pts[c], axis=1) for _, c in cells])
                refc = np.asarray(make_srf(cfg)(tuple(cen.T), mesh_type="unstructured"))
                stored = mesh.cell_data["u"]
                ok = len(stored) == len(cells) and all(np.shape(b) == (len(c), dim) for b, (_, c) in zip(stored, cells)) \
                    and C.bit_equal(np.vstack(stored).T, refc)
                srf.mesh(mesh, points="points", name="u")
                refp = np.asarray(make_srf(cfg)(tuple(pts.T), mesh_type="unstructured"))
                okp = np.shape(mesh.point_data["u"]) == (npts, dim) and C.bit_equal(np.asarray(mesh.point_data["u"]).T, refp)
        except Exception as e:
            ctx.violation("probe: entry points (cells)", "unexpected exception %r" % (e,), case, key="entry:exception:cells")
            continue
        ctx.count(("entry", "cells", dim), hist=dict(stage="entry-points", via="SRF.mesh real cells", dim=dim))
        if not ok or not okp:
            ctx.violation("probe: SRF.mesh on a mesh with %s" % [k for k, _ in kinds],
                          "%s data stored in the mesh are not the pointwise field at the %s" % (
                              "cell" if not ok else "point", "cell centroids (per block)" if not ok else "mesh points"),
                          dict(case, points=hexarr(pts), cells=[(k, c.tolist()) for k, c in cells]),
                          key="entry:mesh-cells:%s" % ("centroids" if not ok else "points"))
        # divergence of the data stored in a mesh
        lab, fac = [e for e in eps_ if e[0].startswith("SRF.mesh(points='points'")][int(rng.integers(2))]
        x = np.ascontiguousarray(rng.uniform(-10, 10, size=(dim, 4)) * cfg["len_scale"])
        run_divergence(ctx, dict(cfg, mode_no=max(cfg["mode_no"], 7)), x, via=(lab, fac))


def size_thresholds():
    """numeric constants >= 1e5 in the generator / SRF sources under test (chunk or buffer thresholds), plus the generic 1e7"""
    import re
    found = {1e7}
    for rel in ("field/generator.py", "field/srf.py", "field/base.py", "field/tools.py"):
        try:
            src = open(os.path.join(C.REPO, "src/gstools", rel)).read()
        except OSError:
            continue
        for m in re.finditer(r"(?<![\w.])(\d[\d_]*(?:\.\d*)?(?:[eE][+-]?\d+)?|\d+\s*\*\*\s*\d+)(?![\w.])", src):
            try:
                v = float(eval(m.group(1).replace("_", ""), {"__builtins__": {}}))
            except Exception:
                continue
            if 1e5 <= v <= 2e8:
                found.add(v)
    return sorted(found)


def probe_sizes(ctx, rng, drv):
    """'at every point' for big batches: n * mode_no just below / at / above every size threshold found in the sources (and 1e7),
    with n not a multiple of small numbers; the batch call is compared bitwise with the same points evaluated in blocks of 997,
    and with the extracted model at a sample of indices that includes the first and the last points"""
    from gstools.field.generator import IncomprRandMeth
    import gstools as gs
    thorough = ctx.tier == "thorough"
    cases = []
    for c in size_thresholds():
        for N in ((1000, 5000, 333) if thorough else (1000, 5000)):
            q = int(c // N)
            ns = [q - 1, q, q + 1, int(1.02 * q) | 1] + ([int(2.3 * q) + 7] if N == 1000 else [])
            if not thorough and N != 1000:
                ns = [int(0.8 * q) + 1 | 1, q + 1]
            for n in ns:
                if 2 <= n and n * N <= 6e7:
                    cases.append((c, N, n))
    done = 0
    for c, N, n in cases:
        dim = 2 if (done % 3 or not thorough) else 3
        case = dict(threshold=c, mode_no=N, n_points=n, dim=dim)
        try:
            with warnings.catch_warnings():
                warnings.simplefilter("ignore")
                model = gs.Gaussian(dim=dim, var=1.7, len_scale=2.0)
                seed = int(rng.integers(0, 2 ** 31 - 1)); case["seed"] = seed
                g = IncomprRandMeth(model, mean_velocity=0.8, mode_no=N, seed=seed)
                pos = np.ascontiguousarray(rng.uniform(-20, 20, size=(dim, n)))
                via_srf = (done % 4 == 3)
                if via_srf:
                    srf = gs.SRF(model, generator="VectorField", mean_velocity=0.8, mode_no=N, seed=seed)
                    batch = np.asarray(srf(tuple(pos), mesh_type="unstructured"))
                else:
                    batch = np.asarray(g(pos, add_nugget=False))
                blocks = np.hstack([np.asarray(g(np.ascontiguousarray(pos[:, i:i + 997]), add_nugget=False)) for i in range(0, n, 997)])
                idx = sorted(set([0, 1, n // 2, n - 3, n - 2, n - 1]) & set(range(n)))
                ks, z1, z2 = (np.ascontiguousarray(np.asarray(a, dtype=float)) for a in (g._cov_sample, g._z_1, g._z_2))
                sub = np.ascontiguousarray(pos[:, idx])
                mod = np.asarray(drv.call("generate", 0.8, float(model.var), ("z", N), ks, z1, z2, sub, np.zeros_like(sub))) if drv else None
        except Exception as e:
            ctx.violation("probe: sizes", "unexpected exception %r" % (e,), case, key="sizes:exception")
            continue
        done += 1
        ctx.count(("sizes", c, N, n), hist=dict(stage="size-classes", threshold="%g" % c, mode_no=N, side=("below" if n * N < c else "at" if n * N == c else "above")))
        bad = None
        if batch.shape != blocks.shape:
            bad = "batch shape %r" % (batch.shape,)
        elif not C.bit_equal(batch, blocks):
            w = np.nonzero((batch != blocks).any(0))[0]
            bad = "%d of %d points differ from their evaluation in small blocks, first index %d, last index %d; batch value at the last one %r" % (
                len(w), n, w[0], w[-1], batch[:, w[-1]].tolist())
        elif mod is not None:
            from gstools.field import summator as S
            sm = np.asarray(S.summate_incompr(ks, z1, z2, sub))
            if not (np.abs(batch[:, idx] - mod) <= wrapper_tol(0.8, 0.8 * math.sqrt(float(model.var) / N), sm, np.zeros_like(sm))).all():
                bad = "batch differs from the extracted model at indices %r" % (idx,)
        if bad:
            ctx.violation("probe: batch of %d points x %d modes (%s), threshold %g" % (n, N, "SRF" if via_srf else "generator", c),
                          "the field is not the pointwise field at every point of a big batch: " + bad,
                          dict(case, via="SRF" if via_srf else "generator"), key="sizes:n*mode_no~%g" % c)
    ctx.notes.append("size classes: thresholds %r, %d batches" % (size_thresholds(), done))


def probe_mean_trend(ctx, rng):
    """mean and trend of the vector SRF given as scalars, vectors (tuple / list / array / 0-d, 1-element), callables returning a
    scalar or a vector, alone and together, all mesh types: field(mean=a, trend=b) = (field() + a) + b componentwise (bitwise)"""
    import gstools as gs
    for dim in (2, 3):
        name = CLASSES[int(rng.integers(len(CLASSES)))]
        cfg = rand_cfg(rng, name, dim, mode_choices=(2, 7, 33))
        vec = [float(v) for v in rng.uniform(-3, 3, size=dim)]
        vec0 = [0.5] + [0.0] * (dim - 1)
        lin = lambda *p: np.array([0.3 * p[0] + 1.0] + [-0.2 * q for q in p[1:]])      # vector-valued callable
        specs = [("scalar", 1.25), ("numpy 0-d", np.float64(-0.5)), ("1-element list", [2.0]), ("tuple", tuple(vec)), ("list", list(vec)),
                 ("array", np.array(vec)), ("float32 array", np.array(vec0, dtype=np.float32)), ("int tuple", tuple([1] + [0] * (dim - 1))),
                 ("callable -> vector", lin)]     # (a scalar-valued callable is rejected with ValueError for vector fields)

        def expected(spec, grid):                    # value added to the field on the flat grid (dim, n)
            if callable(spec):
                v = np.asarray(spec(*grid), dtype=float)
                return v if v.ndim == 2 else np.broadcast_to(v, grid.shape)
            v = np.asarray(spec, dtype=np.double).ravel()
            if v.size == 1:
                return np.full(grid.shape, v[0])
            return np.repeat(v[:, None], grid.shape[1], axis=1)

        n = int(rng.choice([1, dim, 6]))
        pos = np.ascontiguousarray(rng.uniform(-5, 5, size=(dim, n)) * cfg["len_scale"])
        axes = [np.sort(rng.uniform(-5, 5, size=k) * cfg["len_scale"]) for k in ([2, 1, 3][:dim])]
        meshes = [("unstructured", tuple(pos), pos),
                  ("structured", axes, np.array([g_.ravel() for g_ in np.meshgrid(*axes, indexing="ij")]))]
        try:
            with warnings.catch_warnings():
                warnings.simplefilter("ignore")
                base = {mt: np.asarray(make_srf(cfg)(p, mesh_type=mt)) for mt, p, _ in meshes}
        except Exception as e:
            ctx.violation("probe: mean/trend", "unexpected exception %r" % (e,), dict(cfg), key="meantrend:exception")
            continue
        combos = [(a, None) for a in specs] + [(None, b) for b in specs]
        for _ in range(6):
            combos.append((specs[int(rng.integers(len(specs)))], specs[int(rng.integers(len(specs)))]))
        for ms, ts in combos:
            for mt, p, grid in meshes:
                label = "mean=%s, trend=%s, %s" % (ms[0] if ms else None, ts[0] if ts else None, mt)
                case = dict(cfg, mean=ms[0] if ms else None, trend=ts[0] if ts else None, mesh_type=mt,
                            mean_value=None if (ms is None or callable(ms[1])) else np.asarray(ms[1], dtype=float).ravel().tolist(),
                            trend_value=None if (ts is None or callable(ts[1])) else np.asarray(ts[1], dtype=float).ravel().tolist(),
                            grid=hexarr(grid))
                try:
                    with warnings.catch_warnings():
                        warnings.simplefilter("ignore")
                        m = make_model(cfg["cls"], dim, cfg["var"], cfg["len_scale"], 0.0, cfg.get("opt"))
                        srf = gs.SRF(m, generator="VectorField", mean_velocity=cfg["mean_u"], mode_no=cfg["mode_no"], seed=cfg["seed"],
                                     mean=ms[1] if ms else None, trend=ts[1] if ts else None)
                        got = np.asarray(srf(p, mesh_type=mt))
                except Exception as e:
                    ctx.violation("probe: mean/trend %s" % label, "unexpected exception %r" % (e,), case, key="meantrend:exception")
                    continue
                exp = base[mt].reshape(dim, -1)
                if ms:
                    exp = exp + expected(ms[1], grid)
                if ts:
                    exp = exp + expected(ts[1], grid)
                ctx.count(("meantrend", ms[0] if ms else None, ts[0] if ts else None, mt, dim),
                          hist=dict(stage="mean-trend", mean=ms[0] if ms else "-", trend=ts[0] if ts else "-", mesh_type=mt))
                if got.shape != base[mt].shape or not C.bit_equal(got.reshape(dim, -1), exp):
                    dev = np.abs(got.reshape(dim, -1) - exp).max(1) if got.shape == base[mt].shape else None
                    ctx.violation("probe: vector SRF with %s (%d-D)" % (label, dim),
                                  "field(mean, trend) must be (field() + mean) + trend componentwise; largest deviation per component %r"
                                  % (None if dev is None else dev.tolist()), dict(case, got=hexarr(got), expected=hexarr(exp)),
                                  key="meantrend:%s" % ("trend" if ts else "mean"))
                    break


def angle_patterns(dim, rng):
    """every zero / non-zero pattern of the rotation angles and every way of writing them"""
    a, b, c = (float(v) for v in rng.uniform(0.3, 2.8, size=3) * rng.choice([-1.0, 1.0], size=3))
    if dim == 2:
        return [0.0, a, [a], np.float64(b), np.array([c]), 1e-9, np.pi, 2 * np.pi, -0.0]
    pats = [[a * i, b * j, c * k] for i in (0, 1) for j in (0, 1) for k in (0, 1)]          # 2^3 patterns
    return pats + [a, [a], [a, b], [0.0, b], np.float64(c), np.array([a, 0.0, c]), (0.0, 0.0, 1e-9), [np.pi, 0.0, 0.0], [1e-9, b, 0.0]]


def corr_angle_patterns(ctx, rng):
    """an isotropic model is the same model for EVERY value and spelling of its rotation angles: SRF(generator='VectorField')
    must return bitwise the field of the model without angles (unstructured, dim points and structured)"""
    for dim in (2, 3):
        for name in ["Gaussian", CLASSES[int(rng.integers(len(CLASSES)))]]:
            cfg = rand_cfg(rng, name, dim, mode_choices=(2, 7, 33))
            opt0 = {k: v for k, v in cfg["opt"].items() if k != "angles"}
            pos = np.ascontiguousarray(rng.uniform(-5, 5, size=(dim, dim if name == "Gaussian" else 5)) * cfg["len_scale"])
            axes = [np.sort(rng.uniform(-5, 5, size=k) * cfg["len_scale"]) for k in ([2, 3, 1][:dim])]
            try:
                with warnings.catch_warnings():
                    warnings.simplefilter("ignore")
                    plain = np.asarray(make_srf(dict(cfg, opt=opt0))(tuple(pos), mesh_type="unstructured"))
                    plain_s = np.asarray(make_srf(dict(cfg, opt=opt0)).structured(axes))
            except Exception as e:
                ctx.violation("correspondence: angle patterns", "unexpected exception %r" % (e,), dict(cfg), key="frames:exception")
                continue
            for ang in angle_patterns(dim, rng):
                desc = "%s(%s)" % (type(ang).__name__, np.asarray(ang, dtype=float).ravel().tolist())
                case = dict(cfg, opt=opt0, angles=desc, pos=hexarr(pos))
                try:
                    with warnings.catch_warnings():
                        warnings.simplefilter("ignore")
                        srf = make_srf(dict(cfg, opt=dict(opt0, angles=ang)))
                        f = np.asarray(srf(tuple(pos), mesh_type="unstructured"))
                        fs = np.asarray(make_srf(dict(cfg, opt=dict(opt0, angles=ang))).structured(axes))
                except Exception as e:
                    ctx.violation("correspondence: angle patterns", "unexpected exception %r for angles %s" % (e, desc), case, key="frames:exception")
                    continue
                pattern = "".join("0" if v == 0 else "x" for v in np.atleast_1d(np.asarray(srf.model.angles, dtype=float)))
                ctx.count(("angles", name, dim, desc), hist=dict(stage="angle-patterns", dim=dim, pattern=pattern, spelling=type(ang).__name__))
                if not (C.bit_equal(f, plain) and C.bit_equal(fs, plain_s)):
                    ctx.violation("correspondence: isotropic model with angles %s (pattern %s) vs the same model without angles" % (desc, pattern),
                                  "SRF(generator='VectorField') of an isotropic model changes with its rotation angles: max |diff| %.3g"
                                  % float(max(np.max(np.abs(f - plain)), np.max(np.abs(fs - plain_s)))),
                                  dict(case, got=hexarr(f), plain=hexarr(plain)), key="frames:isotropic-angles:%s" % pattern, no_input=True)
                    x = np.ascontiguousarray(rng.uniform(-10, 10, size=(dim, 6)) * cfg["len_scale"])
                    run_divergence(ctx, dict(cfg, opt=dict(opt0, angles=np.asarray(ang, dtype=float).ravel().tolist()
                                                           if np.ndim(ang) else float(ang)), mode_no=max(cfg["mode_no"], 7)), x)


def probe_copies(ctx, rng, drv):
    """copy.copy / copy.deepcopy / pickle round trip (where pickling works on this tree) of the generator and of the SRF, keyword
    order of the SRF generator arguments, and interference by other objects created / evaluated in between: the object must give
    bitwise the field of the original and the field of the extracted model with the ORIGINAL parameters; evaluating or changing a
    deep copy must not change the original."""
    import pickle
    import gstools as gs
    from gstools.field.generator import IncomprRandMeth
    from gstools.field import summator as S
    followups = []
    ncfg = 6 if ctx.tier == "thorough" else 2
    for dim in (2, 3):
        for c in range(ncfg):
            name = CLASSES[int(rng.integers(len(CLASSES)))] if c else "Gaussian"
            cfg = rand_cfg(rng, name, dim, mode_choices=(2, 7, 33))
            n = [dim, 5, 1][c % 3]
            pos = np.ascontiguousarray(rng.uniform(-5, 5, size=(dim, n)) * cfg["len_scale"])
            case = dict(cfg, pos=hexarr(pos))
            try:
                with warnings.catch_warnings():
                    warnings.simplefilter("ignore")
                    model = make_model(name, dim, cfg["var"], cfg["len_scale"], 0.0, cfg["opt"])
                    kw = dict(mean_velocity=cfg["mean_u"], mode_no=cfg["mode_no"], seed=cfg["seed"])
                    g = IncomprRandMeth(model, **kw)
                    srf = gs.SRF(model, generator="VectorField", **kw)
                    ref_g = np.asarray(g(pos, add_nugget=False)).copy()
                    ref_s = np.asarray(srf(tuple(pos), mesh_type="unstructured")).copy()
                    ks, z1, z2 = (np.ascontiguousarray(np.asarray(a, dtype=float)) for a in (g._cov_sample, g._z_1, g._z_2))
                    var = float(model.var)
                    sm = np.asarray(S.summate_incompr(ks, z1, z2, pos))
                    tol = wrapper_tol(cfg["mean_u"], cfg["mean_u"] * math.sqrt(var / cfg["mode_no"]), sm, np.zeros_like(sm))
                    mod = np.asarray(drv.call("generate", cfg["mean_u"], var, ("z", cfg["mode_no"]), ks, z1, z2, pos, np.zeros_like(pos))) if drv else ref_g
            except Exception as e:
                ctx.violation("probe: copies", "unexpected exception %r" % (e,), case, key="copies:exception")
                continue
            objs = []
            for how, fn in (("copy.copy", copy.copy), ("copy.deepcopy", copy.deepcopy),
                            ("pickle round trip", lambda o: pickle.loads(pickle.dumps(o)))):
                for what, o in (("generator", g), ("SRF", srf)):
                    try:
                        with warnings.catch_warnings():
                            warnings.simplefilter("ignore")
                            objs.append((how, what, fn(o)))
                    except Exception as e:
                        if how == "pickle round trip":
                            ctx.count(None, hist=dict(stage="copies", how=how, what=what, result="not picklable (%s)" % type(e).__name__))
                            continue
                        ctx.violation("probe: %s of the %s" % (how, what), "unexpected exception %r" % (e,), case, key="copies:exception")
            # keyword order of the generator arguments forwarded by SRF
            keys = list(kw)
            for _ in range(2):
                rng.shuffle(keys)
                objs.append(("keyword order %s" % ",".join(keys), "SRF", gs.SRF(model, generator="VectorField", **{k: kw[k] for k in keys})))
            # interference: other objects created / evaluated in between
            with warnings.catch_warnings():
                warnings.simplefilter("ignore")
                other = gs.SRF(gs.Exponential(dim=dim, var=3.3, len_scale=0.7, angles=0.4), generator="VectorField", mean_velocity=-2.0, mode_no=5, seed=1)
                other(tuple(pos * 0.5), mesh_type="unstructured")
                IncomprRandMeth(gs.Gaussian(dim=dim), mean_velocity=9.0, mode_no=3, seed=2)(pos)
                gs.SRF(gs.Gaussian(dim=dim, len_scale=3.0), seed=3, mode_no=4)(tuple(pos))
            objs += [("after creating / evaluating other objects", "generator", g), ("after creating / evaluating other objects", "SRF", srf)]
            for how, what, o in objs:
                try:
                    with warnings.catch_warnings():
                        warnings.simplefilter("ignore")
                        got = np.asarray(o(pos, add_nugget=False) if what == "generator" else o(tuple(pos), mesh_type="unstructured"))
                        mean_u = (o if what == "generator" else o.generator).mean_u
                except Exception as e:
                    ctx.violation("probe: %s of the %s" % (how, what), "unexpected exception %r" % (e,), case, key="copies:exception")
                    continue
                ctx.count(("copies", how.split(" ")[0], what, dim, n), hist=dict(stage="copies", how=how.split(" ")[0], what=what, result="ok"))
                ref = ref_g if what == "generator" else ref_s
                if got.shape != ref.shape or not C.bit_equal(got, ref) or not (np.abs(got - mod) <= tol).all():
                    ctx.violation("probe: %s of the %s" % (how, what),
                                  "the %s obtained by %s does not give the field of the original / of the model with the original parameters "
                                  "(mean_velocity %r, public mean_u of the object %r): max |diff| %.3g" % (
                                      what, how, cfg["mean_u"], mean_u, float(np.max(np.abs(got - ref))) if got.shape == ref.shape else float("nan")),
                                  dict(case, how=how, what=what, got=hexarr(got), original=hexarr(ref)), key="copies:%s:%s" % (how.split(" ")[0], what))
                    if how.startswith("copy.deepcopy") and what == "generator":
                        followups.append(cfg)
            # a deep copy is independent: changing and evaluating it leaves the original alone
            for how, what, o in objs:
                if how == "copy.deepcopy":
                    try:
                        (o if what == "generator" else o.generator).mean_u = 17.0
                        (o(pos) if what == "generator" else o(tuple(pos * 2.0), mesh_type="unstructured"))
                    except Exception:
                        pass
            again_g = np.asarray(g(pos, add_nugget=False)); again_s = np.asarray(srf(tuple(pos), mesh_type="unstructured"))
            if not (C.bit_equal(again_g, ref_g) and C.bit_equal(again_s, ref_s)):
                ctx.violation("probe: original after changing / evaluating its deep copy",
                              "re-assigning mean_u on a deep copy and evaluating it changed the field of the original",
                              dict(case, got=hexarr(again_s), original=hexarr(ref_s)), key="copies:deepcopy:shared-state")
    for cfg in followups[:1]:
        cfg2 = dict(cfg, mode_no=64)
        M = 100 if cfg["cls"] == "TPLStable" else 250
        xs = np.ascontiguousarray(rng.uniform(-50, 50, size=(cfg["dim"], 24)) * cfg["len_scale"])
        run_ensemble(ctx, cfg2, M, rng.choice(2 ** 31 - 1, size=M, replace=False), xs, history="deepcopy")


def probe_upscaling(ctx, rng):
    """point_volumes (scalar / array / 0) x upscaling {"no_scaling", "coarse_graining"} x nugget {0, > 0}, through SRF.__call__ and
    SRF.mesh: the field is the field without point_volumes (same seed, same random stream) times sqrt(documented factor):
    no_scaling = 1 (identity, bitwise); coarse_graining = (l^2 / (l^2 + (V^(1/d)/2)^2))^(d/2) with l = len_scale (1e-12).
    Array-valued point_volumes are rejected (ValueError) for vector fields by GSTools: recorded, not a violation."""
    import gstools as gs
    import meshio
    for dim in (2, 3):
        for nug in (0.0, float(rng.uniform(0.2, 1.5))):
            name = "Gaussian" if rng.random() < 0.5 else CLASSES[int(rng.integers(len(CLASSES)))]
            cfg = dict(rand_cfg(rng, name, dim, mode_choices=(2, 7, 33)), nugget=nug)
            n = int(rng.choice([1, dim, 6]))
            pos = np.ascontiguousarray(rng.uniform(-5, 5, size=(dim, n)) * cfg["len_scale"])
            vols = [("scalar", float(rng.uniform(0.1, 4.0)) * cfg["len_scale"] ** dim), ("array", rng.uniform(0.1, 4.0, size=n) * cfg["len_scale"] ** dim),
                    ("numpy scalar", np.float64(0.7) * cfg["len_scale"] ** dim), ("zero", 0.0), ("array with zeros", np.zeros(n))]
            for ups in ("no_scaling", "coarse_graining"):
                for vname, pv in vols:
                    for via in ("call", "mesh"):
                        case = dict(cfg, upscaling=ups, point_volumes=vname, pv=np.asarray(pv, dtype=float).ravel().tolist(), via=via, pos=hexarr(pos))
                        try:
                            with warnings.catch_warnings():
                                warnings.simplefilter("ignore")
                                def build():
                                    m = make_model(name, dim, cfg["var"], cfg["len_scale"], nug, cfg["opt"])
                                    return gs.SRF(m, generator="VectorField", upscaling=ups, mean_velocity=cfg["mean_u"], mode_no=cfg["mode_no"], seed=cfg["seed"])
                                plain = np.asarray(build()(tuple(pos), mesh_type="unstructured"))
                                srf = build()
                                if via == "call":
                                    got = np.asarray(srf(tuple(pos), point_volumes=pv, mesh_type="unstructured"))
                                else:
                                    mesh = meshio.Mesh(points=np.ascontiguousarray(pos.T), cells=[("vertex", np.arange(n).reshape(-1, 1))])
                                    srf.mesh(mesh, points="points", point_volumes=pv)
                                    got = np.asarray(mesh.point_data["field"]).T
                                ell = float(srf.model.len_scale)
                        except Exception as e:
                            if isinstance(e, ValueError) and vname.startswith("array"):
                                ctx.count(None, hist=dict(stage="upscaling", upscaling=ups, point_volumes=vname + " (rejected: ValueError)"))
                                continue
                            ctx.violation("probe: upscaling", "unexpected exception %r" % (e,), case, key="upscaling:exception")
                            continue
                        pvv = np.broadcast_to(np.asarray(pv, dtype=float), (n,))
                        if ups == "no_scaling":
                            fac = np.ones(n)
                        else:
                            lam = pvv ** (1.0 / dim)
                            fac = (ell ** 2 / (ell ** 2 + (lam / 2.0) ** 2)) ** (dim / 2.0)
                        exp = plain * np.sqrt(fac)[None, :]
                        ctx.count(("upscaling", ups, vname, nug > 0, via, dim), hist=dict(stage="upscaling", upscaling=ups, point_volumes=vname, nugget=nug > 0, via=via))
                        ok = got.shape == exp.shape and (C.bit_equal(got, exp) if ups == "no_scaling" else
                                                         bool((np.abs(got - exp) <= 1e-12 * np.abs(exp) + 1e-300).all()))
                        if not ok:
                            ctx.violation("probe: SRF with upscaling=%r, point_volumes=%s, nugget %.3g via %s (%d-D)" % (ups, vname, nug, via, dim),
                                          "the vector field must be the field without point_volumes times sqrt(documented variance factor) "
                                          "(no_scaling: unchanged): largest |got/expected - 1| = %.3g; mean flow component got %r, expected %r" % (
                                              float(np.nanmax(np.abs(got / np.where(exp == 0, 1, exp) - 1))) if got.shape == exp.shape else float("nan"),
                                              got[0].tolist()[:3], exp[0].tolist()[:3]),
                                          dict(case, got=hexarr(got), expected=hexarr(exp)), key="upscaling:%s:nugget%s" % (ups, ">0" if nug > 0 else "=0"))
                            break


def model_state(m):
    """constructor arguments reproducing the present state of a model exactly (var_raw, not var: no division by var_factor)"""
    kw = dict(dim=m.dim, var_raw=float(m.var_raw), len_scale=float(m.len_scale), nugget=float(m.nugget), anis=[float(a) for a in m.anis],
              angles=[float(a) for a in m.angles], rescale=float(m.rescale))
    kw.update({k: float(getattr(m, k)) for k in m.opt_arg})
    return kw


def probe_single_changes(ctx, rng):
    """ONE model parameter changed in place on an existing SRF / generator — var, nugget (to 0 and to > 0), len_scale, anis, angles,
    rescale, every optional argument — then evaluated again: bitwise the field of a fresh object built from the present state
    (update re-seeds, so the nugget stream restarts as for a fresh object); after nugget -> 0 the divergence probe runs on the
    history object itself."""
    import gstools as gs
    from gstools.field.generator import IncomprRandMeth
    thorough = ctx.tier == "thorough"
    classes = list(CLASSES) if thorough else ["Gaussian", TPL[int(rng.integers(3))], "Matern", CLASSES[int(rng.integers(len(CLASSES)))]]
    for name in classes:
        dim = int(rng.choice([2, 3]))
        cfg = rand_cfg(rng, name, dim, mode_choices=(2, 7, 33))
        n = int(rng.choice([1, dim, 5]))
        pos = np.ascontiguousarray(rng.uniform(-5, 5, size=(dim, n)) * cfg["len_scale"])
        kw = dict(mean_velocity=cfg["mean_u"], mode_no=cfg["mode_no"], seed=cfg["seed"])
        for nug0 in (0.0, 0.6):
            with warnings.catch_warnings():
                warnings.simplefilter("ignore")
                m0 = make_model(name, dim, cfg["var"], cfg["len_scale"], nug0, cfg["opt"])
            params = ["var", "nugget", "len_scale", "anis", "angles", "rescale"] + list(m0.opt_arg)

            def change(m, p):
                if p == "nugget":
                    m.nugget = 0.0 if m.nugget > 0 else 0.45
                elif p == "anis":
                    m.anis = [0.5] * (dim - 1)
                elif p == "angles":
                    m.angles = [float(a) + 0.8 for a in m.angles]
                elif p in ("var", "len_scale", "rescale"):
                    setattr(m, p, float(getattr(m, p)) * 1.7)
                else:
                    cur = float(getattr(m, p))
                    for f in (1.3, 0.7, 0.5):
                        try:
                            setattr(m, p, cur * f if cur != 0 else 0.4 * float(m.len_scale) * f)
                            return
                        except ValueError:
                            setattr(m, p, cur)
                    raise ValueError("no admissible new value for %s" % p)

            for p in params:
                case = dict(cfg, nugget=nug0, changed=p, pos=hexarr(pos))
                try:
                    with warnings.catch_warnings():
                        warnings.simplefilter("ignore")
                        srf = gs.SRF(make_model(name, dim, cfg["var"], cfg["len_scale"], nug0, cfg["opt"]), generator="VectorField", **kw)
                        srf(tuple(pos), mesh_type="unstructured")
                        change(srf.model, p)
                        case["state"] = {k: (v if not isinstance(v, list) else list(v)) for k, v in model_state(srf.model).items()}
                        got = np.asarray(srf(tuple(pos), mesh_type="unstructured"))
                        fresh = np.asarray(gs.SRF(getattr(gs, name)(**model_state(srf.model)), generator="VectorField", **kw)(tuple(pos), mesh_type="unstructured"))
                        # generator alone: assign a model that differs in this one parameter
                        g = IncomprRandMeth(make_model(name, dim, cfg["var"], cfg["len_scale"], nug0, cfg["opt"]), **kw)
                        g(pos)
                        mB = getattr(gs, name)(**model_state(g.model)); change(mB, p)
                        g.model = mB
                        got_g = np.asarray(g(pos))
                        fresh_g = np.asarray(IncomprRandMeth(getattr(gs, name)(**model_state(mB)), **kw)(pos))
                except Exception as e:
                    ctx.violation("probe: single change of %s" % p, "unexpected exception %r" % (e,), case, key="single:exception")
                    continue
                ctx.count(("single", name, p, nug0 > 0), hist=dict(stage="single-parameter-history", cls=name, changed=p, nugget_before=nug0 > 0))
                for what, a, b in (("SRF (model changed in place)", got, fresh), ("generator (model assigned)", got_g, fresh_g)):
                    if a.shape != b.shape or not C.bit_equal(a, b):
                        ctx.violation("probe: %s after changing only %s (nugget before: %.2g) vs fresh object" % (what, p, nug0),
                                      "after changing the single model parameter %s the next field is not the field of the present parameters: "
                                      "max |diff| %.3g" % (p, float(np.max(np.abs(a - b))) if a.shape == b.shape else float("nan")),
                                      dict(case, via=what, got=hexarr(a), fresh=hexarr(b)), key="single:%s" % p)
                        if p == "nugget" and nug0 > 0:
                            # the field of a model without nugget must be divergence free: probe the history object itself
                            def fac(s, pos0=pos):
                                s(tuple(pos0), mesh_type="unstructured")
                                s.model.nugget = 0.0
                                return lambda q: s(tuple(np.asarray(q)), mesh_type="unstructured")
                            x = np.ascontiguousarray(rng.uniform(-10, 10, size=(dim, 4)) * cfg["len_scale"])
                            run_divergence(ctx, dict(cfg, nugget=nug0, mode_no=max(cfg["mode_no"], 7)), x,
                                           via=("SRF after evaluating with nugget %.2g and setting model.nugget = 0" % nug0, fac))
                        break


# ----------------------------------------------------------------------------------------------- run

def run(ctx):
    rng = C.Rng(ctx.seed, "C16")
    ctx.rule = ("kernel/wrapper correspondence cases = (dim, n_points, n_modes, value kind) resp. (class, dim, mode_no, nugget, n_points); "
                "divergence probe = (class, dim, mode_no, step) per evaluation point whose error budget is < 1e-3 of |grad u| "
                "(others are trivial); ensemble probe = (class, dim, mode_no) per seed; distinct = distinct keys")
    ctx.trusted = [
        "Coq 8.16.1 kernel (coqc); no native_compute; Coquelicot 3.x derivative library",
        "translators tools/pyx2py.py, tools/pyx2coq.py (construct table = assumed semantics of the Cython subset)",
        "extraction (ExtrOcamlBasic only), OCaml 4.13, ocaml/proto.ml float instance (glibc libm)",
        "theorems about derivatives and expectations are over exact reals (Rops): IEEE rounding is not modelled there",
        "C16_mean: the expectation E, the random wave vectors and amplitudes are universally quantified; linearity of E and "
        "'amplitudes centred and uncorrelated with every function of the wave vectors' are explicit hypotheses (shown satisfiable)",
        "numpy RandomState and the spectral sampling of the modes are modelled, not verified (C01/C11)",
    ]
    ctx.not_proved = [
        "that numpy's uniform/normal streams are uniform/standard normal and independent: the moment hypotheses of C16_mean / "
        "C16_variance and the uniform weights of C16_variance_split are explicit hypotheses, probed statistically over seeds",
        "the identification E[g(k_j)] = normalised integral over the sample_sphere parameterisation (a statement about the RNG)",
        "floating-point divergence: theorems are over R; the central-difference probe bounds the float behaviour numerically",
        "anisotropic models are outside the property: SRF evaluates u(M x) with unchanged components, which is not solenoidal "
        "(C16_divergence_linear_map gives its divergence, C16_rotated_or_stretched_not_solenoidal the witnesses); isotropic models "
        "with rotation angles are inside (fixed in /repo: evaluated in the given coordinates)",
    ]
    ctx.tie["IncomprRandMeth.__call__ (generator.py)"] = "hand model incompr_call/velocity + correspondence"
    ctx.tie["compiled summator .so"] = "execution: bitwise vs extracted spec and translated kernel"
    ctx.tie["RNG.sample_sphere (directions of the modes)"] = "hand parameterisation kdir2/kdir3 + bitwise replay of the random stream"
    # coq/gen is shared with checks running concurrently (possibly on another checkout): make sure the translation
    # that was compiled is the one of THIS checkout's summator.pyx, else translate and build again
    import os
    import pyx2coq
    tie_broken, proofs_ok, drv = [], False, None
    for attempt in range(3):
        gen = C.regenerate(["Summator_gen.v"])
        tie_broken = [("%s: %s" % (k, v)) for k, v in gen.items() if v]
        if tie_broken:
            break
        proofs_ok = ctx.proofs("props/C16.v")
        ok, out = C.build_driver("c16")
        try:
            mine = pyx2coq.translate(os.path.join(C.REPO, "src/gstools/field/summator.pyx"))
            stable = open(os.path.join(C.COQ, "gen", "Summator_gen.v")).read() == mine
        except Exception:
            stable = True
        if stable:
            if ok:
                drv = C.Driver("c16")
            else:
                tie_broken.append("extraction/driver build: " + out[-400:])
            break
        ctx.notes.append("coq/gen/Summator_gen.v was rewritten by a concurrent check during the build (attempt %d): rebuilt" % (attempt + 1))
    ctx.tie["summate_incompr (summator.pyx)"] = ("translated (pyx2coq), proved equal to summate_incompr_spec"
                                                  if not tie_broken else "TRANSLATION FAILED")
    import time
    try:
        stages = ([("kernel correspondence", lambda: corr_kernel(ctx, rng, drv)),
                   ("wrapper correspondence", lambda: corr_wrapper(ctx, rng, drv)),
                   ("option cells", lambda: corr_options(ctx, rng, drv)),
                   ("frames (angles / anis)", lambda: corr_frames(ctx, rng, drv)),
                   ("copies / keyword order / interference", lambda: probe_copies(ctx, rng, drv))] if drv is not None else []) + [
                  ("divergence probe", lambda: probe_divergence(ctx, rng)),
                  ("pointwise probe", lambda: probe_pointwise(ctx, rng)),
                  ("history probe", lambda: probe_history(ctx, rng)),
                  ("angle patterns", lambda: corr_angle_patterns(ctx, rng)),
                  ("single-parameter histories", lambda: probe_single_changes(ctx, rng)),
                  ("upscaling / point_volumes", lambda: probe_upscaling(ctx, rng)),
                  ("entry points (unstructured / mesh)", lambda: probe_entry_points(ctx, rng)),
                  ("mean / trend options", lambda: probe_mean_trend(ctx, rng)),
                  ("size classes", lambda: probe_sizes(ctx, rng, drv)),
                  ("sample_sphere parameterisation", lambda: probe_sphere(ctx, rng)),
                  ("ensemble probe", lambda: probe_ensemble(ctx, rng))]
        for nm, fn in stages:
            t0 = time.time()
            fn()
            C.log("[C16]   %s: %.1fs" % (nm, time.time() - t0))
    finally:
        if drv:
            drv.close()
    if (tie_broken or not proofs_ok) and not [v for v in ctx.violations if not v["no_input"]]:
        ctx.violation("proof/tie", "proof obligations or the model/code tie of C16 no longer check: %s" % (
            tie_broken or getattr(ctx, "proof_failure", {}).get("output_tail", "")[-600:]),
            dict(tie_broken=tie_broken, proof=getattr(ctx, "proof_failure", None)), no_input=True)


def replay(ctx, path):
    rec = json.load(open(path))
    print(json.dumps({k: rec[k] for k in ("stage", "what")}, indent=1))
    case = rec.get("case") or {}
    stage = rec.get("stage", "")
    cfg = {k: case[k] for k in ("cls", "dim", "var", "len_scale", "mean_u", "mode_no", "seed", "opt") if k in case}
    if stage.startswith("probe: divergence") and "x" in case:
        run_divergence(ctx, cfg, unhex(case["x"]))
    elif stage.startswith("probe: ensemble") or stage.startswith("probe: component variance"):
        rng = C.Rng(rec.get("seed", ctx.seed), "C16-replay")
        M = int(case.get("M", 300))
        run_ensemble(ctx, cfg, M, rng.choice(2 ** 31 - 1, size=M, replace=False), unhex(case["x"]),
                     history=(True if str(case.get("history", "")).startswith("mean_u =") else
                              "deepcopy" if "deepcopy" in str(case.get("history", "")) else False))
    else:
        run(ctx)
    return ctx.finish()
