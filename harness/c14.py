"""C14 — model parameters form a consistent state independent of how it was reached.

stages: theorems props/C14.v ; extraction + driver of the hand model (c14/C14_Model.v) ;
        correspondence: random assignment histories on all 17 classes x plain/temporal/latlon/latlon+temporal,
        every public attribute compared with the model after each step, error kinds exact ;
        probes on the implementation alone: frame, bounds, shape invariant, derived quantities after each step,
        final object vs freshly constructed object ; deterministic replays of the two model witnesses."""
import json
import math
import os
import re

import numpy as np

import common as C

CLASSES = ["Gaussian", "Exponential", "Matern", "Integral", "Stable", "Rational", "Cubic", "Linear", "Circular",
           "Spherical", "HyperSpherical", "SuperSpherical", "JBessel", "TPLGaussian", "TPLExponential", "TPLStable",
           "TPLSimple"]
TPL = {"TPLGaussian", "TPLExponential", "TPLStable"}          # variance = var_raw * var_factor(len_scale, rescale, hurst, len_low)
CLOSED_INT = {"Gaussian", "Exponential", "Matern", "Integral", "Stable", "Rational"}   # closed-form calc_integral_scale
DIMDEP = {"SuperSpherical", "JBessel", "TPLSimple"}           # default bounds of nu depend on dim
KINDS = [("plain", False, False), ("temporal", False, True), ("latlon", True, False), ("latlon+temporal", True, True)]
STD = ["var", "len_scale", "nugget", "anis"]
ERR = {0: "bounds", 1: "anis", 2: "dim", 3: "bad-bounds", 4: "index", 5: "int-scale", 6: "unknown-arg", 7: "unsupported"}
KEY_FIXED = "len_scale-setter:latlon-temporal-anis-reset"
KEY_STALE = "dim-setter:stale-dim-dependent-default-bounds"
INF = float("inf")


def gs():
    import gstools
    return gstools


def noa(d):
    return d * (d - 1) // 2


# --------------------------------------------------------------------------- observing the implementation

def norm_bnd(b):
    b = list(b)
    t = b[2] if len(b) == 3 else "cc"
    return (float(b[0]), float(b[1]), 1.0 if t[0] == "c" else 0.0, 1.0 if t[1] == "c" else 0.0)


def obs_impl(m, cls):
    names = list(m.arg_bounds)
    o = dict(dim=int(m.dim), latlon=bool(m.latlon), temporal=bool(m.temporal), var_raw=float(m.var_raw),
             len_scale=float(m.len_scale), nugget=float(m.nugget), rescale=float(m.rescale),
             anis=np.array(m.anis, dtype=float), angles=np.array(m.angles, dtype=float),
             opts=np.array([getattr(m, n) for n in names[4:]], dtype=float),
             bounds=np.array([norm_bnd(m.arg_bounds[n]) for n in names], dtype=float).reshape(-1, 4),
             var=float(m.var), sill=float(m.sill), len_rescaled=float(m.len_rescaled),
             len_scale_vec=np.array(m.len_scale_vec, dtype=float), field_dim=int(m.field_dim),
             spatial_dim=int(m.spatial_dim), var_factor=float(m.var_factor()))
    if cls in CLOSED_INT:
        o["int_scale"] = float(m.integral_scale)
    o["sft_ndim"] = int(m._sft.ndim)       # hidden derived state (Hankel transform); model: sft_ndim = dim
    return o


def inside(b, vals):
    """independent interval membership (not the code's check_arg_in_bounds)"""
    lo, hi, lc, hc = b
    v = np.atleast_1d(np.asarray(vals, dtype=float))
    if np.isnan(v).any():
        return False                                   # NaN lies in no interval
    ok_lo = (v >= lo) if lc else (v > lo)
    ok_hi = (v <= hi) if hc else (v < hi)
    return bool(np.all(ok_lo & ok_hi))


def all_inside(o):
    vals = [o["var"], o["len_scale"], o["nugget"], o["anis"]] + list(o["opts"])
    return all(inside(o["bounds"][i], vals[i]) for i in range(len(vals)))


def classify(e, names):
    """exception of the implementation -> (kind, arg, case) of the model's Err"""
    if isinstance(e, IndexError):
        return (4, 0, 0)
    if not isinstance(e, ValueError):
        return None
    s = str(e)
    if s.startswith("anisotropy-ratios needs to be > 0"):
        return (1, 0, 0)
    mm = re.match(r"^(\w+) needs to be (>=|>|<=|<) ", s)
    if mm and mm.group(1) in names:
        return (0, names.index(mm.group(1)), {">=": 1, ">": 2, "<=": 3, "<": 4}[mm.group(2)])
    if s.startswith("Only dimensions of d >= 1"):
        return (2, 0, 0)
    if s.startswith("Given bounds for"):
        return (3, 0, 0)
    if "Integral scale could not be set" in s:
        return (5, 0, 0)
    if "unknown argument" in s:
        return (6, 0, 0)
    return None


# --------------------------------------------------------------------------- the model side

def bm_in(bm):
    bm = np.asarray(bm, dtype=float).reshape(-1, 4).copy()
    bm[np.isinf(bm)] = np.nan          # infinite end <-> None
    return bm


def st_args(ms):
    d, ll, tt, v4, an, ang, op, bm = ms
    return [("n", d), bool(ll), bool(tt), np.asarray(v4, dtype=float), np.asarray(an, dtype=float),
            np.asarray(ang, dtype=float), np.asarray(op, dtype=float), bm_in(bm)]


def res_state(r):
    """driver result -> ('ok', state) | ('err', (kind, arg, case))"""
    if isinstance(r, tuple) and r and r[0] == "error":
        raise RuntimeError("driver: %r" % (r,))
    if r[0] == 0:
        return "ok", tuple(r[1:9])
    return "err", (int(r[1]), int(r[2]), int(r[3]))


def obs_model(drv, ci, ms):
    v5, lsv, fd, sd, inb = drv.call("observe", ("n", ci), *st_args(ms))
    d, ll, tt, v4, an, ang, op, bm = ms
    return dict(dim=int(d), latlon=bool(ll), temporal=bool(tt), var_raw=float(v4[0]), len_scale=float(v4[1]),
                nugget=float(v4[2]), rescale=float(v4[3]), anis=np.asarray(an, float), angles=np.asarray(ang, float),
                opts=np.asarray(op, float), bounds=np.asarray(bm, float).reshape(-1, 4), var=float(v5[0]),
                sill=float(v5[1]), len_rescaled=float(v5[2]), var_factor=float(v5[3]), int_scale=float(v5[4]),
                len_scale_vec=np.asarray(lsv, float), field_dim=int(fd), spatial_dim=int(sd), inb=bool(inb),
                sft_ndim=int(d))           # derived component of the model's DState (C14_hidden_state_coherent)


EXACT = ["dim", "latlon", "temporal", "nugget", "rescale", "anis", "angles", "opts", "bounds", "field_dim", "spatial_dim", "sft_ndim"]
LENF = ["len_scale", "len_rescaled", "len_scale_vec"]
VARF = ["var_raw", "var", "sill", "var_factor"]


def same_val(a, b, exact):
    if isinstance(a, (bool, int)) and not isinstance(a, float):
        return a == b
    a = np.asarray(a, dtype=float)
    b = np.asarray(b, dtype=float)
    if a.shape != b.shape:
        return False
    return C.bit_equal(a, b) if exact else C.close(a, b, rtol=1e-9)


def cmp_obs(mo, io, cls, loose_len):
    """fields on which model and implementation differ (policy DESIGN 3.4: exact unless the value went through
    pow / gamma / beta)"""
    bad = []
    for f in EXACT:
        if not same_val(io[f], mo[f], True):
            bad.append(f)
    for f in LENF:
        if not same_val(io[f], mo[f], not loose_len):
            bad.append(f)
    for f in VARF:
        if not same_val(io[f], mo[f], cls not in TPL):
            bad.append(f)
    if "int_scale" in io and not same_val(io["int_scale"], mo["int_scale"], False):
        bad.append("int_scale")
    return bad


# --------------------------------------------------------------------------- operations

def py_bnd(b):
    """(lo, hi, type|None) -> the list handed to the implementation"""
    lo, hi, t = b
    return [lo, hi] if t is None else [lo, hi, t]


def row_bnd(b):
    lo, hi, t = b
    t = t or "cc"
    return [lo, hi, 1.0 if t[0] == "c" else 0.0, 1.0 if t[1] == "c" else 0.0]


def apply_impl(m, op, optn):
    k = op["k"]
    if k == "var":
        m.var = op["v"]
    elif k == "var_raw":
        m.var_raw = op["v"]
    elif k == "nugget":
        m.nugget = op["v"]
    elif k in ("len_scale", "anis", "angles", "integral_scale"):
        v = op["v"]
        setattr(m, k, v[0] if (op.get("scalar") and len(v) == 1) else list(v))
    elif k == "rescale":
        m.rescale = op["v"]
    elif k == "dim":
        m.dim = op["v"]
    elif k == "opt":
        setattr(m, optn[op["i"]], op["v"])
    elif k == "set_arg_bounds":
        m.set_arg_bounds(check_args=op["chk"], **{n: py_bnd(b) for n, b in op["kw"]})
    elif k == "bounds_prop":
        setattr(m, op["n"] + "_bounds", py_bnd(op["b"]))
    else:
        raise RuntimeError(k)


def arg_code(n, optn):
    return STD.index(n) if n in STD else 4 + optn.index(n)


def apply_model(drv, ci, ms, op, optn, fn="step"):
    k = op["k"]
    ip, fp, bm = [], [], np.zeros((0, 4))
    if k in ("var", "var_raw", "nugget"):
        code, fp = {"var": 0, "var_raw": 1, "nugget": 2}[k], [op["v"]]
    elif k in ("len_scale", "anis", "angles", "integral_scale"):
        code, fp = {"len_scale": 3, "anis": 4, "angles": 5, "integral_scale": 9}[k], list(op["v"])
    elif k == "rescale":
        code, ip, fp = 6, [0 if op["v"] is None else 1], [0.0 if op["v"] is None else op["v"]]
    elif k == "dim":
        code, ip = 7, [op["v"]]
    elif k == "opt":
        code, ip, fp = 8, [op["i"]], [op["v"]]
    elif k == "set_arg_bounds":
        code, ip = 10, [1 if op["chk"] else 0] + [arg_code(n, optn) for n, _ in op["kw"]]
        bm = np.array([row_bnd(b) for _, b in op["kw"]], dtype=float).reshape(-1, 4)
    elif k == "bounds_prop":
        code, ip, bm = 11, [arg_code(op["n"], optn)], np.array([row_bnd(op["b"])], dtype=float)
    else:
        raise RuntimeError(k)
    r = drv.call(fn, ("n", ci), *st_args(ms), ("n", code), np.array(ip, dtype=np.int64), np.array(fp, dtype=float), bm_in(bm))
    return res_state(r)


def touched(op, o_before, optn):
    """observable fields an assignment may change (documented couplings included)"""
    k = op["k"]
    d = o_before["dim"]
    if k in ("var", "var_raw"):
        return {"var_raw"}
    if k == "nugget":
        return {"nugget"}
    if k in ("len_scale", "integral_scale"):
        return {"len_scale"} if len(op["v"][:d]) == 1 else {"len_scale", "anis"}
    if k == "anis":
        return {"anis"}
    if k == "angles":
        return {"angles"}
    if k == "rescale":
        return {"rescale"}
    if k == "dim":
        return {"dim", "anis", "angles"}
    if k == "opt":
        return {"opt%d" % op["i"]}
    if k == "set_arg_bounds":
        t = set()
        for n, _ in op["kw"]:
            c = arg_code(n, optn)
            t.add("bound%d" % c)
            if op["chk"]:
                t.add(["var_raw", "len_scale", "nugget", "anis"][c] if c < 4 else "opt%d" % (c - 4))
        return t
    if k == "bounds_prop":
        return {"bound%d" % arg_code(op["n"], optn)}
    raise RuntimeError(k)


def frame_fields(o):
    f = dict(dim=o["dim"], latlon=o["latlon"], temporal=o["temporal"], var_raw=o["var_raw"], len_scale=o["len_scale"],
             anis=o["anis"], angles=o["angles"], nugget=o["nugget"], rescale=o["rescale"])
    for i, v in enumerate(o["opts"]):
        f["opt%d" % i] = float(v)
    for i, b in enumerate(o["bounds"]):
        f["bound%d" % i] = np.asarray(b)
    return f


VALUE_SETTERS = {"var", "var_raw", "nugget", "len_scale", "anis", "angles", "dim", "opt", "integral_scale"}


# --------------------------------------------------------------------------- generators

def nice(rng, x):
    return float(np.round(x, int(rng.integers(0, 4)))) if rng.random() < 0.5 else float(x)


def pick(rng, b, allow_edge=True):
    """a value for a parameter with bounds b: mostly inside, sometimes on / next to / outside the ends"""
    lo, hi, lc, hc = [float(x) for x in b]
    r = rng.random()
    if r < 0.78 or not allow_edge and r < 0.9:
        if math.isfinite(lo) and math.isfinite(hi):
            v = lo + (hi - lo) * rng.uniform(0.02, 0.98)
        elif math.isfinite(lo):
            v = lo + float(np.exp(rng.normal(0, 1.2)))
        elif math.isfinite(hi):
            v = hi - float(np.exp(rng.normal(0, 1.2)))
        else:
            v = float(rng.normal(0, 3))
        v2 = nice(rng, v)
        return v2 if inside(b, v2) else v
    if r < 0.9:
        ends = [e for e in (lo, hi) if math.isfinite(e)]
        if not ends:
            return float(rng.normal(0, 3))
        e = ends[int(rng.integers(len(ends)))]
        return [e, float(np.nextafter(e, INF)), float(np.nextafter(e, -INF))][int(rng.integers(3))]
    if math.isfinite(lo) and (rng.random() < 0.6 or not math.isfinite(hi)):
        return lo - float(np.exp(rng.normal(-1, 1.5)))
    if math.isfinite(hi):
        return hi + float(np.exp(rng.normal(-1, 1.5)))
    return float(rng.normal(0, 3))


def pos(rng):
    x = float(np.exp(rng.normal(0, 1)))
    y = nice(rng, x)
    return y if y > 0 else x


def gen_bnd(rng):
    lo = [0.0, 0.1, 0.5, 1.0, -1.0, -INF, nice(rng, rng.uniform(0, 2))][int(rng.integers(7))]
    if rng.random() < 0.05:                                   # invalid: upper <= lower
        hi = lo if (math.isfinite(lo) and rng.random() < 0.5) else (lo - 1.0 if math.isfinite(lo) else -INF)
        if not math.isfinite(lo):
            lo, hi = 1.0, 1.0
    else:
        base = lo if math.isfinite(lo) else 0.0
        hi = INF if rng.random() < 0.3 else base + nice(rng, float(np.exp(rng.normal(0.5, 1)))) + 0.001
    t = [None, "oo", "cc", "oc", "co"][int(rng.integers(5))]
    return (float(lo), float(hi), t)


def gen_list(rng, first, n, bad):
    if n > 1 and abs(first) < 1e-100:
        # ratios l_i / l_0 would overflow to inf: infinite parameter values are outside the modelled space
        first = pos(rng)
    v = [first] + [pos(rng) for _ in range(n - 1)]
    if bad and n > 1:
        v[int(rng.integers(1, n))] = [0.0, -pos(rng)][int(rng.integers(2))]
    return [float(x) for x in v]


def gen_op(rng, cls, o, optn):
    """one assignment, given the current observation o of the implementation"""
    op = _gen_op(rng, cls, o, optn)
    if rng.random() < 0.03 and op["k"] in ("var", "var_raw", "nugget", "opt", "len_scale", "anis", "integral_scale"):
        # non-finite value: NaN lies in no interval and must be rejected (scalar, or one element of a list)
        if isinstance(op["v"], list):
            if op["v"]:
                op["v"][int(rng.integers(len(op["v"])))] = float("nan")
        else:
            op["v"] = float("nan")
    return op


def _gen_op(rng, cls, o, optn):
    d = o["dim"]
    kinds = ["var", "var_raw", "nugget", "len_scale", "anis", "angles", "rescale", "dim", "set_arg_bounds", "bounds_prop"]
    w = [0.10, 0.07, 0.10, 0.16, 0.10, 0.08, 0.06, 0.10, 0.09, 0.03]
    if optn:
        kinds.append("opt"); w.append(0.11)
    if cls in CLOSED_INT:
        kinds.append("integral_scale"); w.append(0.05)
    k = kinds[int(rng.choice(len(kinds), p=np.array(w) / sum(w)))]
    b = o["bounds"]
    if k == "var":
        return dict(k=k, v=pick(rng, b[0], allow_edge=cls not in TPL))
    if k == "var_raw":
        # bounds are on var = var_raw * var_factor
        f = o["var_factor"] if (math.isfinite(o["var_factor"]) and o["var_factor"] > 0) else 1.0
        v = pick(rng, b[0], allow_edge=cls not in TPL)
        return dict(k=k, v=v if cls not in TPL else v / f)
    if k == "nugget":
        return dict(k=k, v=pick(rng, b[2]))
    if k in ("len_scale", "integral_scale"):
        n = 1 if rng.random() < 0.45 else int(rng.integers(1, d + 2))
        first = pick(rng, b[1]) if k == "len_scale" else (pos(rng) if rng.random() < 0.9 else pick(rng, b[1]))
        return dict(k=k, v=gen_list(rng, first, n, rng.random() < 0.05), scalar=bool(rng.random() < 0.7))
    if k == "anis":
        n = int(rng.integers(0, d + 1)) if rng.random() < 0.8 else 1
        r = rng.random()
        v = [pick(rng, b[3]) if r < 0.3 else pos(rng) for _ in range(n)]
        if n and rng.random() < 0.05:
            v[int(rng.integers(n))] = [0.0, -pos(rng)][int(rng.integers(2))]
        return dict(k=k, v=[float(x) for x in v], scalar=bool(rng.random() < 0.7))
    if k == "angles":
        n = int(rng.integers(0, noa(d) + 3))
        return dict(k=k, v=[nice(rng, float(rng.uniform(-4, 4))) for _ in range(n)], scalar=bool(rng.random() < 0.7))
    if k == "rescale":
        if rng.random() < 0.3:
            return dict(k=k, v=None)
        return dict(k=k, v=pos(rng) * (-1.0 if rng.random() < 0.25 else 1.0))
    if k == "dim":
        return dict(k=k, v=int(rng.choice([0, 1, 2, 3, 4, 5], p=[0.03, 0.2, 0.26, 0.26, 0.2, 0.05])))
    if k == "opt":
        i = int(rng.integers(len(optn)))
        # len_low / hurst enter var through pow on the TPL classes: no end-adjacent values there
        return dict(k=k, i=i, v=pick(rng, b[4 + i]))
    names = STD + list(optn)
    if k == "set_arg_bounds":
        n = int(rng.integers(1, 4))
        sel = [names[j] for j in rng.permutation(len(names))[:n]]
        kw = []
        for nm in sel:
            bb = gen_bnd(rng)
            if rng.random() < 0.5 and bb[1] > bb[0]:
                # make the new interval contain / exclude the current value on purpose
                c = arg_code(nm, optn)
                cur = [o["var"], o["len_scale"], o["nugget"]][c] if c < 3 else (
                    float(np.mean(o["anis"])) if c == 3 and len(o["anis"]) else (o["opts"][c - 4] if c > 3 else 1.0))
                if rng.random() < 0.5:
                    bb = (float(cur) - pos(rng), float(cur) + pos(rng), bb[2])
                else:
                    bb = (float(cur) + 0.01 + pos(rng), float(cur) + 3.0 + pos(rng), bb[2])
            if nm == "len_low" and bb[0] < 0:
                # a negative lower truncation makes Python's float power return a complex number in var_factor
                # (C pow gives NaN): outside the modelled space
                lo = 0.0
                bb = (lo, bb[1] if bb[1] > lo else lo + pos(rng), bb[2])
            kw.append((nm, bb))
        return dict(k=k, chk=bool(rng.random() < 0.65), kw=kw)
    return dict(k="bounds_prop", n=STD[int(rng.integers(4))], b=gen_bnd(rng))


def gen_ctor(rng, cls, latlon, temporal, drv, ci):
    """constructor keyword arguments (implementation) and the same as model arguments"""
    kw = dict(latlon=latlon, temporal=temporal)
    dim = int(rng.integers(1, 5))
    use_spatial = (not latlon) and rng.random() < 0.2
    if use_spatial:
        kw["spatial_dim"] = dim
        eff = dim + int(temporal)
    elif not latlon or rng.random() < 0.3:
        kw["dim"] = dim
        eff = dim
    else:
        eff = dim
    if latlon:
        eff = 3 + int(temporal)
    defo, defb, defr = drv.call("defaults", ("n", ci), ("n", eff))
    optn_n = len(defo)
    raw = rng.random() < 0.25
    var = pos(rng) if rng.random() < 0.92 else -pos(rng)
    kw["var_raw" if raw else "var"] = var
    n = 1 if rng.random() < 0.5 else int(rng.integers(1, eff + 2))
    ls = gen_list(rng, pos(rng) if rng.random() < 0.95 else 0.0, n, rng.random() < 0.05)
    ls_scalar = n == 1 and rng.random() < 0.7
    kw["len_scale"] = ls[0] if ls_scalar else ls
    an = [pos(rng) for _ in range(int(rng.integers(0, eff + 1)))] if rng.random() < 0.7 else [1.0]
    if an and rng.random() < 0.05:
        an[0] = -an[0]
    an_scalar = len(an) == 1 and rng.random() < 0.6
    kw["anis"] = an[0] if an_scalar else an
    ang = [nice(rng, float(rng.uniform(-4, 4))) for _ in range(int(rng.integers(0, noa(eff) + 2)))] if rng.random() < 0.7 else [0.0]
    kw["angles"] = ang[0] if (len(ang) == 1 and rng.random() < 0.6) else ang
    nug = pos(rng) * 0.3 if rng.random() < 0.6 else (0.0 if rng.random() < 0.85 else -0.1)
    kw["nugget"] = nug
    resc = None if rng.random() < 0.6 else pos(rng) * (-1.0 if rng.random() < 0.2 else 1.0)
    if resc is not None:
        kw["rescale"] = resc
    opts = [float(x) for x in defo]
    given = {}
    for i in range(optn_n):
        if rng.random() < 0.5:
            opts[i] = pick(rng, tuple(defb[4 + i]))
            given[i] = opts[i]
    margs = dict(iargs=[dim, 1 if use_spatial else 0, dim, int(latlon), int(temporal), int(raw), 0 if resc is None else 1, 1],
                 fargs=[var, nug, 0.0 if resc is None else resc], len=ls, anis=an, angles=ang, opts=opts)
    if cls in CLOSED_INT and rng.random() < 0.25:
        # integral_scale= in the constructor (modelled for the closed-form classes: construct_int)
        ni = 1 if rng.random() < 0.5 else int(rng.integers(1, eff + 2))
        isc = gen_list(rng, pos(rng), ni, False)
        kw["integral_scale"] = isc[0] if (ni == 1 and rng.random() < 0.7) else isc
        margs["int"] = isc
    return kw, given, margs, eff


def model_construct(drv, ci, margs, bm=None):
    bm = np.zeros((0, 4)) if bm is None else bm
    extra = [np.array(margs["int"], dtype=float)] if margs.get("int") else []
    r = drv.call("construct", ("n", ci), np.array(margs["iargs"], dtype=np.int64), np.array(margs["fargs"], dtype=float),
                 np.array(margs["len"], dtype=float), np.array(margs["anis"], dtype=float),
                 np.array(margs["angles"], dtype=float), np.array(margs["opts"], dtype=float), bm_in(bm), *extra)
    return res_state(r)


# --------------------------------------------------------------------------- documented normalisation rules (no gstools code)

def doc_anis_from_list(dim, ls, latlon):
    """[l1, l2] in 3D == [l1, l2, l2]: the LAST given length scale is reused; ratios l_i / l_1"""
    ls = np.array(ls, dtype=float).ravel()[:dim]
    if len(ls) < 2:
        return None
    padded = np.concatenate([ls, np.full(dim - len(ls), ls[-1])])
    a = padded[1:] / padded[0]
    if latlon:
        a[:2] = 1.0
    return a


def doc_anis(dim, an, latlon):
    """too few ratios: filled up with 1 at the FRONT (anis=[e] in 3D == [1, e]); lat-lon: space isotropic"""
    a = np.array(an, dtype=float).ravel()[:max(dim - 1, 0)]
    a = np.concatenate([np.ones(dim - 1 - len(a)), a])
    if latlon:
        a[:2] = 1.0
    return a


def doc_angles(dim, ang, latlon, temporal):
    """too few angles: filled up with 0; lat-lon: no rotation; temporal: no rotation between space and time"""
    if latlon:
        return np.zeros(noa(dim))
    a = np.array(ang, dtype=float).ravel()[:noa(dim)]
    a = np.concatenate([a, np.zeros(noa(dim) - len(a))])
    if temporal:
        a[noa(dim - 1):] = 0.0
    return a


_POS = {}


def _positions(dim, latlon, temporal):
    key = (dim, latlon, temporal)
    if key not in _POS:
        rs = np.random.RandomState(4711 + 10 * dim + 2 * int(latlon) + int(temporal))
        full = rs.normal(size=(dim, 5)) * 3.0
        if latlon:
            field = np.vstack([rs.uniform(-80, 80, 5), rs.uniform(-170, 170, 5)] + ([rs.uniform(0, 5, 5)] if temporal else []))
        else:
            field = full
        _POS[key] = (full, field, np.array([0.0, 0.3, 1.0, 2.5, 7.0]))
    return _POS[key]


def behave(m, heavy=False, touch=False):
    """results of EVERY public derived function of the model: they must be functions of the PRESENT primary parameter
    values only (a model reached by a history behaves like a freshly constructed one).  Hidden derived state they
    use (the Hankel transform object _sft, caches) is thereby compared through its effects.
    heavy=True adds the numerically integrated integral scales (tens of ms): used at the comparison points;
    touch=True only exercises the cache / hidden-state users (called after every single step)."""
    dim, ll, tt = int(m.dim), bool(m.latlon), bool(m.temporal)
    full, field, r = _positions(dim, ll, tt)
    k = np.array([0.0, 0.05, 0.4, 1.3, 6.0])
    u = np.array([0.05, 0.5, 0.93])
    out = {}

    def call(name, fn):
        try:
            v = fn()
            if isinstance(v, dict):
                v = [float(v[q]) for q in sorted(v) if isinstance(v[q], (int, float, np.floating, np.integer, bool, np.bool_))]
            out[name] = np.asarray(v, dtype=float)
        except Exception as e:                                  # compared as well: both objects must do the same
            out[name] = "exception:" + type(e).__name__
    call("isometrize", lambda: m.isometrize(field))
    call("anisometrize", lambda: m.anisometrize(full))
    call("main_axes", lambda: m.main_axes())
    if touch:
        # after every step: only exercise the code paths that may fill caches / use hidden state
        call("vario_spatial", lambda: m.vario_spatial(full))
        call("spectral_density", lambda: m.spectral_density(k))
        return out
    for f in ("vario_spatial", "cov_spatial", "cor_spatial"):
        call(f, lambda f=f: getattr(m, f)(full))
    for f in ("variogram", "covariance", "correlation", "vario_nugget", "cov_nugget"):
        call(f, lambda f=f: getattr(m, f)(r))
    call("cor", lambda: m.cor(r))
    if ll:
        for f in ("vario_yadrenko", "cov_yadrenko", "cor_yadrenko"):
            call(f, lambda f=f: getattr(m, f)(r / 10.0))
    elif dim > 1:
        for f in ("vario_axis", "cov_axis", "cor_axis"):
            call(f, lambda f=f: getattr(m, f)(r, axis=dim - 1))
    # spectral side (classes without an analytic spectral density go through the Hankel transform m._sft)
    call("spectral_density", lambda: m.spectral_density(k))
    call("spectrum", lambda: m.spectrum(k))
    call("spectral_rad_pdf", lambda: m.spectral_rad_pdf(k))
    call("ln_spectral_rad_pdf", lambda: m.ln_spectral_rad_pdf(k[1:]))
    call("has_cdf_ppf", lambda: [float(m.has_cdf), float(m.has_ppf)])
    if m.has_cdf:
        call("spectral_rad_cdf", lambda: m.spectral_rad_cdf(k))
    if m.has_ppf:
        call("spectral_rad_ppf", lambda: m.spectral_rad_ppf(u))
    call("percentile_scale", lambda: m.percentile_scale(0.9))
    call("scales", lambda: np.concatenate([[m.sill, m.len_rescaled, m.var_factor(), m.default_rescale()], m.len_scale_vec]))
    call("flags", lambda: [float(m.is_isotropic), float(m.do_rotation), float(m.field_dim), float(m.spatial_dim)])
    call("pykrige_kwargs", lambda: m.pykrige_kwargs)
    call("pykrige_vario", lambda: m.pykrige_vario(r=r))
    call("iso_arg_list", lambda: [float(x) for x in m.iso_arg_list])
    call("sft_ndim", lambda: m._sft.ndim)
    if hasattr(m, "len_up"):
        call("tpl_lengths", lambda: [m.len_up, m.len_up_rescaled, m.len_low_rescaled])
    closed = type(m).__name__ in CLOSED_INT
    if heavy or closed:
        call("integral_scale", lambda: m.integral_scale)        # scipy quad for the 11 classes without closed form
    if closed:
        call("integral_scale_vec", lambda: m.integral_scale_vec)  # (dim quadratures otherwise: integral_scale * anis)
    return out


def behaviour_diff(a, b):
    bad = []
    for k in a:
        x, y = a[k], b.get(k)
        if isinstance(x, str) or isinstance(y, str):
            if not (isinstance(x, str) and isinstance(y, str) and x == y):
                bad.append(k)
        elif x.shape != y.shape or not C.bit_equal(x, y):
            bad.append(k)
    return bad


# --------------------------------------------------------------------------- fresh construction (canonical form)

def default_bounds_impl(Cls, o):
    kw = dict(latlon=o["latlon"], temporal=o["temporal"])
    if not o["latlon"]:
        kw["dim"] = o["dim"]
    ref = Cls(**kw)
    return np.array([norm_bnd(ref.arg_bounds[n]) for n in ref.arg_bounds], dtype=float).reshape(-1, 4)


def fresh_kwargs(m, o, optn, use_var):
    kw = dict(latlon=o["latlon"], temporal=o["temporal"], len_scale=o["len_scale"], anis=[float(x) for x in o["anis"]],
              angles=[float(x) for x in o["angles"]], nugget=o["nugget"], rescale=o["rescale"])
    if not o["latlon"]:
        kw["dim"] = o["dim"]
    if use_var:
        kw["var"] = o["var"]
    else:
        kw["var_raw"] = o["var_raw"]
    for i, n in enumerate(optn):
        kw[n] = float(o["opts"][i])
    return kw


def subclass_with_bounds(Cls, m):
    std = {k: m.arg_bounds[k] for k in STD}
    ob = dict(m.opt_arg_bounds)
    return type(Cls.__name__, (Cls,), {"default_arg_bounds": lambda self: dict(std),
                                       "default_opt_arg_bounds": lambda self: dict(ob)})


# --------------------------------------------------------------------------- one history

class History:
    def __init__(self, ctx, drv, cls, kind, latlon, temporal):
        self.ctx, self.drv, self.cls, self.kind, self.latlon, self.temporal = ctx, drv, cls, kind, latlon, temporal
        self.ci = CLASSES.index(cls)
        self.Cls = getattr(gs(), cls)
        self.ops_done = []
        self.tie_bad = []       # correspondence disagreements
        self.loose_len = False
        self.bounds_ops = False
        self.dim_changed = False

    def case(self, extra=None):
        c = dict(cls=self.cls, kind=self.kind, ctor=self.ctor_kw, ops=self.ops_done)
        if extra:
            c.update(extra)
        return json.loads(json.dumps(c, default=lambda x: x.tolist() if hasattr(x, "tolist") else str(x)))

    def viol(self, stage, what, key, extra=None):
        self.ctx.violation(stage, what, self.case(extra), key=key)

    def construct(self, kw, margs):
        self.ctor_kw = dict(kw)
        try:
            self.m = self.Cls(**{k: (list(v) if isinstance(v, list) else v) for k, v in kw.items()})
            ierr = None
        except (ValueError, IndexError) as e:
            ierr = classify(e, names_of(self.cls)) or ("?", str(e))
        except (ZeroDivisionError, FloatingPointError, OverflowError):
            self.ctx.count(None, hist=dict(outcome="arith-exception (history ends, not compared)"))
            return False
        if "integral_scale" not in kw:
            self.ctor_doc_check(kw, ierr)
        else:
            self.loose_len = True
        st, val = model_construct(self.drv, self.ci, margs)
        if ierr is not None:
            if st != "err" or not self.same_err(ierr, val, kw.get("len_low", 0.0) < 0):
                if ierr[0] == 0 and ierr[2] in (3, 4) and ierr[1] in (0, 1, 3):
                    # var / len_scale / anis overflowed to inf and hit the infinite upper end of the default bounds
                    # (None in the model): values equal to an infinity are outside the modelled space
                    self.ctx.count(None, hist=dict(outcome="infinite value rejected (history ends, not compared)"))
                    return False
                self.tie_bad.append(dict(at="construct", impl=str(ierr), model=[st, str(val)]))
            return False
        if st == "err":
            self.tie_bad.append(dict(at="construct", impl="ok", model=str(val)))
            return False
        self.ms = val
        self.optn = list(self.m.arg_bounds)[4:]
        self.names = list(self.m.arg_bounds)
        behave(self.m, touch=True)
        self.o = obs_impl(self.m, self.cls)
        self.compare("construct")
        self.shape_probe("construct")
        isc, lsk = kw.get("integral_scale"), kw.get("len_scale", 1.0)
        as_list = lambda x: list(x) if isinstance(x, (list, tuple, np.ndarray)) else [x]
        src = isc if (isc is not None and doc_anis_from_list(self.o["dim"], as_list(isc), self.latlon) is not None) else lsk
        self.doc_probe("constructor", src, kw.get("anis", 1.0), kw.get("angles", 0.0), len_is_main=isc is None)
        if "var" in kw:
            self.var_roundtrip("constructor", kw["var"])
        return True

    def doc_probe(self, route, ls, an, ang, len_is_main=True):
        """documented normalisation of list arguments, computed without gstools code"""
        o = self.o
        d = o["dim"]
        exp = {}
        if ls is not None:
            lsl = list(ls) if isinstance(ls, (list, tuple, np.ndarray)) else [ls]
            a = doc_anis_from_list(d, lsl, o["latlon"])
            if a is not None:
                exp["anis"] = a                                 # a list of length scales redefines the ratios
            elif an is not None:
                exp["anis"] = doc_anis(d, an if isinstance(an, (list, tuple, np.ndarray)) else [an], o["latlon"])
            if len_is_main and lsl:
                exp["len_scale"] = float(lsl[0])
        elif an is not None:
            exp["anis"] = doc_anis(d, an if isinstance(an, (list, tuple, np.ndarray)) else [an], o["latlon"])
        if ang is not None:
            exp["angles"] = doc_angles(d, ang if isinstance(ang, (list, tuple, np.ndarray)) else [ang], o["latlon"], o["temporal"])
        bad = [f for f, v in exp.items() if not same_val(o[f], v, True)]
        if bad:
            self.viol("probe: documented normalisation of list arguments (%s)" % route,
                      "%s (%s, dim %d): %s; documented rule gives %s, the object has %s" % (
                          self.cls, self.kind, d, dict(len_scale_or_integral_scale=ls, anis=an, angles=ang),
                          {f: np.asarray(exp[f]).tolist() for f in bad}, {f: np.asarray(o[f]).tolist() for f in bad}),
                      "doc-normalisation:%s:%s" % (",".join(sorted(bad)), route))

    def var_roundtrip(self, route, v):
        o = self.o
        f = o["var_factor"]
        if not (math.isfinite(f) and f > 0 and math.isfinite(v)):
            return
        if not C.close(o["var"], v, rtol=1e-12):
            self.viol("probe: variance getter after assigning var (%s)" % route,
                      "%s (%s): var = %r was given, the model reports var = %r (var_raw %r, var_factor %r)" % (
                          self.cls, self.kind, v, o["var"], o["var_raw"], f), "var-roundtrip:%s" % route)

    def ctor_doc_check(self, kw, ierr):
        """constructor arguments against the documented (class default) intervals, independent of the model"""
        dkw = dict(latlon=self.latlon, temporal=self.temporal)
        if not self.latlon:
            if "spatial_dim" in kw:
                dkw["spatial_dim"] = kw["spatial_dim"]
            elif "dim" in kw:
                dkw["dim"] = kw["dim"]
        try:
            ref = self.Cls(**dkw)
        except Exception:
            return
        names = list(ref.arg_bounds)
        bnd = [norm_bnd(ref.arg_bounds[n]) for n in names]
        vals = {}
        if self.cls not in TPL:
            vals[0] = kw["var_raw"] if "var_raw" in kw else kw.get("var", 1.0)
        ls = kw.get("len_scale", 1.0)
        vals[1] = ls[0] if isinstance(ls, list) else ls
        vals[2] = kw.get("nugget", 0.0)
        for i, n in enumerate(names[4:]):
            vals[4 + i] = kw[n] if n in kw else float(getattr(ref, n))
        if any(not math.isfinite(float(v)) for v in vals.values()):
            return
        outside = [names[i] for i, v in vals.items() if not inside(bnd[i], v)]
        if ierr is None and outside:
            self.viol("probe: out-of-bounds value accepted (constructor)",
                      "%s(%s): %s outside the default bounds %s and accepted" % (
                          self.cls, kw, outside, {n: bnd[names.index(n)] for n in outside}),
                      "accepted-out-of-bounds:constructor")
        if ierr is not None and ierr[0] == 0 and ierr[1] in vals and not outside and "len_low" not in kw:
            a = ierr[1]
            self.viol("probe: value inside its bounds rejected (constructor)",
                      "%s(%s): rejected because of %s = %r, which lies inside its default bounds %s (error case %d)" % (
                          self.cls, kw, names[a], vals[a], bnd[a], ierr[2]),
                      "rejected-inside-bounds:constructor",
                      dict(parameter=names[a], bounds=list(bnd[a]), value=vals[a]))

    def same_err(self, ierr, merr, neg_len_low):
        """error kind, argument and case must agree; exception: a negative (hence rejected) len_low on a TPL class -
        Python's float power of the negative base is complex, C pow gives NaN, so check_arg_bounds stops at `var`
        in the implementation and at `len_low` in the model: both reject with a bounds error, the argument named differs"""
        if tuple(ierr) == tuple(merr):
            return True
        return bool(neg_len_low and self.cls in TPL and ierr[0] == 0 and merr[0] == 0)

    def compare(self, at):
        mo = obs_model(self.drv, self.ci, self.ms)
        bad = cmp_obs(mo, self.o, self.cls, self.loose_len)
        if bad:
            self.tie_bad.append(dict(at=at, fields=bad,
                                     impl={f: np.asarray(self.o[f]).tolist() for f in bad},
                                     model={f: np.asarray(mo[f]).tolist() for f in bad}))
        return mo

    # ---- probes on the implementation alone
    def shape_probe(self, at):
        o = self.o
        d = o["dim"]
        ok = (d >= 1 and len(o["anis"]) == d - 1 and len(o["angles"]) == noa(d) and bool(np.all(o["anis"] > 0))
              and len(o["len_scale_vec"]) == d and o["field_dim"] == o["spatial_dim"] + int(o["temporal"]))
        if o["latlon"]:
            ok = ok and d == 3 + int(o["temporal"]) and bool(np.all(o["anis"][:2] == 1.0)) and bool(np.all(o["angles"] == 0.0)) \
                and o["spatial_dim"] == 2 and o["field_dim"] + 1 == d
        else:
            ok = ok and o["field_dim"] == d
        if o["temporal"]:
            ok = ok and bool(np.all(o["angles"][noa(d - 1):] == 0.0))
        ok = ok and C.bit_equal(o["sill"], o["var"] + o["nugget"])
        ok = ok and C.bit_equal(o["len_scale_vec"], np.concatenate([[o["len_scale"]], o["len_scale"] * o["anis"]]))
        ok = ok and o["rescale"] >= 0
        if not ok:
            self.viol("probe: shape invariant / derived quantities after " + at,
                      "%s (%s): counts of ratios/angles, lat-lon / temporal constraints or derived quantities inconsistent" % (self.cls, self.kind),
                      "shape:%s" % at.split(":")[0], dict(observed={k: np.asarray(v).tolist() for k, v in o.items()}))

    def step(self, op):
        ctx = self.ctx
        before = self.o
        ffb = frame_fields(before)
        self.ops_done.append(op)
        # expectation of rejection from the property statement (independent membership test)
        must_reject = None
        b = before["bounds"]
        k = op["k"]
        if k == "nugget" and not inside(b[2], op["v"]):
            must_reject = "nugget"
        elif k == "opt" and not inside(b[4 + op["i"]], op["v"]):
            must_reject = self.optn[op["i"]]
        elif k == "len_scale" and not inside(b[1], op["v"][0]):
            must_reject = "len_scale"
        elif k in ("var", "var_raw") and self.cls not in TPL and not inside(b[0], op["v"]):
            must_reject = "var"
        d0 = before["dim"]
        if must_reject is None and k in ("len_scale", "integral_scale") and np.isnan(np.array(op["v"][:d0], dtype=float)).any():
            must_reject = "len_scale"                           # a NaN scale or ratio lies in no interval
        if must_reject is None and k == "anis" and np.isnan(np.array(op["v"][:max(d0 - 1, 0)], dtype=float)).any():
            must_reject = "anis"
        try:
            apply_impl(self.m, op, self.optn)
            ierr = None
        except (ValueError, IndexError) as e:
            ierr = classify(e, self.names)
            if ierr is None:
                self.viol("probe: unexpected exception", "%s: %s" % (type(e).__name__, e), "exception:%s" % k)
                return False
        except (ZeroDivisionError, FloatingPointError, OverflowError):
            ctx.count(None, hist=dict(outcome="arith-exception (history ends, not compared)"))
            return False
        st, val = apply_model(self.drv, self.ci, self.ms, op, self.optn)
        if ierr is not None and ierr[0] == 0 and not math.isfinite(b[ierr[1]][0 if ierr[2] in (1, 2) else 1]) \
                and not (st == "err" and tuple(val) == tuple(ierr)):
            # a value overflowed to +-inf and hit an infinite bound end (None in the model, which only rejects NaN there):
            # values equal to an infinity are outside the modelled space
            ctx.count(None, hist=dict(outcome="infinite value rejected (history ends, not compared)"))
            return False
        outcome = "ok" if ierr is None else ERR[ierr[0]]
        ctx.count((self.cls, self.kind, k, outcome), hist=dict(op=k, outcome=outcome, cls=self.cls, kind=self.kind,
                                                                dim=before["dim"]))
        if must_reject and ierr is None:
            self.viol("probe: out-of-bounds value accepted",
                      "%s (%s): %s := %r lies outside its bounds %s and was accepted" % (
                          self.cls, self.kind, must_reject, op["v"], b[self.names.index(must_reject)].tolist()),
                      "accepted-out-of-bounds:%s" % k)
        if ierr is not None:
            # documented interval semantics, independent of the model: the implementation names a parameter as out of
            # bounds although the value just assigned to it lies inside its interval
            assigned = None
            if k == "nugget":
                assigned = (2, op["v"])
            elif k == "opt":
                assigned = (4 + op["i"], op["v"])
            elif k == "len_scale":
                assigned = (1, op["v"][0])
            elif k in ("var", "var_raw") and self.cls not in TPL:
                assigned = (0, op["v"])
            if ierr[0] == 0 and assigned and assigned[0] == ierr[1] and inside(b[ierr[1]], assigned[1]):
                self.viol("probe: value inside its bounds rejected",
                          "%s (%s): %s := %r lies inside its bounds %s and was rejected (error case %d)" % (
                              self.cls, self.kind, self.names[ierr[1]], assigned[1], b[ierr[1]].tolist(), ierr[2]),
                          "rejected-inside-bounds:%s" % k,
                          dict(parameter=self.names[ierr[1]], bounds=b[ierr[1]].tolist(), value=assigned[1]))
            elif ierr[0] == 0 and st == "ok":
                # model accepts, implementation rejects: re-check the state the assignment leads to (as the model
                # computed it) against the documented interval of the parameter the implementation complains about
                mo = obs_model(self.drv, self.ci, val)
                vals = [mo["var"], mo["len_scale"], mo["nugget"], mo["anis"]] + list(mo["opts"])
                a = ierr[1]
                if a < len(vals) and np.all(np.isfinite(np.atleast_1d(vals[a]))) and inside(mo["bounds"][a], vals[a]):
                    self.viol("probe: value inside its bounds rejected",
                              "%s (%s): after %s the parameter %s = %s lies inside its bounds %s but the assignment was rejected (error case %d)" % (
                                  self.cls, self.kind, k, self.names[a], np.asarray(vals[a]).tolist(), mo["bounds"][a].tolist(), ierr[2]),
                              "rejected-inside-bounds:%s" % k,
                              dict(parameter=self.names[a], bounds=mo["bounds"][a].tolist(), value=np.asarray(vals[a]).tolist()))
            neg_low = k == "opt" and self.optn[op["i"]] == "len_low" and op["v"] < 0
            if st != "err" or not self.same_err(ierr, val, neg_low):
                self.tie_bad.append(dict(at="step %d %s" % (len(self.ops_done), k), impl=str(ierr), model=[st, str(val)]))
            return False                                    # a raising assignment ends the history
        if st == "err":
            # implementation accepts, model rejects: re-check the implementation's new state against the documented intervals
            o_new = obs_impl(self.m, self.cls)
            checked_op = k in VALUE_SETTERS or (k == "set_arg_bounds" and op["chk"] and all_inside(before))
            if checked_op and not all_inside(o_new):
                self.viol("probe: out-of-bounds value accepted",
                          "%s (%s): after %s a parameter lies outside its bounds (accepted by the implementation)" % (self.cls, self.kind, k),
                          "accepted-out-of-bounds:%s" % k, dict(observed={f: np.asarray(v).tolist() for f, v in o_new.items()}))
            self.tie_bad.append(dict(at="step %d %s" % (len(self.ops_done), k), impl="ok", model=str(val)))
            return False
        self.ms = val
        if k == "integral_scale":
            self.loose_len = True
        if k in ("set_arg_bounds", "bounds_prop"):
            self.bounds_ops = True
        behave(self.m, touch=True)                              # may fill caches: later results must still be fresh
        self.o = obs_impl(self.m, self.cls)
        if self.o["dim"] != before["dim"]:
            self.dim_changed = True
        at = "step %d %s" % (len(self.ops_done), k)
        self.compare(at)
        if k == "len_scale":
            self.doc_probe("len_scale setter", op["v"], None, None)
        elif k == "integral_scale":
            self.doc_probe("integral_scale setter", op["v"], None, None, len_is_main=False)
        elif k == "anis":
            self.doc_probe("anis setter", None, op["v"], None)
        elif k == "angles":
            self.doc_probe("angles setter", None, None, op["v"])
        elif k == "var":
            self.var_roundtrip("setter", op["v"])
        # frame
        ffa = frame_fields(self.o)
        may = touched(op, before, self.optn)
        changed = [f for f in ffb if not same_val(ffb[f], ffa[f], True) and f not in may]
        if changed:
            key = "frame:%s:%s" % (k, ",".join(sorted(changed)))
            if k == "len_scale" and changed == ["anis"] and self.latlon and self.temporal:
                key = KEY_FIXED
            self.viol("probe: frame condition of " + k,
                      "%s (%s): assigning %s changed %s (before %s, after %s)" % (
                          self.cls, self.kind, k, changed, [np.asarray(ffb[f]).tolist() for f in changed],
                          [np.asarray(ffa[f]).tolist() for f in changed]), key)
        if self.cls not in TPL and not same_val(self.o["var"], self.o["var_raw"], True):
            self.viol("probe: var of a non-TPL class", "var != var_raw", "var-coupling")
        # bounds after a value assignment / after set_arg_bounds(check_args=True) on a state that was inside
        was_inside = all_inside(before)
        checked_bounds_op = k == "set_arg_bounds" and op["chk"] and was_inside
        plain_rescale = k == "rescale" and self.cls not in TPL and was_inside
        if (k in VALUE_SETTERS or checked_bounds_op or plain_rescale) and not all_inside(self.o):
            self.viol("probe: value outside its bounds after a successful assignment",
                      "%s (%s): after %s a parameter lies outside its bounds" % (self.cls, self.kind, k),
                      "outside-after:%s" % k, dict(observed={f: np.asarray(v).tolist() for f, v in self.o.items()}))
        self.shape_probe(at)
        return True

    def fresh_probe(self, rng):
        """final object == object constructed directly from the resulting values (== and attribute-wise);
        the model's constructor applied to the model state returns the model state"""
        o = self.o
        if not all_inside(o):
            self.ctx.count(None, hist=dict(fresh="skipped: unchecked bounds left a value outside"))
            return
        if any(np.isnan(np.asarray(o[f], dtype=float)).any() for f in ("var", "var_raw", "len_scale", "nugget", "anis", "angles", "opts", "rescale")):
            # == is defined through np.isclose, NaN never equals NaN: outside the quantifier space
            self.ctx.count(None, hist=dict(fresh="skipped: NaN value"))
            return
        # executable instance of C14_reachable_canonical
        st, val = res_state(self.drv.call("canon", ("n", self.ci), *st_args(self.ms)))
        if st != "ok" or not all(same_val(a, b, True) for a, b in zip(val, self.ms)):
            self.tie_bad.append(dict(at="canon", model=[st, str(val)]))
        defb = default_bounds_impl(self.Cls, o)
        is_default = same_val(defb, o["bounds"], True)
        use_var = self.cls not in TPL and rng.random() < 0.5
        kw = fresh_kwargs(self.m, o, self.optn, use_var)
        stale = (not is_default) and (not self.bounds_ops)
        if stale:
            # only a dim assignment on a class with dimension-dependent default bounds can do this
            key = KEY_STALE if (self.cls in DIMDEP and self.dim_changed) else "bounds-changed-without-bounds-op"
            try:
                self.Cls(**kw)
                raised = None
            except ValueError as e:
                raised = str(e)
            self.viol("probe: final object vs directly constructed object",
                      "%s: after dim assignments the bounds of the optional argument are %s but %s(dim=%d) has %s%s" % (
                          self.cls, o["bounds"][4:].tolist(), self.cls, o["dim"], defb[4:].tolist(),
                          "; constructing the model directly from the resulting values raises: " + raised if raised else ""),
                      key)
            self.ctx.count((self.cls, self.kind, "fresh", "stale"), hist=dict(fresh="stale default bounds (finding)"))
        Fc = self.Cls if is_default else subclass_with_bounds(self.Cls, self.m)
        try:
            f = Fc(**kw)
        except Exception as e:
            if not stale:
                self.viol("probe: final object vs directly constructed object",
                          "%s (%s): constructing from the resulting values raises %s: %s" % (self.cls, self.kind, type(e).__name__, e),
                          "fresh-raises", dict(fresh_kwargs=kw))
            return
        fo = obs_impl(f, self.cls)
        diff = [k for k in o if not same_val(o[k], fo[k], True)]
        eq = bool(self.m == f) and bool(f == self.m)
        self.ctx.count((self.cls, self.kind, "fresh", "var" if use_var else "var_raw", is_default),
                       hist=dict(fresh="compared (%s bounds)" % ("default" if is_default else "assigned")))
        bdiff = behaviour_diff(behave(self.m, heavy=True), behave(f, heavy=True))
        if bdiff and not [x for x in diff if x != "sft_ndim"]:
            self.viol("probe: behaviour of the final object vs a directly constructed object",
                      "%s (%s): all parameters equal, but %s differ (stale derived state)" % (self.cls, self.kind, bdiff),
                      "behaviour-differs:%s" % ",".join(sorted(bdiff)), dict(fresh_kwargs=kw))
        if diff or not eq:
            self.viol("probe: final object vs directly constructed object",
                      "%s (%s): history and direct construction differ in %s (== gives %s)" % (self.cls, self.kind, diff, eq),
                      "fresh-differs:%s" % ",".join(sorted(diff)),
                      dict(fresh_kwargs=kw, final={k: np.asarray(o[k]).tolist() for k in diff},
                           fresh={k: np.asarray(fo[k]).tolist() for k in diff}))


_NAMES = {}


def names_of(cls):
    if cls not in _NAMES:
        _NAMES[cls] = list(getattr(gs(), cls)().arg_bounds)
    return _NAMES[cls]


def run_history(ctx, drv, rng, cls, kind, latlon, temporal, n_ops, tie_log):
    h = History(ctx, drv, cls, kind, latlon, temporal)
    kw, given, margs, eff = gen_ctor(rng, cls, latlon, temporal, drv, h.ci)
    for i, v in given.items():
        kw[names_of(cls)[4 + int(i)]] = v
    ctx.count((cls, kind, "construct"), hist=dict(op="construct", cls=cls, kind=kind))
    ok = h.construct(kw, margs)
    ctx.sample(dict(cls=cls, kind=kind, ctor=h.case()["ctor"]))
    if ok:
        alive = True
        for _ in range(n_ops):
            if not h.step(gen_op(rng, cls, h.o, h.optn)):
                alive = False
                break
            if rng.random() < 0.3:
                h.fresh_probe(rng)
        if alive:
            h.fresh_probe(rng)
    if h.tie_bad:
        tie_log.append(dict(case=h.case(), disagreements=h.tie_bad[:3]))
    return h


# --------------------------------------------------------------------------- deterministic witnesses

def witness_probes(ctx, drv):
    g = gs()
    # 1. the repaired defect: lat-lon + temporal, len_scale assignment keeps the temporal ratio
    for val, form in ((2.0, "scalar"), ([2.0], "one-element list"), ([2.0, 3.0, 4.0, 5.0], "list")):
        m = g.Gaussian(latlon=True, temporal=True, anis=[1, 1, 0.3])
        m.len_scale = val
        exp = [1.0, 1.0, 0.3] if form != "list" else [1.0, 1.0, 2.5]
        ctx.count(("witness", "latlon+temporal len_scale", form), hist=dict(op="witness"))
        if not C.bit_equal(np.array(m.anis), np.array(exp)):
            ctx.violation("probe: frame condition of len_scale (lat-lon + temporal)",
                          "Gaussian(latlon=True, temporal=True, anis=[1,1,0.3]); m.len_scale = %r gives anis %s, expected %s" % (
                              val, np.array(m.anis).tolist(), exp),
                          dict(cls="Gaussian", kind="latlon+temporal", ctor=dict(latlon=True, temporal=True, anis=[1, 1, 0.3]),
                               ops=[dict(k="len_scale", v=val if isinstance(val, list) else [val], scalar=True)]),
                          key=KEY_FIXED)
        fresh = g.Gaussian(latlon=True, temporal=True, len_scale=float(m.len_scale), anis=list(m.anis))
        if not (m == fresh):
            ctx.violation("probe: final object vs directly constructed object (lat-lon + temporal)",
                          "after m.len_scale = %r the model differs from the directly constructed one" % (val,),
                          dict(cls="Gaussian", kind="latlon+temporal"), key=KEY_FIXED)
    # the model of the pinned setter reproduces the old behaviour, the model of the repaired one the new
    ci = CLASSES.index("Gaussian")
    margs = dict(iargs=[3, 0, 3, 1, 1, 0, 0, 1], fargs=[1.0, 0.0, 0.0], len=[1.0], anis=[1.0, 1.0, 0.3], angles=[0.0], opts=[])
    st, ms = model_construct(drv, ci, margs)
    op = dict(k="len_scale", v=[2.0])
    st1, a = apply_model(drv, ci, ms, op, [], fn="step_pinned")
    st2, b = apply_model(drv, ci, ms, op, [], fn="step")
    if not (st1 == "ok" and st2 == "ok" and list(a[4]) == [1.0, 1.0, 1.0] and list(b[4]) == [1.0, 1.0, 0.3]):
        ctx.notes.append("model of pinned / repaired len_scale setter unexpected: %r %r" % (a, b))
        return ["pinned/repaired setter model"]
    # 2. open finding: dim assignment keeps the dimension-dependent default bounds of the old dimension
    for cls, d0, d1 in (("SuperSpherical", 2, 3), ("TPLSimple", 2, 3), ("JBessel", 2, 5)):
        m = getattr(g, cls)(dim=d0)
        m.dim = d1
        ctx.count(("witness", "stale bounds", cls), hist=dict(op="witness"))
        try:
            getattr(g, cls)(dim=d1, nu=m.nu)
        except ValueError as e:
            ctx.violation("probe: final object vs directly constructed object",
                          "%s(dim=%d); m.dim = %d keeps nu = %r with bounds %s; %s(dim=%d, nu=%r) raises: %s" % (
                              cls, d0, d1, m.nu, m.opt_arg_bounds, cls, d1, m.nu, e),
                          dict(cls=cls, kind="plain", ctor=dict(dim=d0), ops=[dict(k="dim", v=d1)]), key=KEY_STALE)
    return []


# --------------------------------------------------------------------------- constructor == assignment history == rebuilt (implementation only)

QUAD_OK = [c for c in CLASSES if c != "JBessel"]       # JBessel: quad of the oscillating correlation, setter refuses


def _inside_value(rng, b):
    lo, hi = float(b[0]), float(b[1])
    if math.isfinite(lo) and math.isfinite(hi):
        return float(lo + (hi - lo) * rng.uniform(0.1, 0.9))
    if math.isfinite(lo):
        return float(lo + np.exp(rng.normal(0, 0.7)))
    return float(rng.normal(0, 1))


def gen_cvs(rng, cls, kind, ll, tt):
    """a constructor call with valid values for a random subset of the arguments, and an order in which the same
    values are assigned to a default-constructed model.  The order respects what the constructor itself does:
    ratios before a list of length scales (the list wins), rescale and optional arguments before integral_scale
    (it is computed from them), and on the truncated-power-law classes var after everything var_factor depends on."""
    Cls = getattr(gs(), cls)
    base = dict(latlon=ll, temporal=tt)
    if not ll:
        base["dim"] = int(rng.integers(1, 5))
    ref = Cls(**base)
    eff = int(ref.dim)
    names = list(ref.arg_bounds)
    vals = {}
    vals["var_raw" if rng.random() < 0.3 else "var"] = pos(rng)

    def scale_list():
        form = rng.choice(["scalar", "one", "short", "full", "long"])
        n = {"scalar": 1, "one": 1, "short": int(rng.integers(2, max(eff, 3))), "full": eff, "long": eff + 1}[str(form)]
        v = [pos(rng) for _ in range(max(n, 1))]
        return v[0] if form == "scalar" else v
    r = rng.random()
    if r < 0.45:
        vals["len_scale"] = scale_list()
    elif r < 0.8 and cls in QUAD_OK:
        vals["integral_scale"] = scale_list()
    if rng.random() < 0.6:
        n = int(rng.integers(0, eff + 1))
        vals["anis"] = pos(rng) if rng.random() < 0.3 else [pos(rng) for _ in range(n)]
    if rng.random() < 0.6:
        n = int(rng.integers(0, noa(eff) + 2))
        vals["angles"] = float(rng.uniform(-3, 3)) if rng.random() < 0.3 else [float(rng.uniform(-3, 3)) for _ in range(n)]
    if rng.random() < 0.5:
        vals["nugget"] = pos(rng) * 0.3
    if rng.random() < 0.4:
        vals["rescale"] = pos(rng)
    for n in names[4:]:
        if rng.random() < 0.5:
            vals[n] = _inside_value(rng, norm_bnd(ref.arg_bounds[n]))
    keys = list(vals)
    scale = "len_scale" if "len_scale" in vals else ("integral_scale" if "integral_scale" in vals else None)
    before = []                                                  # (a, b): a must be assigned before b
    if scale and "anis" in vals:
        before.append(("anis", scale))
    if "integral_scale" in vals:
        before += [(n, "integral_scale") for n in keys if n == "rescale" or n in names[4:]]
    if cls in TPL and "var" in vals:
        before += [(n, "var") for n in keys if n in ("rescale", "len_scale", "integral_scale") or n in names[4:]]
    for _ in range(200):
        order = [keys[i] for i in rng.permutation(len(keys))]
        if all(order.index(a) < order.index(b) for a, b in before):
            break
    else:
        order = sorted(keys, key=lambda n: (n == "var", n in ("len_scale", "integral_scale"), n == "anis"))
        order = [n for n in keys if n not in ("anis", "len_scale", "integral_scale", "var")] + \
                [n for n in ("anis", "len_scale", "integral_scale", "var") if n in keys]
    return dict(probe="ctor-vs-setters", cls=cls, kind=kind, base=base, vals=vals, order=order)


def run_cvs(ctx, cfg):
    cls, kind = cfg["cls"], cfg["kind"]
    Cls = getattr(gs(), cls)
    base, vals, order = cfg["base"], cfg["vals"], cfg["order"]
    cp = lambda v: list(v) if isinstance(v, list) else v
    ctx.count((cls, kind, "ctor-vs-setters", tuple(sorted(k if k in ("var", "var_raw", "len_scale", "integral_scale", "anis", "angles", "nugget", "rescale") else "opt" for k in vals))),
              hist=dict(op="ctor-vs-setters"))

    def attempt(fn):
        try:
            return fn(), None
        except (ValueError, IndexError) as e:
            return None, "%s: %s" % (type(e).__name__, e)
        except (ZeroDivisionError, FloatingPointError, OverflowError) as e:
            return None, "arith"
    A, ea = attempt(lambda: Cls(**base, **{k: cp(v) for k, v in vals.items()}))

    def by_setters():
        B = Cls(**base)
        for n in order:
            setattr(B, n, cp(vals[n]))
            behave(B, touch=True)
        return B
    B, eb = attempt(by_setters)
    if ea == "arith" or eb == "arith" or (ea and eb):
        ctx.count(None, hist=dict(outcome="ctor-vs-setters: both raise (%s) - not compared" % str(ea)[:60]))
        return
    case = json.loads(json.dumps(cfg))
    if ea or eb:
        ctx.violation("probe: constructor vs assignment history",
                      "%s (%s): %s(**%s) %s but assigning the same valid values in the order %s %s" % (
                          cls, kind, cls, dict(base, **vals), "raises " + ea if ea else "succeeds", order,
                          "raises " + eb if eb else "succeeds"), case, key="ctor-vs-setters:one-raises")
        return
    oa, ob = obs_impl(A, cls), obs_impl(B, cls)
    if "var" in vals and math.isfinite(oa["var_factor"]) and oa["var_factor"] > 0 and not C.close(oa["var"], vals["var"], rtol=1e-12):
        ctx.violation("probe: variance getter after constructing with var=",
                      "%s (%s): %s(**%s).var = %r, expected %r" % (cls, kind, cls, dict(base, **vals), oa["var"], vals["var"]),
                      case, key="var-roundtrip:constructor")
    diff = [k for k in oa if not same_val(oa[k], ob[k], True)]
    bdiff = behaviour_diff(behave(A, heavy=True), behave(B, heavy=True))
    if diff or bdiff or not (A == B and B == A):
        ctx.violation("probe: constructor vs assignment history",
                      "%s (%s): %s(**%s) differs from the model reached by assigning the same values in the order %s: %s%s" % (
                          cls, kind, cls, dict(base, **vals), order,
                          {k: (np.asarray(oa[k]).tolist(), np.asarray(ob[k]).tolist()) for k in diff[:6]},
                          " behaviour: %s" % bdiff if bdiff else ""), case,
                      key="ctor-vs-setters:%s" % ",".join(sorted(diff) or sorted(bdiff) or ["=="]))
    # third leg: rebuilt from the reported parameters
    names = list(A.arg_bounds)
    kw3 = dict(base, var_raw=oa["var_raw"], len_scale=oa["len_scale"], anis=[float(x) for x in oa["anis"]],
               angles=[float(x) for x in oa["angles"]], nugget=oa["nugget"], rescale=oa["rescale"])
    for i, n in enumerate(names[4:]):
        kw3[n] = float(oa["opts"][i])
    Cm, ec = attempt(lambda: Cls(**kw3))
    if ec:
        ctx.violation("probe: model rebuilt from its reported parameters", "%s(**%s) raises %s" % (cls, kw3, ec), case,
                      key="rebuilt-raises")
        return
    oc = obs_impl(Cm, cls)
    diff = [k for k in oa if not same_val(oa[k], oc[k], True)]
    bdiff = behaviour_diff(behave(A, heavy=True), behave(Cm, heavy=True))
    if diff or bdiff:
        ctx.violation("probe: model rebuilt from its reported parameters",
                      "%s (%s): %s(**%s) differs from the model rebuilt from its reported parameters in %s %s" % (
                          cls, kind, cls, dict(base, **vals), diff, bdiff), case,
                      key="rebuilt-differs:%s" % ",".join(sorted(diff) or sorted(bdiff)))


# --------------------------------------------------------------------------- aliasing (implementation only)

def gen_alias(rng, cls, kind, ll, tt):
    D = 3 + int(tt) if ll else int(rng.integers(2, 5))
    lender_cls = CLASSES[int(rng.integers(len(CLASSES)))]
    cfg = dict(probe="alias", cls=cls, kind=kind, latlon=ll, temporal=tt, D=D, lender=lender_cls,
               lender_anis=[pos(rng) for _ in range(D - 1)], lender_angles=[float(rng.uniform(0.2, 3)) for _ in range(noa(D))],
               lender_len=pos(rng), params={})
    for pname, full in (("anis", D - 1), ("angles", noa(D)), ("len_scale", D)):
        src = str(rng.choice(["lender", "array-full", "array-short", "array-long", "list"]))
        n = {"array-full": full, "array-short": max(full - 1, 1), "array-long": full + 1}.get(src, full)
        vals = [pos(rng) if pname != "angles" else float(rng.uniform(0.2, 3)) for _ in range(max(n, 1))]
        cfg["params"][pname] = dict(src=src, route=str(rng.choice(["ctor", "setter"])), vals=vals)
    cfg["extra"] = [str(x) for x in rng.choice(["dim", "len_scale", "anis", "angles", "integral_scale", "nugget"], size=4)]
    return cfg


def run_alias(ctx, cfg):
    g = gs()
    cls, kind, ll, tt, D = cfg["cls"], cfg["kind"], cfg["latlon"], cfg["temporal"], cfg["D"]
    Cls = getattr(g, cls)
    ctx.count((cls, kind, "alias", tuple(sorted((p, v["src"], v["route"]) for p, v in cfg["params"].items()))), hist=dict(op="alias"))
    try:
        L = getattr(g, cfg["lender"])(dim=D, anis=list(cfg["lender_anis"]), angles=list(cfg["lender_angles"]), len_scale=cfg["lender_len"])
    except Exception:
        return
    oL = obs_impl(L, cfg["lender"])
    held = {}                                                   # caller-held arrays and their original contents
    given = {}
    for pname, pc in cfg["params"].items():
        if pc["src"] == "lender":
            given[pname] = {"anis": L.anis, "angles": L.angles, "len_scale": L.len_scale_vec}[pname]
        elif pc["src"] == "list":
            given[pname] = list(pc["vals"])
        else:
            given[pname] = np.array(pc["vals"], dtype=np.double)
        if isinstance(given[pname], np.ndarray):
            held[pname] = (given[pname], given[pname].copy())
    case = json.loads(json.dumps(cfg))

    def check(after):
        bad = [p for p, (arr, orig) in held.items() if not C.bit_equal(arr, orig)]
        oL2 = obs_impl(L, cfg["lender"])
        badL = [k for k in oL if not same_val(oL[k], oL2[k], True)]
        if bad or badL:
            ctx.violation("probe: aliasing of parameter arrays (%s)" % after,
                          "%s (%s, dim %d) built from / assigned arrays %s: after %s the caller's array(s) %s changed %s and the lending %s model changed in %s %s" % (
                              cls, kind, D, {p: v["src"] + "/" + v["route"] for p, v in cfg["params"].items()}, after, bad,
                              {p: (held[p][1].tolist(), held[p][0].tolist()) for p in bad}, cfg["lender"], badL,
                              {k: (np.asarray(oL[k]).tolist(), np.asarray(oL2[k]).tolist()) for k in badL[:3]}),
                          case, key="aliasing:%s:%s" % (",".join(sorted(bad + badL)), after.split(" ")[0]))
            return False
        return True
    base = dict(latlon=ll, temporal=tt)
    if not ll:
        base["dim"] = D
    try:
        B = Cls(**base, **{p: given[p] for p, pc in cfg["params"].items() if pc["route"] == "ctor"})
    except (ValueError, IndexError, ZeroDivisionError):
        return
    if not check("constructor"):
        return
    try:
        for p, pc in cfg["params"].items():
            if pc["route"] == "setter":
                setattr(B, p, given[p])
                if not check("setter " + p):
                    return
        for x in cfg["extra"]:
            if x == "dim" and not ll:
                B.dim = max(1, D - 1)
                B.dim = D
            elif x == "len_scale":
                B.len_scale = given["len_scale"]
            elif x == "anis":
                B.anis = given["anis"]
            elif x == "angles":
                B.angles = given["angles"]
            elif x == "integral_scale" and cls in CLOSED_INT:
                B.integral_scale = given["len_scale"]
            elif x == "nugget":
                B.nugget = 0.5
            behave(B, touch=True)
            if not check("operation " + x):
                return
    except (ValueError, IndexError, ZeroDivisionError):
        return
    # independence: the model must not keep a view of the caller's arrays
    oB = obs_impl(B, cls)
    for p, (arr, orig) in held.items():
        if cfg["params"][p]["src"] == "lender":
            continue
        arr *= 1.5
        oB2 = obs_impl(B, cls)
        arr[...] = orig
        badB = [k for k in oB if not same_val(oB[k], oB2[k], True)]
        if badB:
            ctx.violation("probe: aliasing of parameter arrays (model keeps a view)",
                          "%s (%s, dim %d): changing the caller's %s array after it was passed changes the model's %s" % (cls, kind, D, p, badB),
                          case, key="aliasing:view-of-caller:%s" % p)
            return


# --------------------------------------------------------------------------- non-finite values in every route (implementation only)

def nonfinite_probe(ctx, quick=False):
    """NaN / +-inf as a parameter value, scalar or inside a list, through constructor and setter: every parameter with
    documented bounds (var, len_scale, nugget, anis, optional arguments; integral_scale defines len_scale) must reject
    them - NaN lies in no interval, a NaN / infinite entry of a length-scale list gives a NaN / 0 / infinite ratio or
    scale, all outside (0, inf).  Not judged: angles and rescale (no documented bounds)."""
    g = gs()
    nan = float("nan")
    reported = set()
    n = 0
    for cls in CLASSES:
        if quick and cls not in ("Gaussian", "Stable", "Matern", "Cubic", "TPLStable", "TPLSimple", "JBessel"):
            continue
        Cls = getattr(g, cls)
        for kind, ll, tt in KINDS:
            base = dict(latlon=ll, temporal=tt)
            if not ll:
                base["dim"] = 3
            ref = Cls(**base)
            forms = {
                "var": [nan, INF, -INF], "var_raw": [nan, INF, -INF], "nugget": [nan, INF, -INF],
                "len_scale": [nan, INF, -INF, [nan], [1.0, nan], [nan, 1.0], [1.0, 2.0, nan], [1.0, INF], [INF, 1.0], [1.0, -INF]],
                "anis": [nan, INF, [nan], [0.5, nan], [nan, 0.5], [0.5, INF]],
            }
            if cls in QUAD_OK:
                forms["integral_scale"] = [nan, [nan], [1.0, nan], [nan, 1.0], [1.0, INF], INF]
            for on in list(ref.arg_bounds)[4:]:
                forms[on] = [nan] if cls in TPL else [nan, INF, -INF]
            if cls in TPL:
                forms["var"], forms["var_raw"] = [nan], [nan]
            if ll:
                # lat-lon: the spatial ratios are overwritten by 1 (space stays isotropic), so an infinite entry in
                # such a position is legitimately ignored; NaN is still refused by the ratio test
                for q in ("len_scale", "anis", "integral_scale"):
                    if q in forms:
                        forms[q] = [v for v in forms[q] if "inf" not in str(v) or (q != "anis" and not isinstance(v, list))]
            for pname, vs in forms.items():
                for v in vs:
                    for via in ("constructor", "setter"):
                        cp = lambda x: list(x) if isinstance(x, list) else x
                        if via == "constructor":
                            got = _accepted(lambda: Cls(**base, **{pname: cp(v)}))
                        else:
                            m = Cls(**base)
                            got = _accepted(lambda: setattr(m, pname, cp(v)))
                        n += 1
                        ptype = pname if pname in ("var", "var_raw", "nugget", "len_scale", "anis", "integral_scale") else "opt"
                        ctx.count(("non-finite", cls, kind, ptype, via), hist=dict(op="non-finite"))
                        if got is not True:
                            continue
                        form = ("list" if isinstance(v, list) else "scalar") + ":" + ("nan" if "nan" in str(v) else "inf")
                        key = "non-finite:%s:%s:%s" % (ptype, form, via)
                        if key in reported:
                            continue
                        reported.add(key)
                        ops = [] if via == "constructor" else [dict(k="opt" if ptype == "opt" else pname, v=v)]
                        ctx.violation("probe: non-finite parameter value accepted (%s)" % via,
                                      "%s (%s): %s = %r is accepted (%s); NaN / infinite values lie outside every documented interval" % (cls, kind, pname, v, via),
                                      dict(probe="non-finite", cls=cls, kind=kind, parameter=pname, value=repr(v), via=via), key=key)
    ctx.notes.append("non-finite probe: %d constructor calls / assignments with NaN or infinite values" % n)


# --------------------------------------------------------------------------- bounds on coupled quantities (histories through the model too)

def run_coupled(ctx, drv, rng, cls, kind, latlon, temporal, tie_log):
    """finite bounds assigned to a quantity that OTHER parameters move (TPL variance <- hurst, len_low, len_scale;
    ratios <- list-valued len_scale / integral_scale / dim; len_scale <- integral_scale), then assignments of those other
    parameters: an accepted assignment must leave every parameter inside its bounds (the Coq invariant InB)."""
    h = History(ctx, drv, cls, kind, latlon, temporal)
    for _ in range(6):
        kw, given, margs, eff = gen_ctor(rng, cls, latlon, temporal, drv, h.ci)
        kw.pop("integral_scale", None); margs.pop("int", None)
        for i, v in given.items():
            kw[names_of(cls)[4 + int(i)]] = v
        h = History(ctx, drv, cls, kind, latlon, temporal)
        if h.construct(kw, margs):
            break
    else:
        return
    o = h.o
    d = o["dim"]
    scripts = ["len"]
    if cls in TPL and math.isfinite(o["var"]) and o["var"] > 0:
        scripts += ["var-tpl"] * 3
    if d >= 2 and not latlon:
        scripts += ["anis"] * 2
    sc = scripts[int(rng.integers(len(scripts)))]
    f = lambda: float(rng.choice([0.2, 0.5, 2.0, 5.0]))
    if sc == "var-tpl":
        ops = [dict(k="set_arg_bounds", chk=True, kw=[("var", (o["var"] * 0.7, o["var"] * 1.3, "cc"))])]
        cands = [dict(k="opt", i=0, v=float(rng.uniform(0.12, 0.98))),
                 dict(k="opt", i=len(h.optn) - 1, v=pos(rng) * 2),
                 dict(k="len_scale", v=[o["len_scale"] * f()], scalar=True),
                 dict(k="len_scale", v=[o["len_scale"] * f()] + [pos(rng) for _ in range(d - 1)], scalar=False)]
    elif sc == "anis":
        lo, hi = float(np.min(o["anis"])) * 0.8, float(np.max(o["anis"])) * 1.2
        ops = [dict(k="set_arg_bounds", chk=True, kw=[("anis", (lo, hi, "cc"))])]
        cands = [dict(k="len_scale", v=[o["len_scale"]] + [o["len_scale"] * f() for _ in range(d - 1)], scalar=False),
                 dict(k="dim", v=d + 1), dict(k="anis", v=[f()], scalar=True)]
        if cls in CLOSED_INT:
            cands.append(dict(k="integral_scale", v=[1.0] + [f() for _ in range(d - 1)], scalar=False))
    else:
        ops = [dict(k="set_arg_bounds", chk=True, kw=[("len_scale", (o["len_scale"] * 0.7, o["len_scale"] * 1.3, "cc"))])]
        cands = [dict(k="len_scale", v=[o["len_scale"] * f()], scalar=True), dict(k="dim", v=max(1, d - 1))]
        if cls in CLOSED_INT:
            cands += [dict(k="integral_scale", v=[o["len_scale"] * f()], scalar=True)] * 2
    ops += [cands[int(rng.integers(len(cands)))] for _ in range(2)]
    ctx.count((cls, kind, "coupled-bounds", sc), hist=dict(op="coupled-bounds:" + sc))
    alive = True
    for op in ops:
        if not h.step(op):
            alive = False
            break
    if alive:
        for _ in range(3):
            if not h.step(gen_op(rng, cls, h.o, h.optn)):
                alive = False
                break
    if alive:
        h.fresh_probe(rng)
    if h.tie_bad:
        tie_log.append(dict(case=h.case(), disagreements=h.tie_bad[:3]))


# --------------------------------------------------------------------------- boundary sweep (implementation only)

ITYPES = ["oo", "oc", "co", "cc"]


def _assign(m, pname, v):
    if pname == "anis":
        m.anis = [v]
    else:
        setattr(m, pname, v)


def _accepted(fn):
    """True accepted, False rejected (ValueError), None arithmetic exception (not judged)"""
    try:
        fn()
        return True
    except ValueError:
        return False
    except (ZeroDivisionError, FloatingPointError, OverflowError, TypeError):
        return None


_SUBS = {}


def _sub_with(Cls, pname, bnd):
    key = (Cls.__name__, pname, tuple(bnd))
    if key not in _SUBS:
        _SUBS[key] = _sub_make(Cls, pname, bnd)
    return _SUBS[key]


def _sub_make(Cls, pname, bnd):
    ref = Cls(dim=2)
    std = {k: ref.arg_bounds[k] for k in STD}
    ob = dict(ref.opt_arg_bounds)
    (std if pname in STD else ob)[pname] = bnd
    return type(Cls.__name__, (Cls,), {"default_arg_bounds": lambda self: dict(std),
                                       "default_opt_arg_bounds": lambda self: dict(ob)})


def boundary_sweep(ctx, only_cls=None, quick=False):
    """every parameter with bounds x the four interval types (installed by set_arg_bounds, by the *_bounds property,
    as class defaults, or left at the shipped defaults) x values on each end, one ulp inside and outside, and +-inf at
    an infinite end: accepted iff the value lies in the documented interval, through the setter and the constructor.
    Plain 2-D models (one anisotropy ratio).  Not judged: var and len_scale of the truncated-power-law classes and
    infinite values there (their variance is var_raw * var_factor(len_scale, ...): the var check interferes)."""
    g = gs()
    n = 0
    reported = set()
    for cls in CLASSES:
        if only_cls and cls != only_cls:
            continue
        Cls = getattr(g, cls)
        ref = Cls(dim=2)
        names = list(ref.arg_bounds)
        tpl = cls in TPL
        for pname in names:
            if tpl and pname in ("var", "len_scale"):
                continue
            if quick and pname in STD and cls not in ("Gaussian", "Stable", "JBessel", "TPLStable"):
                continue                # var / len_scale / nugget / anis share one code path in every class
            dlo, dhi, dlc, dhc = norm_bnd(ref.arg_bounds[pname])
            dtype = ("c" if dlc else "o") + ("c" if dhc else "o")
            lo, hi = (dlo, dhi) if (pname not in STD and math.isfinite(dlo) and math.isfinite(dhi)) else (0.5, 2.0)
            # (route, bounds tuple handed to the implementation or None for shipped defaults, (lo, hi, type))
            configs = [("shipped-defaults", None, (dlo, dhi, dtype))]
            for t in ITYPES:
                configs.append(("set_arg_bounds", [lo, hi, t], (lo, hi, t)))
                if pname in STD:
                    configs.append(("bounds-property", [lo, hi, t], (lo, hi, t)))
                configs.append(("class-defaults", [lo, hi, t], (lo, hi, t)))
                if not tpl or pname == "nugget":
                    configs.append(("set_arg_bounds", [-INF, hi, t], (-INF, hi, t)))
                    configs.append(("set_arg_bounds", [lo, INF, t], (lo, INF, t)))
                    configs.append(("class-defaults", [lo, INF, t], (lo, INF, t)))
            configs.append(("set_arg_bounds", [lo, hi], (lo, hi, "cc")))        # two-element form = closed
            for route, given, (blo, bhi, t) in configs:
                b4 = (blo, bhi, 1.0 if t[0] == "c" else 0.0, 1.0 if t[1] == "c" else 0.0)
                vals = []
                for e in (blo, bhi):
                    if math.isfinite(e):
                        vals += [e, float(np.nextafter(e, INF)), float(np.nextafter(e, -INF))]
                    elif not tpl or pname == "nugget":
                        vals.append(e)
                if not tpl or pname == "nugget":
                    vals += [v for v in (INF, -INF) if v not in vals]   # an infinity is outside unless the end is closed at it
                if pname == "anis":
                    vals = [v for v in vals if v > 0]          # ratios <= 0 are rejected before any bounds check
                if tpl and pname != "nugget":
                    vals = [v for v in vals if math.isfinite(v)]
                vals.append(float("nan"))                      # NaN lies in no interval: always to be rejected
                if pname == "len_low":
                    vals = [v for v in vals if v >= 0 or not tpl]

                def fresh():
                    if route == "class-defaults":
                        mid = (blo + bhi) / 2 if (math.isfinite(blo) and math.isfinite(bhi)) else (
                            blo + 1.0 if math.isfinite(blo) else bhi - 1.0)
                        return _sub_with(Cls, pname, given)(dim=2, **{pname: ([mid] if pname == "anis" else mid)})
                    m = Cls(dim=2)
                    if route == "set_arg_bounds":
                        m.set_arg_bounds(check_args=False, **{pname: given})
                    elif route == "bounds-property":
                        setattr(m, pname + "_bounds", given)
                    return m

                m = None
                for v in vals:
                    expect = inside(b4, v)
                    for via in ("setter", "constructor"):
                        if via == "constructor" and route in ("set_arg_bounds", "bounds-property"):
                            continue                            # bounds are not constructor arguments
                        if via == "setter":
                            if m is None:
                                m = fresh()
                            got = _accepted(lambda: _assign(m, pname, v))
                            if got is not True:
                                m = None                        # the object after a raise is not claimed
                        else:
                            K = Cls if route == "shipped-defaults" else _sub_with(Cls, pname, given)
                            got = _accepted(lambda: K(dim=2, **{pname: ([v] if pname == "anis" else v)}))
                        n += 1
                        ptype = pname if pname in STD else "opt"
                        ctx.count(("boundary", cls, ptype, t, route, via), hist=dict(op="boundary-sweep"))
                        if got is None or got == expect:
                            continue
                        key = "bounds-semantics:%s:%s:%s" % (pname if pname in STD else "opt", t, "accepted-outside" if got else "rejected-inside")
                        if key in reported:
                            continue                            # one concrete input per (parameter kind, interval type, direction)
                        reported.add(key)
                        what = "accepted although outside" if got else "rejected although inside"
                        ops = []
                        if route == "set_arg_bounds":
                            ops.append(dict(k="set_arg_bounds", chk=False, kw=[(pname, (blo, bhi, t if len(given) == 3 else None))]))
                        elif route == "bounds-property":
                            ops.append(dict(k="bounds_prop", n=pname, b=(blo, bhi, t)))
                        ctx.violation("probe: interval semantics of bounds (%s, %s)" % (via, route),
                                      "%s: %s = %r with bounds [%r, %r, %r] (%s) is %s" % (cls, pname, v, blo, bhi, t, route, what),
                                      dict(sweep=True, cls=cls, kind="plain", ctor=dict(dim=2), parameter=pname,
                                           bounds=[blo, bhi, t], value=v, route=route, via=via, ops=ops),
                                      key=key)
    ctx.notes.append("boundary sweep: %d accept/reject decisions compared with the documented interval semantics" % n)


# --------------------------------------------------------------------------- entry points

def load_own_findings(ctx):
    """known_findings.json is assembled by the coordinator from known_findings.d; read our fragment directly so
    that the check is self-contained"""
    p = os.path.join(C.VERIF, "known_findings.d", "C14.json")
    if os.path.exists(p):
        have = {k["key"] for k in ctx.kf}
        for e in json.load(open(p)):
            if e.get("property") == "C14" and e["key"] not in have:
                ctx.kf.append(e)


def setup(ctx):
    load_own_findings(ctx)
    ctx.rule = ("one evaluation = one constructor call or one assignment executed on the implementation and on the extracted "
                "model with all public attributes compared, or one fresh-construction comparison; distinct non-trivial = "
                "distinct (class, configuration kind, operation kind, outcome) combinations")
    ctx.trusted = [
        "Coq 8.16.1 kernel (coqc); vm_compute only in the closed rational witnesses",
        "hand model coq/c14/C14_Model.v of covmodel/base.py, tools.py, geometric.py, tpl_models.py: tied by executing the "
        "extracted model against the implementation on random histories (this run), not by translation",
        "extraction (ExtrOcamlBasic only), OCaml 4.13, ocaml/proto.ml float instance, ocaml/drv_c14.ml codec "
        "(infinite bound end <-> None)",
        "premises of the generic theorems: 0 < 1 and | |x| | = |x| in the number type (proved at Q and R, true of doubles)",
        "scipy gamma / beta (closed-form integral scales of Stable, Matern, Rational) are oracles shared by model and code",
    ]
    ctx.not_proved = [
        "object state after a raising assignment (the code assigns before it checks): a raising assignment ends the history",
        "integral_scale of the 11 classes that integrate the correlation numerically (scipy quad) is not modelled in Coq (setter and constructor argument); covered model-free by the constructor-vs-history probe",
        "values equal to +-inf at an infinite bound end are not modelled (None end: only NaN fails there); NaN / inf for angles and rescale are not judged (no documented bounds)",
        "rescale = 0 (division by zero in len_rescaled)",
        "fit_variogram, hankel_kw / spectrum objects, plotting: not parameter assignments",
        "C14_reachable_equals_fresh excludes `dim` on SuperSpherical, JBessel, TPLSimple: refuted there (C14_fresh_after_dim_refuted, open finding)",
        "theorems are about the model; the model/code tie is by execution (correspondence), IEEE rounding is covered because the theorems are generic in the number type",
    ]
    for f in ("CovModel.__init__", "var/var_raw/nugget/len_scale/anis/angles/rescale/dim/<opt>/integral_scale setters",
              "set_arg_bounds", "*_bounds setters", "check_arg_bounds/check_arg_in_bounds", "set_len_anis/set_model_angles/set_dim",
              "default_opt_arg / default_opt_arg_bounds / default_rescale tables", "TPLCovModel.var_factor",
              "sill / len_scale_vec / field_dim / spatial_dim"):
        ctx.tie[f] = "hand model + correspondence"
    for f in ("TPLCovModel.var_factor", "Gaussian.default_rescale",
              "calc_integral_scale (Gaussian, Exponential, Stable, Matern, Integral, Rational)"):
        ctx.tie[f] = "translated (py2coq, coq/gen/Formulas_gen.v) = model (C14_Tie.v, checked by Coq) + correspondence"


def run(ctx):
    import time
    setup(ctx)
    rng = C.Rng(ctx.seed, "C14")
    t0 = time.time()
    for attempt in range(3):
        proofs_ok = ctx.proofs("props/C14.v")
        # a concurrent check of the same property can rebuild props/C14.vo between check_props' delete and make
        # ("is up to date", no Print Assumptions output): that is a race, not a proof failure - run the stage again
        if proofs_ok or "is up to date" not in getattr(ctx, "proof_failure", {}).get("output_tail", ""):
            break
        time.sleep(2 + 3 * attempt)
    ctx.notes.append("proof stage %.1fs" % (time.time() - t0))
    tie_broken = []
    ok, out = C.build_driver("c14")
    if not ok:
        tie_broken.append("extraction/driver build: " + out[-400:])
        drv = None
    else:
        drv = C.Driver("c14", oracle)
    tie_log = []
    n_hist = 0
    try:
        if drv is not None:
            tie_broken += witness_probes(ctx, drv)
            t1 = time.time()
            boundary_sweep(ctx, quick=(ctx.tier == "quick"))
            t2 = time.time()
            for rep in range(3 if ctx.tier == "quick" else 8):
                for cls in CLASSES:
                    for kind, ll, tt in KINDS:
                        run_cvs(ctx, gen_cvs(rng, cls, kind, ll, tt))
                        if rep % 2 == 0:
                            run_alias(ctx, gen_alias(rng, cls, kind, ll, tt))
            nonfinite_probe(ctx, quick=(ctx.tier == "quick"))
            for rep in range(2 if ctx.tier == "quick" else 10):
                for cls in CLASSES:
                    for kind, ll, tt in KINDS:
                        if cls in TPL or rep % 2 == 0:
                            run_coupled(ctx, drv, rng, cls, kind, ll, tt, tie_log)
            t3 = time.time()
            ctx.notes.append("stage times: boundary sweep %.0fs, constructor-vs-history + aliasing probes %.0fs" % (t2 - t1, t3 - t2))
            per = 3 if ctx.tier == "quick" else 24
            for rep in range(per):
                for cls in CLASSES:
                    for kind, ll, tt in KINDS:
                        n_ops = 12 if rng.random() < 0.5 else int(rng.integers(1, 13))
                        run_history(ctx, drv, rng, cls, kind, ll, tt, n_ops, tie_log)
                        n_hist += 1
    finally:
        if drv:
            drv.close()
    ctx.notes.append("%d histories, %d with a model/implementation disagreement" % (n_hist, len(tie_log)))
    if tie_log:
        tie_broken.append("correspondence: %d histories disagree, first: %s" % (len(tie_log), json.dumps(tie_log[0], default=str)[:1500]))
    if (tie_broken or not proofs_ok) and not ctx.violations:
        ctx.violation("proof/tie", "proof obligations or the model/code tie of C14 no longer check: %s" % (
            tie_broken or getattr(ctx, "proof_failure", {}).get("output_tail", "")[-600:]),
            dict(tie_broken=tie_broken, proof=getattr(ctx, "proof_failure", None), first_cases=tie_log[:3]), no_input=True)
    elif tie_broken:
        ctx.notes.append("tie broken as well: %s" % tie_broken)


def oracle(code, xs):
    from scipy import special as sps
    if code == 0:
        return float(sps.gamma(xs[0]))
    if code == 11:
        return float(sps.beta(xs[0], xs[1]))
    raise RuntimeError("oracle code %d not used by C14" % code)


def replay(ctx, path):
    """re-run the stored history (class, configuration, constructor arguments, operations) on the current tree"""
    setup(ctx)
    rec = json.load(open(path))
    print(json.dumps({k: rec[k] for k in ("stage", "what")}, indent=1))
    case = rec.get("case", {})
    if case.get("probe") == "ctor-vs-setters":
        run_cvs(ctx, case)
        return ctx.finish()
    if case.get("probe") == "alias":
        run_alias(ctx, case)
        return ctx.finish()
    if case.get("probe") == "non-finite":
        nonfinite_probe(ctx)
        return ctx.finish()
    if case.get("sweep"):
        boundary_sweep(ctx, only_cls=case["cls"])
        return ctx.finish()
    if "cls" not in case or "ops" not in case or rec.get("no_failing_input_found"):
        run(ctx)
        return ctx.finish()
    ok, out = C.build_driver("c14")
    drv = C.Driver("c14", oracle)
    rng = C.Rng(ctx.seed, "C14-replay")
    try:
        g = gs()
        cls, kind = case["cls"], case.get("kind", "plain")
        ll, tt = {k: (a, b) for k, a, b in KINDS}[kind]
        kw = dict(case.get("ctor", {}))
        kw.setdefault("latlon", ll)
        kw.setdefault("temporal", tt)
        m = getattr(g, cls)(**kw)
        h = History(ctx, drv, cls, kind, ll, tt)
        h.ctor_kw = kw
        h.m = m
        h.names = list(m.arg_bounds)
        h.optn = h.names[4:]
        h.o = obs_impl(m, cls)
        # model state = construct from the observed values (canonical form)
        o = h.o
        margs = dict(iargs=[o["dim"], 0, o["dim"], int(o["latlon"]), int(o["temporal"]), 1, 1, 0],
                     fargs=[o["var_raw"], o["nugget"], o["rescale"]], len=[o["len_scale"]], anis=list(o["anis"]),
                     angles=list(o["angles"]), opts=list(o["opts"]))
        st, h.ms = model_construct(drv, h.ci, margs, o["bounds"])
        ctx.count((cls, kind, "construct"))
        for op in case["ops"]:
            if "v" in op and isinstance(op["v"], list) is False and op["k"] in ("len_scale", "anis", "angles", "integral_scale"):
                op["v"] = [op["v"]]
            if op["k"] == "set_arg_bounds":
                op["kw"] = [(n, tuple(b)) for n, b in op["kw"]]
            if op["k"] == "bounds_prop":
                op["b"] = tuple(op["b"])
            if not h.step(op):
                break
        else:
            h.fresh_probe(rng)
        if h.tie_bad and not ctx.violations:
            ctx.violation("proof/tie", "model and implementation disagree on the replayed history: %s" % h.tie_bad[:2],
                          dict(case=case), no_input=True)
    finally:
        drv.close()
    return ctx.finish()
