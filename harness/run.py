"""entry point of every check:  run.py <ID> [--tier quick|thorough] [--replay file]"""
import argparse
import importlib
import os
import sys
import traceback

sys.path.insert(0, os.path.dirname(os.path.abspath(__file__)))
import common as C  # noqa: E402


def main():
    ap = argparse.ArgumentParser()
    ap.add_argument("pid")
    ap.add_argument("--tier", default=os.environ.get("VERIF_TIER", "quick"))
    ap.add_argument("--replay", default=None)
    a = ap.parse_args()
    if a.tier not in ("quick", "thorough"):
        a.tier = "quick"
    seed = int(os.environ.get("VERIF_SEED", "20260930") or 0)
    pid = a.pid.upper()
    mod = importlib.import_module(pid.lower())
    ctx = C.Ctx(pid, a.tier, seed)
    try:
        if a.replay:
            rc = mod.replay(ctx, a.replay)
        else:
            mod.run(ctx)
            rc = ctx.finish()
    except Exception:
        tb = traceback.format_exc()
        print(tb, flush=True)
        # the check could not complete on this tree (it does complete on the unchanged tree): the
        # property is no longer shown to hold.  Reported as a violation without a failing input.
        ctx.violation("harness", "check could not complete: " + tb.strip().splitlines()[-1],
                      dict(traceback=tb), no_input=True)
        try:
            rc = ctx.finish()
        except Exception:
            print("VIOLATION property=%s replay=%s no-failing-input-found" % (pid, ctx.violations[-1]["replay"]))
            rc = 1
    sys.stdout.flush()
    os._exit(rc)


main()
