"""C12 — anisotropy and rotation act as a linear change of coordinates.

stages: theorems props/C12.v ; extraction + driver ; correspondence of every modelled function of
        tools/geometric.py, covmodel/tools.py (set_len_anis, set_model_angles) and the CovModel coordinate
        methods against the implementation ; probes of the property statement on the implementation
        (orthogonality / det / inverse pairs / conventions / main-axis scaling / padding rules ; SRF, Krige,
        CondSRF pipelines: anisotropic rotated model at x == isotropic model at the transformed positions)."""
import itertools
import json
import math

import numpy as np

import common as C

# Tolerances (DESIGN 3.4).  Entries of the matrices are sums of products of cos/sin values (numpy's SIMD
# cos/sin vs glibc: <= 2 ulp apart) and anisotropy ratios; at most 28 Givens factors (dim 8).  Every comparison is
# |a-b| <= TOL * scale, scale = sum of absolute values of the accumulated terms (so that cancellation cannot cause
# a false alarm); TOL = 1e-12 is > 1000 ulp.  Outputs of covariance functions / whole pipelines: 1e-9 relative.
TOL = 1e-12
RTOL_PIPE = 1e-9
SEEN = set()   # one replay per probe name


def agree(a, b, scale=1.0, tol=TOL):
    a = np.asarray(a, dtype=float)
    b = np.asarray(b, dtype=float)
    if a.shape != b.shape:
        return False
    if a.size == 0:
        return True
    if not (np.isfinite(a).all() and np.isfinite(b).all()):
        return bool(((a == b) | (np.isnan(a) & np.isnan(b))).all())
    return bool((np.abs(a - b) <= tol * np.maximum(scale, 1e-300)).all())


def hexl(a):
    return [C.fhex(v) for v in np.asarray(a, dtype=float).ravel()]


SPECIAL_ANGLES = [0.0, -0.0, math.pi / 2, -math.pi / 2, math.pi, 2 * math.pi, math.pi / 4, 1e-9, 1e6, -7.5, -5e-9, 2e-8, 1e-7]


def gen_angles(rng, n_needed, length):
    a = rng.uniform(-2 * math.pi, 2 * math.pi, size=length)
    for k in range(length):
        if rng.random() < 0.15:
            a[k] = SPECIAL_ANGLES[int(rng.integers(len(SPECIAL_ANGLES)))]
    return a


def gen_anis(rng, length, wide=True):
    lo, hi = (-3, 3) if wide else (-1, 1)
    a = 10.0 ** rng.uniform(lo, hi, size=length)
    for k in range(length):
        u = rng.random()
        if u < 0.15:
            a[k] = 1.0
        elif u < 0.3:
            a[k] = float(rng.choice([0.5, 2.0, 0.25, 4.0]))
        elif u < 0.36:
            a[k] = 1.0 + float(rng.choice([-1.0, 1.0])) * 10.0 ** rng.uniform(-8, -4)   # around the isclose band of is_isotropic
    return a


def as_arg(a):
    """what a user may pass: a list, or a bare float when there is exactly one value"""
    return a


def gen_cases(rng, tier):
    """(dim, angles, anis): every input length from 0 to needed+2 for both lists, dims 1..4 (..6 thorough)"""
    dims = (1, 2, 3, 4, 5, 6) if tier == "thorough" else (1, 2, 3, 4)
    reps = 12 if tier == "thorough" else 3
    cases = []
    for dim in dims:
        noa = dim * (dim - 1) // 2
        for rep in range(reps):
            for la in range(0, noa + 3):
                for ls in range(0, dim + 2):
                    if dim >= 5 and (la + ls + rep) % 3:
                        continue
                    cases.append((dim, gen_angles(rng, noa, la), gen_anis(rng, ls)))
    # both sides of the constants the code classifies with: is_isotropic = isclose(anis, 1) (band 1e-8 + 1e-5),
    # do_rotation = not isclose(angles, 0) (band 1e-8): weak anisotropy / tiny angles must still be applied exactly
    for dim in (2, 3, 4):
        noa = dim * (dim - 1) // 2
        for d_anis in (0.0, 8e-6, -8e-6, 1e-6, 1e-8, 2e-5, -3e-5, 1e-3):
            for d_ang in (0.0, 1e-9, -5e-9, 2e-8, 1e-6):
                if d_anis == 0.0 and d_ang == 0.0:
                    continue
                anis = 1.0 + d_anis * rng.uniform(0.5, 1.0, size=dim - 1)
                angles = d_ang * rng.uniform(0.5, 1.0, size=noa)
                cases.append((dim, angles, anis))
    return cases


def nontriv(dim, angles, anis):
    noa = dim * (dim - 1) // 2
    return dim >= 2 and np.any(np.abs(np.sin(angles[:noa])) > 1e-6) and np.any(np.abs(anis[: dim - 1] - 1) > 1e-6)


# --------------------------------------------------------------------------- correspondence

def correspondence(ctx, drv, rng, bad):
    from gstools.tools import geometric as G
    from gstools.covmodel import tools as CT
    import gstools as gs

    def chk(name, ok, case):
        ctx.tie.setdefault(name, "hand model + correspondence")
        if not ok:
            bad.append((name, case))

    cases = gen_cases(rng, ctx.tier)
    for dim, angles, anis in cases:
        nd = ("n", dim)
        case = dict(dim=dim, angles=hexl(angles), anis=hexl(anis))
        key = ("corr", dim, len(angles), len(anis)) if nontriv(dim, angles, anis) else None
        ctx.count(key, hist=dict(dim=dim, n_angles_given=len(angles), n_anis_given=len(anis)))
        ctx.sample(dict(stage="correspondence", dim=dim, angles=[float(x) for x in angles], anis=[float(x) for x in anis]))
        chk("no_of_angles", drv.call("no_of_angles", nd) == G.no_of_angles(dim), case)
        pl_m = drv.call("rotation_planes", nd)
        pl_i = G.rotation_planes(dim)
        chk("rotation_planes", [tuple(int(v) for v in r) for r in np.asarray(pl_m).reshape(-1, 2)] == [tuple(p) for p in pl_i], case)
        chk("set_angles", C.bit_equal(drv.call("set_angles", nd, angles), G.set_angles(dim, angles)), case)
        chk("set_anis", C.bit_equal(drv.call("set_anis", nd, anis), G.set_anis(dim, anis)), case)
        full = G.set_angles(dim, angles)
        for k, pl in enumerate(pl_i[:3]):
            chk("givens_rotation", agree(drv.call("givens_rotation", nd, ("n", pl[0]), ("n", pl[1]), float(full[k])),
                                         G.givens_rotation(dim, pl, full[k])), dict(case, plane=list(pl)))
        rot, der = G.matrix_rotate(dim, angles), G.matrix_derotate(dim, angles)
        iso_s, ani_s = G.matrix_isotropify(dim, anis), G.matrix_anisotropify(dim, anis)
        chk("matrix_rotate", agree(drv.call("matrix_rotate", nd, angles), rot), case)
        chk("matrix_derotate", agree(drv.call("matrix_derotate", nd, angles), der), case)
        chk("rotated_main_axes", agree(drv.call("rotated_main_axes", nd, angles), G.rotated_main_axes(dim, angles)), case)
        chk("matrix_isotropify", C.bit_equal(drv.call("matrix_isotropify", nd, anis), iso_s), case)
        chk("matrix_anisotropify", C.bit_equal(drv.call("matrix_anisotropify", nd, anis), ani_s), case)
        m_iso, m_ani = G.matrix_isometrize(dim, angles, anis), G.matrix_anisometrize(dim, angles, anis)
        chk("matrix_isometrize", agree(drv.call("matrix_isometrize", nd, angles, anis), m_iso, np.abs(iso_s) @ np.ones((dim, dim))), case)
        chk("matrix_anisometrize", agree(drv.call("matrix_anisometrize", nd, angles, anis), m_ani, np.ones((dim, dim)) @ np.abs(ani_s)), case)
        # set_model_angles / set_len_anis (covmodel/tools.py)
        for latlon, temporal in ((False, False), (False, True), (True, False)):
            if temporal and dim < 2:
                continue
            chk("set_model_angles", C.bit_equal(drv.call("set_model_angles", nd, angles, latlon, temporal),
                                                CT.set_model_angles(dim, angles, latlon, temporal)),
                dict(case, latlon=latlon, temporal=temporal))
        nl = int(rng.integers(1, dim + 3))
        ls = 10.0 ** rng.uniform(-2, 2, size=nl)
        if rng.random() < 0.15:
            ls[int(rng.integers(nl))] *= float(rng.choice([-1.0, 0.0]))
        an_in = anis if len(anis) else np.array([1.0])
        if rng.random() < 0.1:
            an_in = an_in.copy()
            an_in[0] = float(rng.choice([0.0, -1.0, np.nan]))
        for latlon in (False, True):
            if latlon and dim != 3:
                continue
            try:
                r_i = CT.set_len_anis(dim, ls, an_in, latlon)
            except ValueError:
                r_i = None
            r_m = drv.call("set_len_anis", nd, ls, an_in, latlon)
            ok = (r_i is None and r_m is None) or (r_i is not None and r_m is not None and
                                                    C.bit_equal(r_m[0], r_i[0]) and C.bit_equal(r_m[1], r_i[1]))
            chk("set_len_anis", ok, dict(case, len_scale=hexl(ls), anis_in=hexl(an_in), latlon=latlon))
        ctx.count(None, hist=dict(set_len_anis="error" if r_i is None else "ok"))
        # CovModel coordinate methods on positions
        npts = int(rng.choice([1, 2, 7]))
        pos = rng.normal(size=(dim, npts)) * 10.0 ** rng.uniform(-1, 2)
        if not np.all(anis[: dim - 1] > 0):
            continue
        temporal = bool(dim >= 2 and rng.random() < 0.25)
        try:
            mod = gs.Exponential(dim=dim, var=1.7, len_scale=2.5, anis=anis if len(anis) else 1.0,
                                 angles=angles if len(angles) else 0.0, temporal=temporal)
        except Exception as e:  # constructor must accept every anis > 0
            ctx.violation("probe: CovModel constructor", "CovModel rejects valid anis/angles: %r" % (e,), case, key="ctor")
            continue
        m_ang = drv.call("set_model_angles", nd, angles, False, temporal)
        m_la = drv.call("set_len_anis", nd, np.array([2.5]), anis if len(anis) else np.array([1.0]), False)
        chk("CovModel.angles", C.bit_equal(m_ang, mod.angles), dict(case, temporal=temporal))
        chk("CovModel.anis", m_la is not None and C.bit_equal(m_la[1], mod.anis), case)
        A, S = np.asarray(mod.angles), np.asarray(mod.anis)
        case2 = dict(case, temporal=temporal, pos=hexl(pos), npts=npts)
        mi = G.matrix_isometrize(dim, A, S)
        ma = G.matrix_anisometrize(dim, A, S)
        chk("CovModel.isometrize", agree(drv.call("isometrize", nd, A, S, pos), mod.isometrize(pos), np.abs(mi) @ np.abs(pos)), case2)
        chk("CovModel.anisometrize", agree(drv.call("anisometrize", nd, A, S, pos), mod.anisometrize(pos), np.abs(ma) @ np.abs(pos)), case2)
        chk("CovModel.main_axes", agree(drv.call("rotated_main_axes", nd, A), mod.main_axes()), case2)
        rad_i = mod._get_iso_rad(pos)
        chk("CovModel._get_iso_rad", agree(drv.call("get_iso_rad", nd, A, S, pos), rad_i,
                                           np.linalg.norm(np.abs(mi) @ np.abs(pos), axis=0)), case2)
        chk("CovModel.len_scale_vec", C.bit_equal(drv.call("len_scale_vec", nd, float(mod.len_scale), S), mod.len_scale_vec), case2)
        # cov_spatial / vario_spatial / cor_spatial = isotropic function of the modelled radius
        rad_m = drv.call("get_iso_rad", nd, A, S, pos)
        for nm, fs, f in (("cov_spatial", mod.cov_spatial, mod.covariance), ("vario_spatial", mod.vario_spatial, mod.variogram),
                          ("cor_spatial", mod.cor_spatial, mod.correlation)):
            chk("CovModel." + nm, C.close(fs(pos), f(rad_m), rtol=RTOL_PIPE, scale=mod.sill), case2)
        for ax in range(dim):
            r = float(rng.normal() * 3)
            arg = drv.call("axis_arg", S, r, ("n", ax))
            for nm, fa, f in (("cov_axis", mod.cov_axis, mod.covariance), ("vario_axis", mod.vario_axis, mod.variogram),
                              ("cor_axis", mod.cor_axis, mod.correlation)):
                chk("CovModel." + nm, C.close(fa(r, ax), f(arg), rtol=RTOL_PIPE, scale=mod.sill), dict(case2, r=C.fhex(r), axis=ax))
    # malformed / boundary stream for the small functions (shapes the generators above do not produce)
    for dim in (1, 2, 3, 4):
        nd = ("n", dim)
        for val in (np.array([0.3]), np.array([np.inf]), np.array([np.nan, 1.0]), np.zeros(12)):
            ctx.count(None, hist=dict(stream="boundary"))
            case = dict(dim=dim, value=hexl(val))
            chk("set_angles", C.bit_equal(drv.call("set_angles", nd, val), G.set_angles(dim, val)), case)
            chk("set_anis", C.bit_equal(drv.call("set_anis", nd, val), G.set_anis(dim, val)), case)
            chk("matrix_rotate", agree(drv.call("matrix_rotate", nd, val), G.matrix_rotate(dim, val)), case)
            with np.errstate(all="ignore"):
                chk("matrix_isotropify", C.bit_equal(drv.call("matrix_isotropify", nd, val), G.matrix_isotropify(dim, val)), case)


# --------------------------------------------------------------------------- probes: matrices

def Rz(a):
    return np.array([[math.cos(a), -math.sin(a), 0], [math.sin(a), math.cos(a), 0], [0, 0, 1.0]])


def Ry(b):
    return np.array([[math.cos(b), 0, math.sin(b)], [0, 1.0, 0], [-math.sin(b), 0, math.cos(b)]])


def Rx(c):
    return np.array([[1.0, 0, 0], [0, math.cos(c), -math.sin(c)], [0, math.sin(c), math.cos(c)]])


# documented order of the rotation planes, written out (NOT computed from rotation_planes): xy, xz, yz, then every
# further axis v appends (x,v), (y,v), (z,v), ... ; dim d uses the first d(d-1)/2 entries
DOC_PLANES = [(0, 1),
              (0, 2), (1, 2),
              (0, 3), (1, 3), (2, 3),
              (0, 4), (1, 4), (2, 4), (3, 4),
              (0, 5), (1, 5), (2, 5), (3, 5), (4, 5),
              (0, 6), (1, 6), (2, 6), (3, 6), (4, 6), (5, 6),
              (0, 7), (1, 7), (2, 7), (3, 7), (4, 7), (5, 7), (6, 7)]


def doc_rotation(dim, full_angles):
    """rotation matrix built independently from the documented convention: Givens rotations in the documented plane
    order, alternating signs, each multiplied from the left"""
    R = np.eye(dim)
    for i, (a, (p, q)) in enumerate(zip(full_angles, DOC_PLANES[: dim * (dim - 1) // 2])):
        a = (-1) ** i * a
        g = np.eye(dim)
        g[p, p] = g[q, q] = math.cos(a)
        g[p, q] = -math.sin(a)
        g[q, p] = math.sin(a)
        R = g @ R
    return R


def matrix_probes(ctx, rng):
    from gstools.tools import geometric as G
    dims = range(1, 9) if ctx.tier == "thorough" else range(1, 7)
    reps = 300 if ctx.tier == "thorough" else 40

    def viol(name, what, case):
        if name not in SEEN:
            SEEN.add(name)
            ctx.violation("probe: " + name, what, case, key="probe:" + name)

    for dim in dims:
        noa = dim * (dim - 1) // 2
        eye = np.eye(dim)
        for rep in range(reps):
            la = int(rng.integers(0, noa + 3)) if rep % 2 else noa
            ls = int(rng.integers(0, dim + 2)) if rep % 2 else max(dim - 1, 0)
            angles, anis = gen_angles(rng, noa, la), gen_anis(rng, ls)
            case = dict(dim=dim, angles=hexl(angles), anis=hexl(anis))
            ctx.count(("probe", dim, la, ls) if nontriv(dim, angles, anis) else None, hist=dict(probe_dim=dim))
            try:
                R, D = G.matrix_rotate(dim, angles), G.matrix_derotate(dim, angles)
                Si, Sa = G.matrix_isotropify(dim, anis), G.matrix_anisotropify(dim, anis)
                Mi, Ma = G.matrix_isometrize(dim, angles, anis), G.matrix_anisometrize(dim, angles, anis)
                axes = G.rotated_main_axes(dim, angles)
            except Exception as e:
                viol("exception", "geometric.py raised %r" % (e,), case)
                continue
            if R.shape != (dim, dim) or Mi.shape != (dim, dim) or Ma.shape != (dim, dim):
                viol("shape", "matrix of wrong shape", case)
                continue
            if not (agree(R.T @ R, eye) and agree(R @ R.T, eye)):
                viol("orthogonal", "matrix_rotate is not orthogonal", case)
            if not agree(np.linalg.det(R), 1.0):
                viol("det", "det(matrix_rotate) != +1", case)
            if not agree(D, R.T, tol=1e-13):
                viol("derotate", "matrix_derotate != matrix_rotate^T", case)
            if not agree(axes, R.T, tol=0.0):
                viol("main_axes", "rotated_main_axes != matrix_rotate^T", case)
            sc = np.abs(Mi) @ np.abs(Ma)
            if not (agree(Mi @ Ma, eye, sc) and agree(Ma @ Mi, eye, np.abs(Ma) @ np.abs(Mi))):
                viol("inverse", "matrix_isometrize and matrix_anisometrize are not inverse", case)
            if not (agree(Si @ Sa, eye, tol=1e-15) and agree(Mi, Si @ D, np.abs(Si) @ np.abs(D)) and agree(Ma, R @ Sa, np.abs(R) @ np.abs(Sa))):
                viol("factors", "isometrize != isotropify . derotate or anisometrize != rotate . anisotropify", case)
            # padding rules: missing angles are 0 (right), missing ratios are 1 (LEFT); extra values are ignored
            fa = np.zeros(noa)
            fa[: min(la, noa)] = angles[:noa]
            fs = np.ones(max(dim - 1, 0))
            k = min(ls, max(dim - 1, 0))
            if k:
                fs[-k:] = anis[:k]
            if not (C.bit_equal(R, G.matrix_rotate(dim, fa)) and C.bit_equal(Mi, G.matrix_isometrize(dim, fa, fs))
                    and C.bit_equal(G.set_angles(dim, angles), fa) and C.bit_equal(G.set_anis(dim, anis), fs)):
                viol("padding", "padding / truncation of angles or anis is not 0-right / 1-left", case)
            if la == 1 and ls == 1 and not (C.bit_equal(R, G.matrix_rotate(dim, float(angles[0])))
                                            and C.bit_equal(Si, G.matrix_isotropify(dim, float(anis[0])))):
                viol("scalar", "scalar argument differs from one-element list", case)
            # main axes: isometrize(t * axis_i) = t / anis_{i-1} * e_i
            full_s = np.concatenate(([1.0], fs))
            for i in range(dim):
                t = float(rng.normal() * 5)
                x = t * axes[i]
                want = np.zeros(dim)
                want[i] = t / full_s[i]
                if not agree(Mi @ x, want, np.abs(Mi) @ np.abs(x)):
                    viol("main_axis", "isometrize(t * main axis %d) != t / anis * e_%d" % (i, i), dict(case, t=C.fhex(t), axis=i))
                    break
            # conventions: documented plane order xy, xz, yz, xv, yv, zv, ... with alternating signs (every dimension)
            if [tuple(int(v) for v in pl) for pl in G.rotation_planes(dim)] != DOC_PLANES[:noa]:
                viol("plane-order", "rotation_planes(%d) is not the documented order xy, xz, yz, xv, yv, zv, ..." % dim, case)
            if not agree(R, doc_rotation(dim, fa)):
                viol("plane-order-matrix", "matrix_rotate is not the product of Givens rotations in the documented plane order "
                     "(xy, xz, yz, xv, yv, zv, ...) with alternating signs", case)
            if dim == 2:
                a = fa[0]
                if not agree(R, np.array([[math.cos(a), -math.sin(a)], [math.sin(a), math.cos(a)]])):
                    viol("2d", "2-D rotation is not counter-clockwise [[c,-s],[s,c]]", case)
            if dim == 3:
                if not agree(R, Rx(fa[2]) @ Ry(fa[1]) @ Rz(fa[0])):
                    viol("3d", "3-D rotation is not Rx(roll) Ry(pitch) Rz(yaw)", case)
            if dim >= 2:
                # first angle alone: rotation in the xy-plane, counter-clockwise; the first main axis is (cos, sin, 0, ...)
                a = float(angles[0]) if la else 0.0
                ax0 = G.rotated_main_axes(dim, [a])[0]
                w = np.zeros(dim)
                w[0], w[1] = math.cos(a), math.sin(a)
                if not agree(ax0, w):
                    viol("xy", "first angle does not rotate the first main axis counter-clockwise in the xy-plane", case)


def independent_iso(dim, angles, anis, pos):
    """isometrize written independently in numpy from the documented convention: rotate back, divide by the ratios"""
    full = np.concatenate(([1.0], np.asarray(anis, dtype=float)))
    M = np.diag(1.0 / full) @ doc_rotation(dim, np.asarray(angles, dtype=float)).T
    return M @ pos, np.abs(M) @ np.abs(pos)


def threshold_probes(ctx, rng):
    """weak anisotropy / tiny angles on both sides of the constants the code classifies with (is_isotropic: isclose(anis, 1),
    do_rotation: isclose(angles, 0)): the coordinate maps must still apply them exactly"""
    import gstools as gs

    def viol(name, what, case):
        if name not in SEEN:
            SEEN.add(name)
            ctx.violation("probe: " + name, what, case, key="probe:" + name)

    names = ["Gaussian", "Exponential", "Matern"] if ctx.tier == "quick" else [n for n in HIST_MODELS]
    for name in names:
        for dim in (2, 3, 4):
            noa = dim * (dim - 1) // 2
            for d_anis in (0.0, 8e-6, -8e-6, 1e-6, 1e-8, 2e-5, 1e-3):
                for d_ang in (0.0, 1e-9, -5e-9, 2e-8, 1e-6):
                    anis = 1.0 + d_anis * rng.uniform(0.5, 1.0, size=dim - 1)
                    angles = d_ang * rng.uniform(0.5, 1.0, size=noa)
                    scale = float(10.0 ** rng.uniform(0, 5))
                    pos = rng.normal(size=(dim, int(rng.choice([1, dim, 5])))) * scale
                    case = dict(model=name, dim=dim, anis=hexl(anis), angles=hexl(angles), pos=hexl(pos))
                    ctx.count(("threshold", name, dim, d_anis, d_ang), hist=dict(threshold_anis_minus_1=d_anis, threshold_angle=d_ang))
                    try:
                        m = getattr(gs, name)(dim=dim, len_scale=10.0, anis=anis, angles=angles)
                        want, sc = independent_iso(dim, m.angles, m.anis, pos)
                        ip = m.isometrize(pos)
                        if not agree(ip, want, sc):
                            viol("threshold-isometrize", "isometrize(x) is not (rotate back, divide by the ratios)(x) for weak anisotropy / tiny angles", case)
                        if not agree(m.anisometrize(ip), pos, np.abs(pos) + 1e-300, tol=1e-11):
                            viol("threshold-round-trip", "anisometrize(isometrize(x)) != x for weak anisotropy / tiny angles", case)
                        if not C.close(m.cov_spatial(pos), m.covariance(np.linalg.norm(want, axis=0)), rtol=RTOL_PIPE, scale=m.sill):
                            viol("threshold-cov-spatial", "cov_spatial(x) is not the covariance of |isometrize(x)| for weak anisotropy / tiny angles", case)
                    except Exception as e:
                        viol("threshold-exception", "model with weak anisotropy raised %r" % (e,), case)


# --------------------------------------------------------------------------- probes: models and pipelines

MODELS_ALL = ["Gaussian", "Exponential", "Matern", "Integral", "Stable", "Rational", "Cubic", "Linear", "Circular",
              "Spherical", "HyperSpherical", "SuperSpherical", "JBessel", "TPLGaussian", "TPLExponential", "TPLStable",
              "TPLSimple"]
SRF_MODELS = ["Gaussian", "Exponential", "Matern", "Integral"]   # analytic spectrum sampling (no MCMC), cheap
SRF_MODELS_MCMC = ["Stable", "Spherical"]                        # MCMC mode sampling (slow): thorough tier only


def make_models(gs, name, dim, rng, temporal=False, kind=0):
    """(anisotropic rotated model, isotropic unrotated twin); kind 1: ratios only, kind 2: rotation only"""
    noa = dim * (dim - 1) // 2
    kw = dict(dim=dim, var=float(10 ** rng.uniform(-1, 1)), len_scale=float(10 ** rng.uniform(-0.5, 1)),
              nugget=float(rng.choice([0.0, 0.1])))
    cls = getattr(gs, name)
    anis = gen_anis(rng, dim - 1, wide=False)
    angles = gen_angles(rng, noa, noa)
    angles[np.abs(angles) > 100] = 1.0
    if kind == 1:
        angles[:] = 0.0
    elif kind == 2:
        anis[:] = 1.0
    m = cls(anis=anis if dim > 1 else 1.0, angles=angles if noa else 0.0, temporal=temporal, **kw)
    iso = cls(temporal=temporal, **kw)
    return m, iso


def rel_ok(a, b, scale):
    a, b = np.asarray(a, dtype=float), np.asarray(b, dtype=float)
    return a.shape == b.shape and bool((np.abs(a - b) <= RTOL_PIPE * np.maximum(np.maximum(np.abs(a), np.abs(b)), scale)).all())


def model_probes(ctx, rng):
    import gstools as gs
    import warnings
    warnings.simplefilter("ignore")

    def viol(name, what, case):
        if name not in SEEN:
            SEEN.add(name)
            ctx.violation("probe: " + name, what, case, key="probe:" + name)

    names = [n for n in MODELS_ALL if hasattr(gs, n)]
    reps = 8 if ctx.tier == "thorough" else 2
    for name in names:
        for dim in (1, 2, 3, 4):
            if name == "Circular" and dim > 2 or name == "Spherical" and dim > 3 or name == "Linear" and dim > 1:
                continue
            if name == "JBessel" and dim > 3:
                continue
            for rep in range(reps):
                try:
                    m, iso = make_models(gs, name, dim, rng)
                except Exception as e:
                    viol("model-ctor", "%s(dim=%d) with anis/angles raised %r" % (name, dim, e), dict(model=name, dim=dim))
                    continue
                case = dict(model=name, dim=dim, var=m.var, len_scale=m.len_scale, nugget=m.nugget, anis=hexl(m.anis), angles=hexl(m.angles))
                ctx.count(("model", name, dim) if dim > 1 else None, hist=dict(model=name))
                axes = m.main_axes()
                lsv = m.len_scale_vec
                for i in range(dim):
                    t = np.abs(rng.normal(size=5)) * m.len_scale * (m.anis[i - 1] if i else 1.0) * 2
                    pos = axes[i][:, None] * t[None, :]
                    c_sp = m.cov_spatial(pos)
                    # along main axis i: the isotropic model with length scale len_scale * anis[i-1]
                    twin = type(m)(dim=dim, var=m.var, len_scale=float(lsv[i]), nugget=m.nugget, rescale=m.rescale, **{k: getattr(m, k) for k in m.opt_arg})
                    if not (rel_ok(c_sp, twin.covariance(t), m.sill) and rel_ok(c_sp, m.cov_axis(t, i), m.sill)):
                        viol("axis-scale", "cov_spatial along main axis %d is not the isotropic covariance with length len_scale*anis" % i,
                             dict(case, axis=i, t=hexl(t)))
                        break
                # any point: cov_spatial(x) = isotropic covariance at |isometrize(x)|, and round trip
                pos = rng.normal(size=(dim, int(rng.choice([6, dim, 1])))) * m.len_scale
                ip = m.isometrize(pos)
                want_ip, sc_ip = independent_iso(dim, m.angles, m.anis, pos)
                if not agree(ip, want_ip, sc_ip):
                    viol("isometrize-formula", "isometrize(x) is not (rotate back by the documented rotation, divide by the ratios)(x)",
                         dict(case, pos=hexl(pos)))
                if not rel_ok(m.cov_spatial(pos), iso.covariance(np.linalg.norm(ip, axis=0)), m.sill):
                    viol("cov-spatial", "cov_spatial(x) != isotropic covariance of |isometrize(x)|", dict(case, pos=hexl(pos)))
                sc = np.abs(np.linalg.inv(np.asarray(gs.tools.geometric.matrix_isometrize(dim, m.angles, m.anis)))) @ np.abs(ip)
                if not agree(m.anisometrize(ip), pos, sc, tol=1e-11):
                    viol("round-trip", "anisometrize(isometrize(x)) != x", dict(case, pos=hexl(pos)))
                if not agree(iso.isometrize(ip), ip, tol=0.0):
                    viol("iso-identity", "isotropic model does not leave positions unchanged", dict(case, pos=hexl(pos)))
                # a list of length scales is reproduced by len_scale_vec (truncated to dim, padded with its last value)
                nl = int(rng.integers(2, dim + 3))
                lsl = 10.0 ** rng.uniform(-1, 1, size=nl)
                if dim >= 2:
                    want = np.concatenate((lsl[:dim], np.full(max(dim - nl, 0), lsl[:dim][-1])))
                    got = type(m)(dim=dim, len_scale=list(lsl)).len_scale_vec
                    if not agree(got, want, want, tol=1e-15):
                        viol("len-scale-list", "len_scale_vec does not reproduce the given list of length scales",
                             dict(model=name, dim=dim, len_scale=hexl(lsl)))


def temporal_probes(ctx, rng):
    """metric spatio-temporal models: yaw/pitch/roll act on space only, the time axis is never rotated"""
    import gstools as gs
    from gstools.tools import geometric as G

    def viol(name, what, case):
        if name not in SEEN:
            SEEN.add(name)
            ctx.violation("probe: " + name, what, case, key="probe:" + name)

    reps = 30 if ctx.tier == "thorough" else 6
    sdims = (1, 2, 3, 4, 5) if ctx.tier == "thorough" else (1, 2, 3, 4)
    for sd in sdims:
        dim = sd + 1
        noa, noa_s = dim * (dim - 1) // 2, sd * (sd - 1) // 2
        for rep in range(reps):
            la = noa if rep % 2 == 0 else int(rng.integers(0, noa + 2))
            angles = rng.uniform(0.2, 1.4, size=la) * rng.choice([-1.0, 1.0], size=la)   # all non-zero
            anis = gen_anis(rng, dim - 1, wide=False)
            case = dict(spatial_dim=sd, temporal=True, angles=hexl(angles), anis=hexl(anis))
            ctx.count(("temporal", sd, la) if sd >= 2 else None, hist=dict(temporal_spatial_dim=sd))
            try:
                m = gs.Exponential(spatial_dim=sd, temporal=True, len_scale=1.5, anis=anis, angles=angles if la else 0.0)
                ax = m.main_axes()
                fa = np.zeros(noa_s)
                fa[: min(la, noa_s)] = angles[:noa_s]
                want = np.eye(dim)
                want[:sd, :sd] = doc_rotation(sd, fa).T
                if sd == 3:
                    if not agree(want[:3, :3], (Rx(fa[2]) @ Ry(fa[1]) @ Rz(fa[0])).T):
                        raise AssertionError("harness: doc_rotation(3) is not Rx Ry Rz")
                if not (np.all(np.asarray(m.angles)[noa_s:] == 0.0) and agree(np.asarray(m.angles)[:noa_s], fa, tol=0.0)):
                    viol("temporal-angles", "temporal model: angles beyond the spatial ones are not zeroed / spatial angles changed", case)
                if not (agree(ax[:, -1], want[:, -1], tol=0.0) and agree(ax[-1, :], want[-1, :], tol=0.0)):
                    viol("temporal-block", "temporal model: main_axes() is not block diagonal (time axis rotated into space)", case)
                if not agree(ax, want):
                    viol("temporal-spatial-block", "temporal model: spatial block of main_axes() is not the %d-D rotation by the "
                         "given (yaw, pitch, roll) angles" % sd, case)
                # positions: time is only scaled, space transforms like the purely spatial model
                pos = rng.normal(size=(dim, 5)) * 3
                ip = m.isometrize(pos)
                if not agree(ip[-1], pos[-1] / m.anis[-1], np.abs(pos[-1] / m.anis[-1]), tol=1e-15):
                    viol("temporal-time", "temporal model: isometrize mixes space into the time coordinate", dict(case, pos=hexl(pos)))
                ms = gs.Exponential(dim=sd, len_scale=1.5, anis=anis[: sd - 1] if sd > 1 else 1.0, angles=fa if noa_s else 0.0)
                sp = ms.isometrize(pos[:sd])
                sc = np.abs(np.asarray(G.matrix_isometrize(sd, ms.angles, ms.anis))) @ np.abs(pos[:sd])
                if not agree(ip[:sd], sp, sc):
                    viol("temporal-space", "temporal model: spatial part of isometrize differs from the purely spatial model", dict(case, pos=hexl(pos)))
            except AssertionError:
                raise
            except Exception as e:
                viol("temporal-exception", "temporal model raised %r" % (e,), case)


def pipeline_probes(ctx, rng):
    import gstools as gs
    import warnings
    warnings.simplefilter("ignore")

    def viol(name, what, case):
        if name not in SEEN:
            SEEN.add(name)
            ctx.violation("probe: " + name, what, case, key="probe:" + name)

    reps = 8 if ctx.tier == "thorough" else 2
    dims = (1, 2, 3, 4) if ctx.tier == "thorough" else (2, 3)
    srf_models = SRF_MODELS + (SRF_MODELS_MCMC if ctx.tier == "thorough" else [])
    kinds = itertools.cycle([0, 1, 2, 0, 1])
    for rep in range(reps):
        for dim in dims:
            for name in srf_models:
                if not hasattr(gs, name) or (name in SRF_MODELS_MCMC and (rep > 0 or dim != 2)):
                    continue
                kind = next(kinds)
                m, iso = make_models(gs, name, dim, rng, kind=kind)
                seed = int(rng.integers(1, 2 ** 31 - 1))
                n = 30
                pos = rng.uniform(-5, 5, size=(dim, n)) * m.len_scale
                ip = m.isometrize(pos)
                case = dict(model=name, dim=dim, var=m.var, len_scale=m.len_scale, nugget=m.nugget, anis=hexl(m.anis),
                            angles=hexl(m.angles), seed=seed, pos=hexl(pos))
                amp = math.sqrt(m.sill)
                ctx.count(("pipe", name, dim, kind), hist=dict(pipeline="SRF/Krige/CondSRF", pipe_dim=dim,
                                                               pipe_kind=["anis+rotation", "anis only", "rotation only"][kind]))
                try:
                    # --- SRF (randomization method), unstructured
                    f_a = gs.SRF(m, seed=seed, mode_no=64)(pos)
                    f_i = gs.SRF(iso, seed=seed, mode_no=64)(ip)
                    if not rel_ok(f_a, f_i, amp):
                        viol("srf", "SRF with anisotropic rotated model at x != isotropic model at isometrize(x)", case)
                    # --- SRF structured grid
                    if dim <= 3:
                        axs = [np.sort(rng.uniform(-3, 3, size=4)) * m.len_scale for _ in range(dim)]
                        g_a = gs.SRF(m, seed=seed, mode_no=32).structured(axs)
                        grid = np.array(np.meshgrid(*axs, indexing="ij")).reshape(dim, -1)
                        g_i = gs.SRF(iso, seed=seed, mode_no=32)(m.isometrize(grid))
                        if not rel_ok(np.ravel(g_a), g_i, amp):
                            viol("srf-structured", "structured SRF != isotropic model at the isometrized grid", dict(case, axes=[hexl(a) for a in axs]))
                    # --- incompressible vector field
                    # C12 for VECTOR fields (design/C12.md "Vector fields"): a model with ratios != 1 is evaluated at the
                    # isometrized positions with untouched components, like every scalar field.  A model the implementation
                    # classifies as isotropic (all ratios isclose to 1) is, whatever its angles, the SAME model as its unrotated
                    # twin (C12_iso_rad_rotation_invariant: rotation alone changes no distance); its vector field is the
                    # twin's field in the GIVEN coordinates (components live in the frame of the coordinates; C16 needs
                    # that for incompressibility, /repo fa84f81), not the twin's components at de-rotated positions.
                    if dim in (2, 3):
                        v_a = gs.SRF(m, seed=seed, mode_no=32, generator="VectorField")(pos)
                        iso_class = bool(m.is_isotropic)
                        ctx.count(("vector", name, dim, kind, iso_class), hist=dict(vector_field="isotropic+angles: given coordinates" if iso_class
                                                                                 else "ratios != 1: isometrized positions"))
                        v_i = gs.SRF(iso, seed=seed, mode_no=32, generator="VectorField")(pos if iso_class else ip)
                        if not rel_ok(v_a, v_i, amp):
                            if iso_class:
                                viol("vector-field-isotropic", "VectorField SRF of an isotropic model with rotation angles != the unrotated "
                                     "isotropic model's field at the given positions", case)
                            else:
                                viol("vector-field", "VectorField SRF with anisotropic model != isotropic model at isometrize(x)", case)
                        if dim <= 3 and iso_class:
                            axs = [np.sort(rng.uniform(-3, 3, size=3)) * m.len_scale for _ in range(dim)]
                            w_a = gs.SRF(m, seed=seed, mode_no=32, generator="VectorField").structured(axs)
                            w_i = gs.SRF(iso, seed=seed, mode_no=32, generator="VectorField").structured(axs)
                            if not rel_ok(w_a, w_i, amp):
                                viol("vector-field-isotropic", "structured VectorField SRF of an isotropic model with rotation angles != the "
                                     "unrotated isotropic model's field on the same grid", dict(case, axes=[hexl(a) for a in axs]))
                    # --- Fourier generator: the period box is given in the coordinates of x, the modes carry the ratios
                    # (delta_k = 2 pi / period * ratio), so the isotropic twin has the period period_i / ratio_i along
                    # axis i of the isotropic coordinates.  Ratios and mode numbers are powers of two here, so that both
                    # mode grids are bit-identical (np.arange lengths included) and the comparison is tight.
                    if 2 <= dim <= 3:
                        fkind = next(kinds)
                        ratios2 = 2.0 ** rng.integers(-2, 3, size=dim - 1)
                        if fkind == 2:
                            ratios2[:] = 1.0
                        elif not np.any(ratios2 != 1.0):
                            ratios2[0] = 0.5
                        fang = gen_angles(rng, dim * (dim - 1) // 2, dim * (dim - 1) // 2) if fkind != 1 else np.zeros(dim * (dim - 1) // 2)
                        fang[np.abs(fang) > 100] = 1.0
                        kwf = dict(dim=dim, var=m.var, len_scale=m.len_scale)
                        mf = getattr(gs, name)(anis=ratios2, angles=fang if len(fang) else 0.0, **kwf)
                        tf = getattr(gs, name)(**kwf)
                        period = rng.uniform(8, 30, size=dim) * m.len_scale
                        mode_no = [int(v) for v in 2 ** rng.integers(2, 4, size=dim)]
                        full = np.concatenate(([1.0], ratios2))
                        fcase = dict(case, generator="Fourier", anis=hexl(ratios2), angles=hexl(fang), period=hexl(period), mode_no=mode_no)
                        ctx.count(("fourier", name, dim, fkind), hist=dict(generator="Fourier", fourier_kind=["anis+rotation", "anis only", "rotation only"][fkind]))
                        f_a = gs.SRF(mf, generator="Fourier", period=list(period), mode_no=mode_no, seed=seed)(pos)
                        f_i = gs.SRF(tf, generator="Fourier", period=list(period / full), mode_no=mode_no, seed=seed)(mf.isometrize(pos))
                        if not rel_ok(f_a, f_i, amp):
                            viol("srf-fourier", "Fourier SRF with anisotropic rotated model and period P != isotropic model with period "
                                 "P_i / ratio_i at isometrize(x)", fcase)
                        if fkind == 1:
                            # unrotated: the field is periodic in the box of x
                            shift = np.zeros((dim, 1))
                            j = int(rng.integers(dim))
                            shift[j] = period[j]
                            srf_f = gs.SRF(mf, generator="Fourier", period=list(period), mode_no=mode_no, seed=seed)
                            if not rel_ok(srf_f(pos + shift), f_a, amp * 1e3):
                                viol("srf-fourier-periodic", "Fourier SRF of an unrotated anisotropic model is not periodic with the given period",
                                     dict(fcase, axis=j))
                    # --- kriging
                    nc = 8
                    cpos = rng.uniform(-5, 5, size=(dim, nc)) * m.len_scale
                    cval = rng.normal(size=nc) * amp
                    cip = m.isometrize(cpos)
                    for kname, mk in (("Simple", lambda mod, p, v: gs.krige.Simple(mod, p, v, mean=0.3)),
                                      ("Ordinary", lambda mod, p, v: gs.krige.Ordinary(mod, p, v))):
                        ka, ki = mk(m, cpos, cval), mk(iso, cip, cval)
                        fa, va = ka(pos, return_var=True)
                        fi, vi = ki(ip, return_var=True)
                        if not (rel_ok(fa, fi, amp) and rel_ok(va, vi, m.sill)):
                            viol("krige-" + kname.lower(), "%s kriging with anisotropic model != isotropic model at isometrize(x)" % kname,
                                 dict(case, cond_pos=hexl(cpos), cond_val=hexl(cval)))
                    # universal kriging: the drift is evaluated in the ORIGINAL coordinates (anisometrize(isometrize(x)) = x)
                    A = np.asarray(gs.tools.geometric.matrix_anisometrize(dim, m.angles, m.anis))

                    def drift_orig(*x):
                        return x[0] + 0.5 * x[-1]

                    def drift_iso(*y):
                        x = A @ np.asarray(y)
                        return x[0] + 0.5 * x[-1]
                    ka = gs.krige.Universal(m, cpos, cval, [drift_orig])
                    ki = gs.krige.Universal(iso, cip, cval, [drift_iso])
                    fa, va = ka(pos, return_var=True)
                    fi, vi = ki(ip, return_var=True)
                    if not (rel_ok(fa, fi, amp * 10) and rel_ok(va, vi, m.sill * 10)):
                        viol("krige-universal", "Universal kriging: drift not evaluated at the original positions / result differs",
                             dict(case, cond_pos=hexl(cpos), cond_val=hexl(cval)))
                    ed_c, ed_t = rng.normal(size=nc), rng.normal(size=n)
                    fa, va = gs.krige.ExtDrift(m, cpos, cval, ed_c)(pos, ext_drift=ed_t, return_var=True)
                    fi, vi = gs.krige.ExtDrift(iso, cip, cval, ed_c)(ip, ext_drift=ed_t, return_var=True)
                    if not (rel_ok(fa, fi, amp * 10) and rel_ok(va, vi, m.sill * 10)):
                        viol("krige-extdrift", "ExtDrift kriging with anisotropic model != isotropic model at isometrize(x)", case)
                    # --- conditioned random field
                    ca = gs.CondSRF(gs.krige.Ordinary(m, cpos, cval), seed=seed, mode_no=32)(pos)
                    ci = gs.CondSRF(gs.krige.Ordinary(iso, cip, cval), seed=seed, mode_no=32)(ip)
                    if not rel_ok(ca, ci, amp):
                        viol("condsrf", "CondSRF with anisotropic model != isotropic model at isometrize(x)", case)
                except Exception as e:
                    viol("pipeline-exception", "pipeline raised %r" % (e,), case)
    # every covariance model class through kriging (covariance only, cheap)
    names = [nm for nm in MODELS_ALL if hasattr(gs, nm)]
    for name in names:
        for dim in (2, 3):
            if name == "Circular" and dim > 2 or name == "Linear":
                continue
            try:
                m, iso = make_models(gs, name, dim, rng)
                cpos = rng.uniform(-3, 3, size=(dim, 7)) * m.len_scale
                cval = rng.normal(size=7)
                pos = rng.uniform(-3, 3, size=(dim, 12)) * m.len_scale
                case = dict(model=name, dim=dim, var=m.var, len_scale=m.len_scale, nugget=m.nugget, anis=hexl(m.anis),
                            angles=hexl(m.angles), pos=hexl(pos), cond_pos=hexl(cpos), cond_val=hexl(cval))
                ctx.count(("krige-model", name, dim), hist=dict(pipeline="Krige all models"))
                fa, va = gs.krige.Ordinary(m, cpos, cval)(pos, return_var=True)
                fi, vi = gs.krige.Ordinary(iso, m.isometrize(cpos), cval)(m.isometrize(pos), return_var=True)
                if not (rel_ok(fa, fi, 1.0) and rel_ok(va, vi, m.sill)):
                    viol("krige-ordinary", "Ordinary kriging (%s) with anisotropic model != isotropic model at isometrize(x)" % name, case)
            except Exception as e:
                viol("pipeline-exception", "kriging with %s raised %r" % (name, e), dict(model=name, dim=dim))


# --------------------------------------------------------------------------- histories on one model object

HIST_MODELS = ["Gaussian", "Exponential", "Matern", "Stable", "Rational", "Cubic", "HyperSpherical"]   # valid in every dim
EMPTY = np.zeros(0)


class Shadow:
    """the Coq state machine (geo_init / geo_step, executed by the extracted model) next to one CovModel object"""

    def __init__(self, drv, dim, ls, anis, angles, temporal):
        self.drv, self.temporal = drv, bool(temporal)
        r = drv.call("geo_init", ("n", dim), np.atleast_1d(np.asarray(ls, dtype=float)), np.atleast_1d(np.asarray(anis, dtype=float)),
                     np.atleast_1d(np.asarray(angles, dtype=float)), self.temporal)
        self.valid = r is not None
        if self.valid:
            self.set(r)

    def set(self, r):
        self.dim, self.len, self.anis, self.angles = int(r[0]), float(r[1]), np.asarray(r[2], dtype=float), np.asarray(r[3], dtype=float)

    def step(self, code, vec=EMPTY, d=0):
        self.set(self.drv.call("geo_step", ("n", self.dim), self.len, self.anis, self.angles, self.temporal, ("n", code),
                               np.atleast_1d(np.asarray(vec, dtype=float)), ("n", d)))

    def args(self):
        return (("n", self.dim), self.len, self.anis, self.angles, self.temporal)


def as_user(rng, vals, names, log, what, callers):
    """hand a parameter vector to the library the way users do: float, list, tuple or float64 ndarray (kept: aliasing)"""
    vals = np.asarray(vals, dtype=float)
    kinds = ["list", "array", "tuple"] + (["scalar"] if len(vals) == 1 else [])
    k = kinds[int(rng.integers(len(kinds)))]
    log.append("%s as %s %s" % (what, k, hexl(vals)))
    if k == "scalar":
        return float(vals[0])
    if k == "list":
        return [float(v) for v in vals]
    if k == "tuple":
        return tuple(float(v) for v in vals)
    arr = np.array(vals, dtype=np.double)
    callers.append([what, arr, arr.copy()])
    return arr


def fresh_model(gs, cls, sh, proto):
    """a new object built from the PRESENT parameter values (what every result must be a function of)"""
    kw = {k: getattr(proto, k) for k in proto.opt_arg}
    return cls(dim=sh.dim, var=proto.var, len_scale=sh.len, nugget=proto.nugget, rescale=proto.rescale,
               anis=[float(a) for a in sh.anis] if sh.dim > 1 else 1.0,
               angles=[float(a) for a in sh.angles] if len(sh.angles) else 0.0, temporal=sh.temporal, **kw)


def gen_geo_op(rng, sh, allow_dim, cls_name):
    """(name, code, vector, new_dim): a setter call on the model that touches the geometry (valid values)"""
    dim = sh.dim
    noa = dim * (dim - 1) // 2
    u = rng.random()
    if u < 0.12:
        return ("len_scale", 0, 10.0 ** rng.uniform(-0.5, 1, size=1), 0)
    if u < 0.36:
        return ("len_scale", 0, 10.0 ** rng.uniform(-0.5, 1, size=int(rng.integers(2, dim + 2))), 0)
    if u < 0.46 and cls_name in ("Gaussian", "Exponential"):
        return ("integral_scale", 0, 10.0 ** rng.uniform(-0.5, 1, size=int(rng.integers(2, dim + 2))), 0)
    if u < 0.68:
        return ("anis", 1, gen_anis(rng, int(rng.integers(1, dim + 1)), wide=False), 0)
    if u < 0.9 or not allow_dim:
        n = int(rng.choice([1, max(noa, 1), max(noa, 1), noa + 1]))
        a = rng.uniform(0.2, 1.4, size=n) * rng.choice([-1.0, 1.0], size=n)
        return ("angles", 2, a, 0)
    nd = int(rng.integers(2 if sh.temporal else 1, 5))
    return ("dim", 3, EMPTY, nd)


def apply_geo_op(gs, rng, m, sh, op, log, callers):
    name, code, vec, nd = op
    if name == "dim":
        log.append("model.dim = %d" % nd)
        m.dim = nd
        sh.step(3, EMPTY, nd)
    elif name == "integral_scale":
        m.integral_scale = as_user(rng, vec, None, log, "model.integral_scale", callers)
        sh.step(0, vec)
        kw = {k: getattr(m, k) for k in m.opt_arg}
        unit = type(m)(dim=sh.dim, len_scale=1.0, rescale=m.rescale, **kw).integral_scale
        sh.step(0, [sh.len / unit])
    else:
        setattr(m, name, as_user(rng, vec, None, log, "model." + name, callers))
        sh.step(code, vec)


def check_model(ctx, gs, drv, rng, m, sh, log, callers, siblings, tag):
    """one model object against (a) the Coq state machine, (b) the extracted coordinate maps of the present state,
    (c) a fresh object built from the present parameters; plus caller arrays / sibling models untouched"""
    def viol(name, what, extra=None):
        if name not in SEEN:
            SEEN.add(name)
            ctx.violation("probe: " + name, what, dict(history=list(log), tag=tag, **(extra or {})), key="probe:" + name)

    for what, arr, ref in callers:
        if not C.bit_equal(arr, ref):
            viol("history-caller-array", "the library wrote into an array handed over by the caller (%s)" % what,
                 dict(now=hexl(arr), was=hexl(ref)))
            ref[...] = arr
    for sm, ssh, slog in [(m, sh, log)] + siblings:
        ok = (sm.dim == ssh.dim and C.bit_equal(np.asarray(sm.anis), ssh.anis) and C.bit_equal(np.asarray(sm.angles), ssh.angles)
              and agree(sm.len_scale, ssh.len, abs(ssh.len), tol=1e-13))
        if not ok:
            viol("history-params", "model parameters (dim, len_scale, anis, angles) differ from the setter state machine after this history"
                 + ("" if sm is m else " (a model built earlier from the same arrays changed)"),
                 dict(model=[sm.dim, float(sm.len_scale), hexl(sm.anis), hexl(sm.angles)],
                      expected=[ssh.dim, ssh.len, hexl(ssh.anis), hexl(ssh.angles)], sibling_history=None if sm is m else list(slog)))
            return False
    dim = sh.dim
    pos = rng.normal(size=(dim, 4)) * 3
    fm = fresh_model(gs, type(m), sh, m)
    mi = np.asarray(gs.tools.geometric.matrix_isometrize(dim, sh.angles, sh.anis))
    ma = np.asarray(gs.tools.geometric.matrix_anisometrize(dim, sh.angles, sh.anis))
    sci, sca = np.abs(mi) @ np.abs(pos), np.abs(ma) @ np.abs(pos)
    extra = dict(pos=hexl(pos), dim=dim, anis=hexl(sh.anis), angles=hexl(sh.angles))
    obs = [("isometrize", m.isometrize(pos), fm.isometrize(pos), drv.call("geo_isometrize", *sh.args(), pos), sci),
           ("anisometrize", m.anisometrize(pos), fm.anisometrize(pos), drv.call("geo_anisometrize", *sh.args(), pos), sca),
           ("_get_iso_rad", m._get_iso_rad(pos), fm._get_iso_rad(pos), drv.call("geo_iso_rad", *sh.args(), pos), np.linalg.norm(sci, axis=0)),
           ("main_axes", m.main_axes(), fm.main_axes(), drv.call("rotated_main_axes", ("n", dim), sh.angles), 1.0)]
    good = True
    for nm, got, fresh, model, sc in obs:
        if not agree(got, fresh, tol=0.0):
            viol("history-" + nm, "%s of a model with a setter history differs from a fresh model with the present parameters" % nm, extra)
            good = False
        elif not agree(got, model, sc):
            viol("history-model-" + nm, "%s differs from the (extracted) Coq function of the present parameters" % nm, extra)
            good = False
    rad = drv.call("geo_iso_rad", *sh.args(), pos)
    for nm, fs, f in (("cov_spatial", m.cov_spatial, fm.covariance), ("vario_spatial", m.vario_spatial, fm.variogram),
                      ("cor_spatial", m.cor_spatial, fm.correlation)):
        if not C.close(fs(pos), f(rad), rtol=RTOL_PIPE, scale=max(m.sill, 1.0)):
            viol("history-" + nm, "%s(x) is not the isotropic function of the radius given by the present parameters" % nm, extra)
            good = False
    if not agree(m.anisometrize(m.isometrize(pos)), pos, np.abs(ma) @ sci, tol=1e-11):
        viol("history-round-trip", "anisometrize(isometrize(x)) != x after this history", extra)
        good = False
    if not agree(m.len_scale_vec, np.concatenate(([sh.len], sh.len * sh.anis)), tol=0.0):
        viol("history-len-scale-vec", "len_scale_vec is not len_scale * (1, anis) of the present parameters", extra)
    return good


def start_model(gs, drv, rng, dims, log, callers, temporal_ok=True):
    name = HIST_MODELS[int(rng.integers(len(HIST_MODELS)))]
    cls = getattr(gs, name)
    dim = int(dims[int(rng.integers(len(dims)))])
    temporal = bool(temporal_ok and dim >= 2 and rng.random() < 0.25)
    noa = dim * (dim - 1) // 2
    ls = 10.0 ** rng.uniform(-0.5, 1, size=int(rng.choice([1, 1, min(2, dim), dim])))
    anis = gen_anis(rng, max(dim - 1, 1), wide=False)
    angles = rng.uniform(0.2, 1.4, size=max(noa, 1)) * rng.choice([-1.0, 1.0], size=max(noa, 1))
    log.append("%s(dim=%d, temporal=%s)" % (name, dim, temporal))
    kw = dict(var=float(10 ** rng.uniform(-0.5, 0.5)), nugget=0.0)
    m = cls(dim=dim, temporal=temporal, len_scale=as_user(rng, ls, None, log, "len_scale", callers),
            anis=as_user(rng, anis, None, log, "anis", callers), angles=as_user(rng, angles, None, log, "angles", callers), **kw)
    sh = Shadow(drv, dim, ls, anis, angles, temporal)
    return name, cls, m, sh


def scribble(rng, callers, log):
    """the caller goes on using an array it handed over earlier"""
    if not callers:
        return
    c = callers[int(rng.integers(len(callers)))]
    if len(c[1]):
        c[1][...] = c[1] * 1.5 + 0.25
        c[2][...] = c[1]
        log.append("caller edits its %s array in place -> %s" % (c[0], hexl(c[1])))


def edit_returned(gs, drv, rng, m, sh, log):
    """the caller edits, in place, an array the library RETURNED (plot arrows from main_axes, normalised axes, ...).
    Results are the caller's property: no later evaluation - by this or any other model - may depend on it.
    model.anis / model.angles hand out the stored parameters themselves: editing them IS an in-place parameter change,
    the present parameters are re-read from the model afterwards."""
    G = gs.tools.geometric
    dim = sh.dim
    pos = rng.normal(size=(dim, int(rng.choice([1, dim, 5])))) * 3
    srcs = [("model.main_axes()", lambda: m.main_axes()), ("model.len_scale_vec", lambda: m.len_scale_vec),
            ("model.isometrize(pos)", lambda: m.isometrize(pos)), ("model.anisometrize(pos)", lambda: m.anisometrize(pos)),
            ("model._get_iso_rad(pos)", lambda: m._get_iso_rad(pos)),
            ("matrix_rotate", lambda: G.matrix_rotate(dim, m.angles)), ("matrix_derotate", lambda: G.matrix_derotate(dim, m.angles)),
            ("matrix_isometrize", lambda: G.matrix_isometrize(dim, m.angles, m.anis)),
            ("matrix_anisometrize", lambda: G.matrix_anisometrize(dim, m.angles, m.anis)),
            ("matrix_isotropify", lambda: G.matrix_isotropify(dim, m.anis)), ("matrix_anisotropify", lambda: G.matrix_anisotropify(dim, m.anis)),
            ("rotated_main_axes", lambda: G.rotated_main_axes(dim, m.angles)),
            ("set_angles(model.angles)", lambda: G.set_angles(dim, np.array(m.angles))), ("set_anis(model.anis)", lambda: G.set_anis(dim, np.array(m.anis))),
            ("model.anis", None), ("model.angles", None)]
    nm, f = srcs[int(rng.integers(len(srcs)))]
    if f is not None:
        arr = f()
        if isinstance(arr, np.ndarray) and arr.size and arr.flags.writeable:
            arr *= 1.75
            arr += 0.5
            log.append("caller edits the array returned by %s in place" % nm)
        return
    noa_sp = (dim - 1) * (dim - 2) // 2 if sh.temporal else dim * (dim - 1) // 2
    if nm == "model.anis" and dim > 1:
        a = m.anis
        a *= 1.5
        log.append("caller scales the array returned by model.anis in place (= parameter change) -> %s" % hexl(m.anis))
    elif nm == "model.angles" and noa_sp > 0:
        a = m.angles
        a[0] += 0.3
        log.append("caller edits entry 0 of the array returned by model.angles in place (= parameter change) -> %s" % hexl(m.angles))
    else:
        return
    r = Shadow(drv, m.dim, [float(m.len_scale)], np.asarray(m.anis) if m.dim > 1 else [1.0], np.asarray(m.angles) if len(m.angles) else [0.0], sh.temporal)
    sh.set((r.dim, r.len, r.anis, r.angles))
    return True


def make_sibling(gs, drv, rng, cls, m, sh, callers, siblings, log):
    """another model built from arrays the first one was built from / hands out"""
    u = rng.random()
    ang = [c for c in callers if c[0].endswith("angles")]
    if u < 0.4 and ang:
        src, what = ang[-1][1], "the caller's angles array"
    elif u < 0.8:
        src, what = m.angles, "model.angles"
    else:
        src, what = None, "model.anis"
    dim = sh.dim
    temporal = bool(dim >= 2 and rng.random() < 0.6)
    slog = ["sibling %s(dim=%d, temporal=%s) built from %s" % (cls.__name__, dim, temporal, what)]
    log.append(slog[0])
    if src is None:
        sm = cls(dim=dim, temporal=temporal, anis=m.anis if dim > 1 else 1.0)
        ssh = Shadow(drv, dim, [1.0], sh.anis if dim > 1 else [1.0], [0.0], temporal)
    else:
        vals = np.array(src, dtype=float)
        sm = cls(dim=dim, temporal=temporal, angles=src if len(vals) else 0.0)
        ssh = Shadow(drv, dim, [1.0], [1.0], vals if len(vals) else [0.0], temporal)
    siblings.append((sm, ssh, slog))


def model_histories(ctx, drv, rng):
    import gstools as gs
    n_hist = 100 if ctx.tier == "thorough" else 30
    steps = 12
    for h in range(n_hist):
        log, callers, siblings = [], [], []
        try:
            name, cls, m, sh = start_model(gs, drv, rng, (1, 2, 3, 4), log, callers)
            ctx.count(("history-model", name, sh.dim, sh.temporal), hist=dict(history="model only", hist_class=name))
            if not check_model(ctx, gs, drv, rng, m, sh, log, callers, siblings, "model history %d" % h):
                continue
            for k in range(steps):
                u = rng.random()
                if u < 0.15:
                    log.append("evaluate")
                elif u < 0.24:
                    scribble(rng, callers, log)
                elif u < 0.36:
                    edit_returned(gs, drv, rng, m, sh, log)
                elif u < 0.44:
                    make_sibling(gs, drv, rng, cls, m, sh, callers, siblings, log)
                elif u < 0.5:
                    log.append("model.rescale = ...")
                    m.rescale = float(10 ** rng.uniform(-0.3, 0.3))
                else:
                    op = gen_geo_op(rng, sh, True, name)
                    apply_geo_op(gs, rng, m, sh, op, log, callers)
                    ctx.count(None, hist=dict(history_op=op[0]))
                ctx.count(("history-step", name, log[-1].split(" ")[0].split("=")[0], k) if sh.dim > 1 else None)
                if not check_model(ctx, gs, drv, rng, m, sh, log, callers, siblings, "model history %d step %d" % (h, k)):
                    break
        except Exception as e:
            if "history-exception" not in SEEN:
                SEEN.add("history-exception")
                ctx.violation("probe: history-exception", "a valid setter history raised %r" % (e,), dict(history=log), key="probe:history-exception")


def holder_histories(ctx, drv, rng):
    """SRF / Krige / CondSRF objects holding ONE model object that is changed in place, re-assigned, evaluated on new
    and on stored positions; every result against fresh objects built from the present parameters and against the
    extracted isometrize of the present parameters"""
    import gstools as gs
    n_hist = 60 if ctx.tier == "thorough" else 20
    steps = 10
    for h in range(n_hist):
        log, callers, siblings = [], [], []

        def viol(name, what, extra=None):
            if name not in SEEN:
                SEEN.add(name)
                ctx.violation("probe: " + name, what, dict(history=list(log), **(extra or {})), key="probe:" + name)
        try:
            while True:
                log, callers = [], []
                name, cls, m, sh = start_model(gs, drv, rng, (2, 3), log, callers)
                if name in SRF_MODELS:
                    break
            dim = sh.dim
            ctx.count(("history-holder", name, dim, sh.temporal), hist=dict(history="SRF/Krige/CondSRF holders", hist_class=name))
            seed0 = int(rng.integers(1, 2 ** 31 - 1))
            simple = bool(rng.random() < 0.5)
            cond = {}

            def new_cond(who, n):
                cond[who] = (rng.uniform(-4, 4, size=(dim, n)) * sh.len, rng.normal(size=n))

            def mk_krige(mod, who, fit=False):
                cp, cv = cond[who]
                if simple:
                    return gs.krige.Simple(mod, cp, cv, mean=0.2, fit_variogram=fit)
                return gs.krige.Ordinary(mod, cp, cv, fit_variogram=fit)

            def resync():
                """fit_variogram changed the model in place: the present parameters are whatever the model now reports"""
                nsh = Shadow(drv, m.dim, [float(m.len_scale)], np.asarray(m.anis) if m.dim > 1 else [1.0],
                             np.asarray(m.angles) if len(m.angles) else [0.0], sh.temporal)
                sh.set((nsh.dim, nsh.len, nsh.anis, nsh.angles))
                log.append("fit_variogram changed the model: len_scale %s anis %s angles %s nugget %r" % (
                    C.fhex(m.len_scale), hexl(m.anis), hexl(m.angles), float(m.nugget)))

            fit0 = (h % 3 == 1)
            new_cond("kr", 30 if fit0 else 7)
            new_cond("cs", 7)
            srf = gs.SRF(m, seed=seed0, mode_no=32)
            try:
                kr = mk_krige(m, "kr", fit0)
            except (RuntimeError, ValueError) as e:   # the optimiser of fit_variogram gave up: not this property
                ctx.count(None, hist=dict(history="fit_variogram failed"))
                continue
            cs = gs.CondSRF(mk_krige(m, "cs"), seed=seed0, mode_no=32)
            log.append("SRF(model), %s(model, cond, fit_variogram=%s), CondSRF(krige(model, cond)) created" % ("Simple" if simple else "Ordinary", fit0))
            dirty = dict(kr=False, cs=False)
            stored = dict(srf=None, kr=None, cs=None)
            force = None
            if fit0:
                resync()
                force = "kr"
                dirty["cs"] = True
            for k in range(steps):
                u = rng.random() if force is None else 1.0
                if force is None and m.nugget > 0:
                    log.append("model.nugget = 0.0")
                    m.nugget = 0.0
                    dirty["kr"] = dirty["cs"] = True
                if u < 0.08:
                    # new conditioning data, optionally fitting the model to them (changes the model in place)
                    who = ["kr", "cs"][int(rng.integers(2))]
                    fit = bool(rng.random() < 0.6)
                    new_cond(who, 30 if fit else 7)
                    log.append("%s.set_condition(new data, fit_variogram=%s): %s %s" % (who, fit, hexl(cond[who][0]), hexl(cond[who][1])))
                    try:
                        (kr if who == "kr" else cs.krige).set_condition(cond[who][0], cond[who][1], fit_variogram=fit)
                    except (RuntimeError, ValueError):
                        ctx.count(None, hist=dict(history="fit_variogram failed"))
                        break
                    dirty[who] = False
                    if fit:
                        resync()
                        dirty["cs" if who == "kr" else "kr"] = True
                        force = who
                    continue
                if u < 0.3:
                    op = gen_geo_op(rng, sh, False, name)
                    apply_geo_op(gs, rng, m, sh, op, log, callers)
                    dirty["kr"] = dirty["cs"] = True
                    ctx.count(None, hist=dict(history_op=op[0]))
                    if not check_model(ctx, gs, drv, rng, m, sh, log, callers, siblings, "holder history %d step %d" % (h, k)):
                        break
                    continue
                if u < 0.38:
                    if rng.random() < 0.5:
                        scribble(rng, callers, log)
                    elif edit_returned(gs, drv, rng, m, sh, log):
                        dirty["kr"] = dirty["cs"] = True
                    if not check_model(ctx, gs, drv, rng, m, sh, log, callers, siblings, "holder history %d step %d" % (h, k)):
                        break
                    continue
                # an evaluation through one holder: new positions (unstructured / structured) or the stored ones
                who = ["srf", "kr", "cs"][int(rng.integers(3))] if force is None else force
                force_now, force = force, None
                if m.nugget > 0 and who == "cs":
                    who = "csk"   # right after a fit: the nugget noise of CondSRF depends on the RNG position; its kriging part is compared
                ckey = {"kr": "kr", "cs": "cs", "csk": "cs"}.get(who)
                holders = {"srf": srf, "kr": kr, "cs": cs, "csk": cs.krige}
                if ckey and dirty[ckey]:
                    # documented way to tell a kriging object about an in-place model change: hand the model over again
                    log.append("%s.model = model (same object)" % who)
                    holders[who].model = m
                    dirty[ckey] = False
                elif force_now is None and rng.random() < 0.25:
                    log.append("%s.model = model (same object)" % who)
                    holders[who].model = m
                seed = int(rng.integers(1, 2 ** 31 - 1))
                skey = ckey or who          # CondSRF and its kriging object share the stored positions
                use_stored = stored.get(skey) is not None and rng.random() < 0.5
                if use_stored:
                    pos, mt = stored[skey]
                    log.append("%s() on the stored positions, seed %d" % (who, seed))
                    arg = dict()
                else:
                    if rng.random() < 0.3:
                        mt = "structured"
                        pos = [np.sort(rng.uniform(-3, 3, size=3)) * sh.len for _ in range(dim)]
                    else:
                        mt = "unstructured"
                        pos = rng.uniform(-4, 4, size=(dim, 9)) * sh.len
                    log.append("%s(pos, mesh_type=%s), seed %d: %s" % (who, mt, seed, [hexl(p) for p in pos]))
                    arg = dict(pos=[np.array(p) for p in pos], mesh_type=mt)
                    stored[skey] = ([np.array(p) for p in pos], mt)
                fm = fresh_model(gs, cls, sh, m)
                fpos = [np.array(p) for p in pos]
                upos = np.array(np.meshgrid(*fpos, indexing="ij")).reshape(dim, -1) if mt == "structured" else np.array(fpos)
                amp = math.sqrt(m.sill)
                ctx.count(("history-eval", who, mt, use_stored, dim), hist=dict(history_eval="%s %s %s" % (who, mt, "stored" if use_stored else "new")))
                if who == "srf":
                    got = srf(seed=seed, **arg)
                    want = gs.SRF(fm, seed=seed, mode_no=32)(fpos, mesh_type=mt)
                    ok = rel_ok(got, want, amp)
                    holder = srf
                elif who in ("kr", "csk"):
                    holder = holders[who]
                    got = holder(return_var=True, **arg)
                    want = mk_krige(fm, ckey)(fpos, mesh_type=mt, return_var=True)
                    ok = rel_ok(got[0], want[0], max(amp, 1.0)) and rel_ok(got[1], want[1], m.sill)
                else:
                    got = cs(seed=seed, **arg)
                    want = gs.CondSRF(mk_krige(fm, "cs"), seed=seed, mode_no=32)(fpos, mesh_type=mt)
                    ok = rel_ok(got, want, max(amp, 1.0))
                    holder = cs
                if not ok:
                    viol("history-%s" % who, "%s result after this history differs from a fresh %s built from the present model parameters"
                         % (who, type(holder).__name__), dict(dim=dim, anis=hexl(sh.anis), angles=hexl(sh.angles)))
                # the isotropic positions the holder works with = extracted isometrize of the present parameters
                iso_m = drv.call("geo_isometrize", *sh.args(), upos)
                sc = np.abs(np.asarray(gs.tools.geometric.matrix_isometrize(dim, sh.angles, sh.anis))) @ np.abs(upos)
                iso_h = holder.pre_pos()[0]
                if not agree(iso_h, iso_m, sc):
                    viol("history-pre-pos", "%s.pre_pos() on the stored positions is not isometrize(present parameters)(pos)" % who,
                         dict(dim=dim, anis=hexl(sh.anis), angles=hexl(sh.angles)))
                if ckey:
                    kp = getattr(kr if who == "kr" else cs.krige, "_krige_pos", None)
                    if kp is not None:
                        cpos = cond[ckey][0]
                        scc = np.abs(np.asarray(gs.tools.geometric.matrix_isometrize(dim, sh.angles, sh.anis))) @ np.abs(cpos)
                        if not agree(kp, drv.call("geo_isometrize", *sh.args(), cpos), scc):
                            viol("history-krige-pos", "conditioning positions of %s are not isometrized with the present parameters" % who,
                                 dict(dim=dim, anis=hexl(sh.anis), angles=hexl(sh.angles)))
                if not check_model(ctx, gs, drv, rng, m, sh, log, callers, siblings, "holder history %d step %d" % (h, k)):
                    break
        except Exception as e:
            if "history-exception" not in SEEN:
                SEEN.add("history-exception")
                import traceback
                ctx.violation("probe: history-exception", "a valid history raised %r" % (e,), dict(history=log, tb=traceback.format_exc()[-1500:]),
                              key="probe:history-exception")


# --------------------------------------------------------------------------- purity: results are the caller's property

def purity_probes(ctx, rng):
    """every function of tools/geometric.py and every coordinate method of CovModel is a pure function of its
    arguments / of the model's present parameters: the arguments are left alone, and whatever the caller does to a
    RETURNED array, a later call with equal arguments - through the same or ANOTHER model - returns the same values
    (no module-level cache handing out its own storage, no view of internal state)"""
    import gstools as gs
    from gstools.tools import geometric as G

    def viol(name, what, case):
        if name not in SEEN:
            SEEN.add(name)
            ctx.violation("probe: " + name, what, case, key="probe:" + name)

    reps = 12 if ctx.tier == "thorough" else 3
    for dim in (1, 2, 3, 4):
        noa = dim * (dim - 1) // 2
        for rep in range(reps):
            angles = gen_angles(rng, noa, max(noa, 1))
            angles[np.abs(angles) > 100] = 1.0
            anis = gen_anis(rng, max(dim - 1, 1), wide=False)
            npts = int(rng.choice([1, 2, dim, dim + 1, 6]))
            pos = rng.normal(size=(dim, npts)) * 3
            layout = ["C", "F", "strided"][int(rng.integers(3))]

            def lay(a):
                a = np.array(a, dtype=float)
                if layout == "F":
                    return np.asfortranarray(a)
                if layout == "strided" and a.ndim == 2:
                    big = np.zeros((a.shape[0], 2 * a.shape[1]))
                    big[:, ::2] = a
                    return big[:, ::2]
                return a
            mk = lambda: gs.Exponential(dim=dim, len_scale=2.0, anis=list(anis[: dim - 1]) if dim > 1 else 1.0,
                                        angles=list(angles[:noa]) if noa else 0.0)
            m1 = mk()
            calls = [
                ("set_angles", lambda a, s, p: G.set_angles(dim, a)), ("set_anis", lambda a, s, p: G.set_anis(dim, s)),
                ("givens_rotation", lambda a, s, p: G.givens_rotation(dim, (0, dim - 1), a[0]) if dim > 1 else np.eye(1)),
                ("matrix_rotate", lambda a, s, p: G.matrix_rotate(dim, a)), ("matrix_derotate", lambda a, s, p: G.matrix_derotate(dim, a)),
                ("matrix_isotropify", lambda a, s, p: G.matrix_isotropify(dim, s)), ("matrix_anisotropify", lambda a, s, p: G.matrix_anisotropify(dim, s)),
                ("matrix_isometrize", lambda a, s, p: G.matrix_isometrize(dim, a, s)), ("matrix_anisometrize", lambda a, s, p: G.matrix_anisometrize(dim, a, s)),
                ("rotated_main_axes", lambda a, s, p: G.rotated_main_axes(dim, a)),
                ("CovModel.main_axes", lambda a, s, p: m1.main_axes()), ("CovModel.isometrize", lambda a, s, p: m1.isometrize(p)),
                ("CovModel.anisometrize", lambda a, s, p: m1.anisometrize(p)), ("CovModel._get_iso_rad", lambda a, s, p: m1._get_iso_rad(p)),
                ("CovModel.len_scale_vec", lambda a, s, p: m1.len_scale_vec), ("CovModel.cov_spatial", lambda a, s, p: m1.cov_spatial(p)),
            ]
            for nm, f in calls:
                a0, s0, p0 = np.array(angles), np.array(anis), lay(pos)
                case = dict(fn=nm, dim=dim, angles=hexl(angles), anis=hexl(anis), pos=hexl(pos), npts=npts, layout=layout)
                ctx.count(("purity", nm, dim, layout, npts == dim), hist=dict(purity_fn=nm, pos_layout=layout, npts_vs_dim="n==dim" if npts == dim else "n!=dim"))
                try:
                    r1 = f(a0, s0, p0)
                    if not (C.bit_equal(a0, angles) and C.bit_equal(s0, anis) and C.bit_equal(p0, pos)):
                        viol("purity-args", "%s wrote into its arguments" % nm, case)
                    keep = np.array(r1, dtype=float)
                    # the same values for every memory layout of the positions
                    rc = f(np.array(angles), np.array(anis), np.ascontiguousarray(pos))
                    if not agree(rc, keep, tol=0.0):
                        viol("purity-layout", "%s depends on the memory layout of the position array" % nm, case)
                    if isinstance(r1, np.ndarray) and r1.size and r1.flags.writeable:
                        r1 *= -2.5
                        r1 += 0.75
                    for who, g in (("the same object", f), ("another model with equal parameters", None)):
                        if g is None:
                            if not nm.startswith("CovModel."):
                                continue
                            m2 = mk()
                            attr = nm.split(".")[1]
                            g = (lambda a, s, p: getattr(m2, attr)) if attr == "len_scale_vec" else (
                                (lambda a, s, p: getattr(m2, attr)()) if attr == "main_axes" else (lambda a, s, p: getattr(m2, attr)(p)))
                        r2 = g(np.array(angles), np.array(anis), np.array(pos))
                        if not agree(r2, keep, tol=0.0):
                            viol("purity-result", "after the caller edited the array returned by %s in place, a later call (%s) "
                                 "returns other values: the result was not the caller's own copy" % (nm, who), case)
                except Exception as e:
                    viol("purity-exception", "%s raised %r" % (nm, e), case)


# --------------------------------------------------------------------------- run

def run(ctx):
    rng = C.Rng(ctx.seed, "C12")
    ctx.rule = ("cases = (dim, angle list, anis list) with every given length 0..needed+2, dims 1-4 (1-6/1-8 thorough); model / "
                "pipeline cases = (model class, dim, random anis, angles, positions); history cases = (class, dim, op kind, step) of "
                "random setter / aliasing / re-assignment / evaluation histories on one model object and its holders; non-trivial = dim >= 2 with some "
                "|sin(angle)| > 1e-6 and some anis != 1; distinct = distinct (stage, dim, lengths) or (model class, dim) keys")
    ctx.trusted = [
        "Coq 8.16.1 kernel (coqc); no native_compute",
        "extraction (ExtrOcamlBasic only), OCaml 4.13, ocaml/proto.ml float instance (glibc libm)",
        "hand model coq/c12/C12_Model.v of tools/geometric.py + CovModel coordinate methods: tied by execution only",
        "theorems are over exact reals (Coq Reals: cos, sin, sqrt); IEEE rounding, numpy matmul/dot, numpy cos/sin are compared, not verified",
    ]
    ctx.not_proved = [
        "determinant +1 is proved with explicit determinants for dims 1-4 only (dims >= 5: orthogonality proved, det probed numerically)",
        "pipeline statement (SRF/Krige/CondSRF results depend on positions only through isometrize) is probed on the "
        "implementation, and proved only in the form: the isotropic twin's isometrize is the identity",
        "lat-lon branch of isometrize/anisometrize belongs to C13",
        "vector fields: for models classified isotropic (np.isclose(anis, 1)) with angles the claim is 'same field as the unrotated "
        "twin in the given coordinates' (see design/C12.md, Vector fields); inside the isclose band (|anis-1| <= 1e-8 + 1e-5) the "
        "implementation drops the ratio for vector fields",
        "floating-point rounding",
    ]
    proofs_ok = ctx.proofs("props/C12.v")
    tie_broken = []
    bad = []
    ok, out = C.build_driver("c12")
    drv = None
    if ok:
        drv = C.Driver("c12")
    else:
        tie_broken.append("extraction/driver build: " + out[-400:])
    # first: a poisoned module-level cache would make every later stage fail with inputs that do not reproduce alone
    purity_probes(ctx, C.Rng(ctx.seed, "C12/purity"))
    try:
        if drv is not None:
            correspondence(ctx, drv, rng, bad)
            model_histories(ctx, drv, C.Rng(ctx.seed, "C12/model-histories"))
            holder_histories(ctx, drv, C.Rng(ctx.seed, "C12/holder-histories"))
    finally:
        if drv:
            drv.close()
    matrix_probes(ctx, C.Rng(ctx.seed, "C12/matrix"))
    model_probes(ctx, C.Rng(ctx.seed, "C12/models"))
    temporal_probes(ctx, C.Rng(ctx.seed, "C12/temporal"))
    threshold_probes(ctx, C.Rng(ctx.seed, "C12/threshold"))
    pipeline_probes(ctx, C.Rng(ctx.seed, "C12/pipes"))
    if bad:
        names = sorted(set(b[0] for b in bad))
        ctx.notes.append("correspondence disagreements: %s" % names)
        tie_broken.append("correspondence: model and implementation disagree on %s (%d cases)" % (names, len(bad)))
    if (tie_broken or not proofs_ok) and not ctx.violations:
        ctx.violation("proof/tie", "proof obligations or the model/code tie of C12 no longer check: %s" % (
            tie_broken or getattr(ctx, "proof_failure", {}).get("output_tail", "")[-600:]),
            dict(tie_broken=tie_broken, first_cases=[dict(fn=b[0], case=b[1]) for b in bad[:5]],
                 proof=getattr(ctx, "proof_failure", None)), no_input=True)
    elif bad and ctx.violations:
        ctx.notes.append("first disagreeing cases: %s" % json.dumps([dict(fn=b[0], case=b[1]) for b in bad[:3]], default=str)[:2000])


def replay(ctx, path):
    rec = json.load(open(path))
    print(json.dumps({k: rec[k] for k in ("stage", "what")}, indent=1))
    ctx.seed = int(rec.get("seed", ctx.seed))
    ctx.tier = rec.get("tier", ctx.tier)
    run(ctx)
    return ctx.finish()
