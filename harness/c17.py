"""C17 — Fourier-generated fields are exactly periodic.

stages: translate summator.pyx -> Gallina (kernel tie) ; theorems props/C17.v ; extraction + driver ;
        correspondence of the hand model C17_Model.v (fill_to_dim, delta_k, mode axes, generate_grid, k_norm,
        spectrum factor, whole pipeline with C12's isometrize, the update state machine on operation histories)
        against gstools.field.generator.Fourier / gstools.SRF ;
        probes of the property statement on the implementation: f(x) vs f(x + q * period_i * main_axis_i) at
        off-grid points for random configurations and after random update histories."""
import json
import math

import numpy as np

import common as C

# ---- tolerances (DESIGN 3.4) --------------------------------------------------------------------------------
# * delta_k, mode axes, grid, k_norm, spectrum factor: only + - * / sqrt on the same inputs -> expected bit-equal;
#   compared with 4 ulp relative (cond = 1: products, or sums of squares).
# * field values: go through cos/sin (numpy SIMD / glibc differ by a few ulp) of phases |k.x| <= ~1e4, so the
#   absolute error of one term is <= |amp_j| * (|phase| * 2^-52 + few ulp) <= 1e-11 * |amp_j|; everything is compared
#   with 1e-9 * AMP where AMP = sum_j sf_j (|z1_j| + |z2_j|) bounds every partial sum (no cancellation issue).
#   A broken period (wrong delta_k, odd count, stale grid) changes phases by O(1) and the field by O(AMP/sqrt(N)).
ULP4 = 4 * 2.0 ** -52
RTOL_FIELD = 1e-9

# classes with an analytic spectral density; the NUMERIC ones go through the numerical Hankel transform, which can return
# negative values (sqrt -> NaN): such cases are counted as skipped (external numerics, C02/C04), never as violations
ANALYTIC = ["Gaussian", "Exponential", "Matern", "Integral", "HyperSpherical", "TPLGaussian"]
NUMERIC = ["Stable", "Spherical", "Cubic", "Rational"]
SKIPPED = [0]


def hexl(a):
    return [C.fhex(v) for v in np.asarray(a, dtype=float).ravel()]


def unhex(l):
    return np.array([float.fromhex(x) if x not in ("nan", "inf", "-inf") else float(x) for x in l], dtype=float)


def near(a, b, rel=ULP4):
    a = np.asarray(a, dtype=float)
    b = np.asarray(b, dtype=float)
    if a.shape != b.shape:
        if a.size == 0 and b.size == 0:
            return True
        return False
    if a.size == 0:
        return True
    if not (np.isfinite(a).all() and np.isfinite(b).all()):
        return bool(((a == b) | (np.isnan(a) & np.isnan(b))).all())
    return bool((np.abs(a - b) <= rel * np.maximum(np.abs(a), np.abs(b))).all())


def iarr(l):
    return np.array([int(x) for x in l], dtype=np.int64)


# ---- configurations -----------------------------------------------------------------------------------------

def make_model(cfg):
    import gstools as gs
    if cfg.get("temporal"):
        # spatio-temporal model: dim = spatial_dim + 1, the LAST anis entry is the time ratio, no rotation into time
        sd = cfg["dim"] - 1
        kw = dict(temporal=True, spatial_dim=sd, var=cfg["var"], len_scale=cfg["len_scale"], anis=list(cfg["anis"]))
        if sd > 1:
            kw["angles"] = list(cfg["angles"])[: n_angles(sd)]
        kw.update(cfg.get("opt", {}))
        return getattr(gs, cfg["cls"])(**kw)
    kw = dict(dim=cfg["dim"], var=cfg["var"], len_scale=cfg["len_scale"])
    if cfg["dim"] > 1:
        kw["anis"] = list(cfg["anis"])
        kw["angles"] = list(cfg["angles"])
    kw.update(cfg.get("opt", {}))
    return getattr(gs, cfg["cls"])(**kw)


def pick_dim(rng):
    """field dimension 1-3, and now and then 4 (3 spatial axes + time)"""
    return 4 if rng.random() < 0.07 else int(rng.integers(1, 4))


def n_angles(dim):
    return dim * (dim - 1) // 2


def gen_model_cfg(rng, dim, classes, rotated=None):
    cls = classes[int(rng.integers(len(classes)))]
    anis = [float(x) for x in np.exp(rng.uniform(-1.5, 1.5, dim - 1))]
    for k in range(dim - 1):
        u = rng.random()
        if u < 0.15:
            anis[k] = 1.0
        elif u < 0.3:
            anis[k] = float(rng.choice([0.5, 2.0, 0.7, 0.25]))
    if rotated is None:
        rotated = rng.random() < 0.5
    angles = [float(x) for x in (rng.uniform(-math.pi, math.pi, n_angles(dim)) if rotated else np.zeros(n_angles(dim)))]
    temporal = bool(dim == 4 or (dim >= 2 and rng.random() < 0.3))
    if temporal:
        angles = angles[: n_angles(dim - 1)] + [0.0] * (n_angles(dim) - n_angles(dim - 1))     # no rotation into the time axis
        if anis[-1] == 1.0 or rng.random() < 0.5:
            anis[-1] = float(np.exp(rng.uniform(-1.2, 1.2)))                                    # time ratio: a generic real number
    opt = {}
    if cls == "Matern":
        opt["nu"] = float(rng.choice([0.5, 1.0, 1.5, 2.5]))
    if cls == "Stable":
        opt["alpha"] = float(rng.choice([0.7, 1.5, 2.0]))
    if cls == "Rational":
        opt["alpha"] = float(rng.choice([0.8, 1.0, 3.0]))
    if cls == "TPLGaussian":
        opt["hurst"] = float(rng.choice([0.3, 0.5, 0.8]))
    if cls == "Integral":
        opt["nu"] = float(rng.choice([1.0, 2.0]))
    return dict(cls=cls, dim=dim, var=float(np.exp(rng.uniform(-1, 1))), len_scale=float(np.exp(rng.uniform(-0.5, 2))),
                anis=anis, angles=angles, opt=opt, temporal=temporal)


def gen_period(rng, dim):
    u = rng.random()
    if u < 0.2:
        return [float(np.exp(rng.uniform(-1, 4)))]                      # scalar: same period on every axis
    if u < 0.3 and dim > 1:
        return [float(x) for x in np.exp(rng.uniform(-1, 4, dim - 1))]   # shorter: filled with the last entry
    p = np.exp(rng.uniform(-1, 4, dim))
    for k in range(dim):
        if rng.random() < 0.25:
            p[k] = float(rng.choice([1.0, 8.0, 10.0, 2 * math.pi, 100.0, 0.1]))
    return [float(x) for x in p]


def gen_mode_no(rng, dim, big):
    hi = {1: 65, 2: 17, 3: 7, 4: 3}[dim] if big else {1: 17, 2: 7, 3: 4, 4: 3}[dim]
    u = rng.random()
    if u < 0.2:
        return [int(2 * rng.integers(1, hi))]
    return [int(2 * rng.integers(0 if rng.random() < 0.05 else 1, hi)) for _ in range(dim)]


def hostile_arange(rng, n_tries=4000):
    """(mode count, period) pairs for which a float-step arange(-n/2*dk, n/2*dk, dk) has n+1 entries: the
    configurations on which a float arange grid stores an odd mode count (fixed in /repo; kept as a probe)"""
    out = []
    for _ in range(n_tries):
        n = int(2 * rng.integers(1, 40))
        p = float(np.exp(rng.uniform(-1, 4)))
        dk = 2.0 * np.pi / p * 1.0
        if len(np.arange(-n / 2.0 * dk, n / 2.0 * dk, dk)) != n:
            out.append((n, p))
            if len(out) >= 12:
                break
    return out


def fill(vals, dim):
    r = list(vals)[:dim]
    return r + [r[-1]] * (dim - len(r))


# ---- the implementation side --------------------------------------------------------------------------------

def amp_of(gen):
    return float(np.sum(np.abs(gen._spectrum_factor) * (np.abs(gen._z_1) + np.abs(gen._z_2)))) + 1e-300


def model_sig(m, tags):
    """(dim, tag, par, anis) of a CovModel as compare() sees it"""
    key = (m.name, bool(m.latlon), bool(m.temporal), tuple(sorted(m.opt_arg)))
    tag = tags.setdefault(key, len(tags) + 1)
    par = [m.var, m.var_raw, m.nugget, m.len_scale] + list(np.atleast_1d(m.angles)) + [m.rescale] + [
        getattr(m, o) for o in sorted(m.opt_arg)]
    return int(m.dim), int(tag), np.array(par, dtype=float), np.array(np.atleast_1d(m.anis), dtype=float)


def periodic_check(srf, pts, rng_axes, qs, period=None):
    """max |f(x) - f(x + q * period_i * main_axis_i)| / (1e-9 * AMP) over the axes and multiples; uses the CURRENT
    model of the field and the CURRENT period of the generator.  Returns (worst ratio, detail)"""
    model = srf.model
    dim = model.dim
    gen = srf.generator
    base = np.asarray(srf(tuple(pts), store=False, post_process=False), dtype=float)
    amp = amp_of(gen)
    if not np.isfinite(gen._spectrum_factor).all():
        SKIPPED[0] += 1          # model.spectrum returned a negative / non-finite value (numerical Hankel transform)
        return 0.0, None
    axes = np.asarray(model.main_axes(), dtype=float)      # ROW i is the i-th main axis (matrix_rotate(dim, angles).T)
    worst, det = 0.0, None
    period = np.asarray(gen.period if period is None else period, dtype=float)
    for ax in rng_axes:
        for q in qs:
            shift = q * period[ax] * axes[ax, :]
            moved = [pts[d] + shift[d] for d in range(dim)]
            f2 = np.asarray(srf(tuple(moved), store=False, post_process=False), dtype=float)
            r = float(np.max(np.abs(f2 - base))) / (RTOL_FIELD * amp) if base.size else 0.0
            if not np.isfinite(r):
                r = float("inf")
            if r > worst:
                worst, det = r, dict(axis=int(ax), q=int(q), max_abs_diff=float(np.max(np.abs(f2 - base))), amp=amp,
                                     f_x=hexl(base[:4]), f_shifted=hexl(f2[:4]))
    return worst, det


def gen_points(rng, dim, period, n):
    p = np.asarray(fill(period, dim), dtype=float)
    return [rng.uniform(-3.0, 3.0, n) * p[d] + rng.normal(size=n) * 1e-3 for d in range(dim)]


# ---- correspondence: functions ------------------------------------------------------------------------------

def corr_functions(ctx, drv, rng, tie_bad):
    import gstools as gs
    from gstools.field.generator import Fourier
    from gstools.tools.geometric import generate_grid as gg
    n_cfg = 400 if ctx.tier == "thorough" else 120

    def bad(what, case, key):
        tie_bad.append(what)
        ctx.violation("correspondence: " + what, "hand model C17_Model.v and gstools disagree on " + what, case,
                      key="corr:" + key, no_input=True)

    # generate_grid on ragged axes (bitwise)
    for _ in range(25 if ctx.tier == "quick" else 80):
        nd = int(rng.integers(1, 5))
        axes = [rng.normal(size=int(rng.integers(0 if rng.random() < 0.1 else 1, 5))) for _ in range(nd)]
        ref = gg(axes)
        got = drv.call("generate_grid", *axes)
        ctx.count(("generate_grid", nd, tuple(len(a) for a in axes)) if min(len(a) for a in axes) >= 2 else None,
                  hist=dict(op="generate_grid", dim=nd))
        if not (np.asarray(got).shape == ref.shape or ref.size == 0) or (ref.size and not C.bit_equal(ref, got)):
            bad("generate_grid", dict(axes=[hexl(a) for a in axes]), "generate_grid")
            break
    # _fill_to_dim
    g0 = Fourier(gs.Gaussian(dim=1), period=1.0, mode_no=2, seed=1)
    for _ in range(30):
        dim = int(rng.integers(1, 5))
        vals = rng.normal(size=int(rng.integers(0, 6)))
        try:
            ref = g0._fill_to_dim(vals, dim)
        except ValueError:
            ref = None
        got = drv.call("fill_to_dim", ("n", dim), np.asarray(vals, dtype=float))
        ctx.count(("fill", dim, len(vals)) if len(vals) >= 1 else None, hist=dict(op="_fill_to_dim", dim=dim))
        if (ref is None) != (got is None) or (ref is not None and not C.bit_equal(ref, got)):
            bad("_fill_to_dim", dict(dim=dim, vals=hexl(vals)), "fill_to_dim")
            break
    # np.isclose as used by CovModel.__eq__, around its threshold
    for _ in range(60):
        b = float(rng.normal() * 10.0 ** rng.integers(-9, 3))
        a = b + (1e-8 + 1e-5 * abs(b)) * float(rng.choice([0.0, 0.5, 0.999999, 1.000001, 2.0, -0.999999, -1.000001]))
        ctx.count(None, hist=dict(op="isclose"))
        if bool(np.isclose(a, b)) != bool(drv.call("isclose", a, b)):
            bad("np.isclose (CovModel.__eq__)", dict(a=C.fhex(a), b=C.fhex(b)), "isclose")
            break
    # generator construction: every derived attribute
    nbit = ntot = 0
    for i in range(n_cfg):
        dim = pick_dim(rng)
        classes = ANALYTIC + (NUMERIC if (ctx.tier == "thorough" and i % 4 == 0) else [])
        cfg = gen_model_cfg(rng, dim, classes)
        period = gen_period(rng, dim)
        mode_no = gen_mode_no(rng, dim, big=False)
        seed = int(rng.integers(0, 2 ** 31))
        case = dict(kind="construct", model=cfg, period=hexl(period), mode_no=mode_no, seed=seed)
        model = make_model(cfg)
        gen = Fourier(model, period=period, mode_no=mode_no, seed=seed)
        anis = np.array(np.atleast_1d(model.anis), dtype=float)[: dim - 1] if dim > 1 else np.zeros(0)
        key = (cfg["cls"], dim, tuple(fill(mode_no, dim)), any(a != 0 for a in cfg["angles"]), any(a != 1 for a in cfg["anis"]))
        ctx.count(key if min(fill(mode_no, dim)) >= 2 else None,
                  hist=dict(op="construct", dim=dim, cls=cfg["cls"], modes=int(np.prod(fill(mode_no, dim)))))
        ctx.sample(case)
        p_m = drv.call("fill_to_dim", ("n", dim), np.asarray(period, dtype=float))
        n_m = drv.call("fill_to_dim_z", ("n", dim), iarr(mode_no))
        if p_m is None or not C.bit_equal(p_m, gen.period):
            bad("period (_fill_to_dim)", case, "period"); continue
        dk_m = drv.call("delta_k", p_m, anis)
        if not near(dk_m, gen._delta_k):
            bad("_delta_k", dict(case, model_dk=hexl(dk_m), impl_dk=hexl(gen._delta_k)), "delta_k"); continue
        grid_m, len_m = drv.call("set_modes", n_m, np.asarray(gen._delta_k, dtype=float))
        if list(len_m) != [int(x) for x in gen.mode_no] or list(len_m) != fill(mode_no, dim):
            # the number of modes per axis is part of the model: the grid must have exactly the requested (even) counts
            ctx.violation("correspondence: mode count per axis",
                          "the generator's grid does not have the requested number of modes per axis (the model has)",
                          dict(case, requested=fill(mode_no, dim), impl=[int(x) for x in gen.mode_no], model=[int(x) for x in len_m]),
                          key="corr:mode-count", no_input=True)
            tie_bad.append("mode count")
            continue
        grid_m = np.asarray(grid_m, dtype=float).reshape(np.asarray(gen._modes).shape)
        ntot += 1
        nbit += int(C.bit_equal(grid_m, gen._modes))
        if not near(grid_m, gen._modes):
            bad("_modes (mode grid)", dict(case), "modes"); continue
        full = drv.call("grid_of", p_m, n_m, anis)
        if not near(np.asarray(full, dtype=float).reshape(np.asarray(gen._modes).shape), gen._modes, rel=2 * ULP4):
            bad("grid_of (period, mode_no, anis)", case, "grid_of"); continue
        if gen._modes.shape[1] == 0:
            continue
        kn_m = drv.call("k_norm", np.asarray(gen._modes, dtype=float))
        kn_i = np.linalg.norm(gen._modes, axis=0)
        if not near(kn_m, kn_i):
            bad("k_norm", case, "k_norm"); continue
        spec = np.asarray(model.spectrum(kn_i), dtype=float)
        sf_m = drv.call("spectrum_factor", spec, np.asarray(gen._delta_k, dtype=float))
        if not near(sf_m, gen._spectrum_factor):
            bad("_spectrum_factor", case, "spectrum_factor"); continue
        # the summation: extracted kernel at floats vs generator call, and the whole pipeline vs SRF
        npts = int(rng.integers(1, 6))
        pts = gen_points(rng, dim, gen.period, npts)
        iso = model.isometrize(np.array(pts))
        amp = amp_of(gen)
        f_i = gen(iso, add_nugget=False)
        f_m = drv.call("field", np.asarray(gen._spectrum_factor, dtype=float), np.asarray(gen._modes, dtype=float),
                       np.asarray(gen._z_1, dtype=float), np.asarray(gen._z_2, dtype=float), np.asarray(iso, dtype=float))
        if not C.close(f_m, f_i, rtol=RTOL_FIELD, scale=amp):
            bad("generator call vs extracted summate_fourier", dict(case, pts=[hexl(p) for p in pts]), "field"); continue
        srf = gs.SRF(model, generator="Fourier", period=period, mode_no=mode_no, seed=seed)
        f_s = np.asarray(srf(tuple(pts), store=False, post_process=False), dtype=float)
        f_p = drv.call("pipeline", ("n", dim), np.asarray(np.atleast_1d(model.angles), dtype=float), anis, p_m, n_m, spec,
                       np.asarray(gen._z_1, dtype=float), np.asarray(gen._z_2, dtype=float), np.array(pts, dtype=float))
        if not C.close(f_p, f_s, rtol=RTOL_FIELD, scale=amp):
            bad("SRF(generator='Fourier') vs model pipeline (isometrize, grid, spectrum factor, kernel)",
                dict(case, pts=[hexl(p) for p in pts], model_out=hexl(f_p), impl_out=hexl(f_s)), "pipeline"); continue
        # the model's own statement, executed at floats: shift in isotropic coordinates
        ax = int(rng.integers(dim))
        ratio = 1.0 if ax == 0 else float(anis[ax - 1])
        sh = drv.call("shift_axis", np.asarray(iso, dtype=float), ("n", ax), float(gen.period[ax] / ratio))
        f_m2 = drv.call("field", np.asarray(gen._spectrum_factor, dtype=float), np.asarray(gen._modes, dtype=float),
                        np.asarray(gen._z_1, dtype=float), np.asarray(gen._z_2, dtype=float), np.asarray(sh, dtype=float))
        if not C.close(f_m2, f_m, rtol=RTOL_FIELD, scale=amp):
            bad("extracted model at floats is not periodic (theorem C17_periodic executed)", dict(case, axis=ax), "model-periodic")
    ctx.notes.append("mode grids bit-identical model/implementation: %d of %d" % (nbit, ntot))


# ---- correspondence: update histories -----------------------------------------------------------------------

def gen_chg(rng, dim):
    """an in-place change of a model attribute"""
    if dim > 1:
        k = str(rng.choice(["anis", "anis", "angles", "len_scale", "len_scale_list", "var"]))
    else:
        k = str(rng.choice(["len_scale", "var"]))
    if k == "anis":
        v = [float(x) for x in np.exp(rng.uniform(-1.2, 1.2, dim - 1))]
    elif k == "angles":
        v = [float(x) for x in rng.uniform(-3, 3, n_angles(dim))]
    elif k == "len_scale":
        v = float(np.exp(rng.uniform(-0.5, 2)))
    elif k == "len_scale_list":
        v = [float(x) for x in np.exp(rng.uniform(-0.5, 2, dim))]       # sets len_scale AND anis
    else:
        v = float(np.exp(rng.uniform(-1, 1)))
    return dict(attr=k, value=v)


def apply_chg(model, chg):
    setattr(model, "len_scale" if chg["attr"] == "len_scale_list" else chg["attr"], chg["value"])


API_OPS = ("period_aug", "period_edit", "period_same", "period_as", "mode_no_edit", "mode_no_same", "mode_no_as")


def gen_api_op(rng, dim, allow_odd=True):
    """the ways a user changes period / mode_no through the public API other than assigning a fresh list: augmented
    assignment on the property, editing the array / list returned by the getter and assigning it back, re-assigning
    the same object, numpy arrays / tuples / scalars"""
    k = API_OPS[int(rng.integers(len(API_OPS)))]
    if k == "period_aug":
        return dict(op=k, aug=str(rng.choice(["*=", "/=", "+="])), c=float(rng.choice([1.5, 1.6, 0.75, 2.0, 3.7, float(np.exp(rng.uniform(-1, 1)))])))
    if k == "period_edit":
        return dict(op=k, idx=int(rng.integers(dim)), value=float(rng.choice([17.0, 3.3, float(np.exp(rng.uniform(-1, 4)))])))
    if k == "period_as":
        return dict(op=k, period=hexl(gen_period(rng, dim)), **{"as": str(rng.choice(["array", "tuple", "scalar", "np_scalar"]))})
    if k == "mode_no_edit":
        v = int(2 * rng.integers(1, 9))
        if allow_odd and rng.random() < 0.1:
            v += 1
        return dict(op=k, idx=int(rng.integers(dim)), value=v)
    if k == "mode_no_as":
        return dict(op=k, mode_no=gen_mode_no(rng, dim, big=False), **{"as": str(rng.choice(["array", "tuple", "scalar"]))})
    return dict(op=k)


def do_api_op(gen, op):
    """perform one API-style operation on the implementation (gen is a Fourier generator, possibly srf.generator);
    returns what the model sees: the value an in-place edit left in the stored period / mode_no (or None) and the
    value finally assigned (or None).  The expected values are computed from COPIES taken before the operation."""
    k = op["op"]
    r = dict(edit_period=None, edit_mode_no=None, period=None, mode_no=None)
    if k == "period_aug":
        old = np.array(gen.period, dtype=float)
        c = op["c"]
        e = old * c if op["aug"] == "*=" else (old / c if op["aug"] == "/=" else old + c)
        r["edit_period"] = r["period"] = e
        if op["aug"] == "*=":
            gen.period *= c
        elif op["aug"] == "/=":
            gen.period /= c
        else:
            gen.period += c
    elif k == "period_edit":
        e = np.array(gen.period, dtype=float)
        i = op["idx"] % len(e)
        e[i] = op["value"]
        r["edit_period"] = r["period"] = e
        per = gen.period
        per[i] = op["value"]
        gen.period = per
    elif k == "period_same":
        r["period"] = np.array(gen.period, dtype=float)
        gen.period = gen.period
    elif k == "period_as":
        v = unhex(op["period"])
        how = op["as"]
        if how == "array":
            r["period"] = v
            gen.period = np.array(v)
        elif how == "tuple":
            r["period"] = v
            gen.period = tuple(float(x) for x in v)
        elif how == "scalar":
            r["period"] = v[:1]
            gen.period = float(v[0])
        else:
            r["period"] = v[:1]
            gen.period = np.float64(v[0])
    elif k == "mode_no_edit":
        e = [int(x) for x in gen.mode_no]
        i = op["idx"] % len(e)
        e[i] = int(op["value"])
        r["edit_mode_no"] = r["mode_no"] = e
        m = gen.mode_no
        m[i] = int(op["value"])
        gen.mode_no = m
    elif k == "mode_no_same":
        r["mode_no"] = [int(x) for x in gen.mode_no]
        gen.mode_no = gen.mode_no
    elif k == "mode_no_as":
        mn = [int(x) for x in op["mode_no"]]
        how = op["as"]
        if how == "array":
            r["mode_no"] = mn
            gen.mode_no = np.array(mn)
        elif how == "tuple":
            r["mode_no"] = mn
            gen.mode_no = tuple(mn)
        else:
            r["mode_no"] = mn[:1]
            gen.mode_no = mn[0]
    else:
        raise KeyError(k)
    return r


KEEP_OPS = ("period_keep", "mode_no_keep", "caller_edit")


def gen_keep_op(rng, dim):
    """aliasing of the caller's INPUT: period / mode_no passed as ndarrays which the caller keeps and later edits in
    place.  The generator must hold a copy: nothing may change until the next assignment through the API."""
    k = KEEP_OPS[int(rng.integers(len(KEEP_OPS)))]
    via = str(rng.choice(["setter", "update"]))
    if k == "period_keep":
        n = int(rng.choice([dim, dim, dim, dim + 1, 1]))
        dt = str(rng.choice(["float64", "float64", "int64"]))
        vals = np.exp(rng.uniform(-1, 4, n)) if dt == "float64" else rng.integers(1, 60, n).astype(float)
        return dict(op=k, period=hexl(vals), dtype=dt, via=via)
    if k == "mode_no_keep":
        n = int(rng.choice([dim, dim, dim + 1, 1]))
        return dict(op=k, mode_no=[int(2 * rng.integers(1, 8)) for _ in range(n)], dtype=str(rng.choice(["int64", "float64"])), via=via)
    return dict(op=k, which=int(rng.integers(0, 8)), how=str(rng.choice(["scale", "set"])), c=float(rng.choice([0.5, 1.5, 2.0, 0.3])),
                idx=int(rng.integers(0, 4)), value=float(rng.choice([17.0, 3.0, 7.0, 41.0])))


def caller_edit(kept, op):
    """the caller modifies, in place, an array it passed earlier (no call into gstools)"""
    if not kept:
        return
    arr = kept[op["which"] % len(kept)]
    if op["how"] == "scale":
        if arr.dtype.kind == "f":
            arr *= op["c"]
        else:
            arr *= 3
    else:
        arr[op["idx"] % len(arr)] = op["value"] if arr.dtype.kind == "f" else int(op["value"])


def do_keep_op(gen, op, kept):
    """returns the values ASSIGNED through the API (copies taken before the call), like do_api_op"""
    k = op["op"]
    r = dict(edit_period=None, edit_mode_no=None, period=None, mode_no=None)
    if k == "caller_edit":
        caller_edit(kept, op)
    elif k == "period_keep":
        arr = np.array(unhex(op["period"]), dtype=op["dtype"])
        r["period"] = np.array(arr, dtype=float)
        kept.append(arr)
        if op["via"] == "setter":
            gen.period = arr
        else:
            gen.update(period=arr)
    elif k == "mode_no_keep":
        arr = np.array(op["mode_no"], dtype=op["dtype"])
        r["mode_no"] = [int(x) for x in op["mode_no"]]
        kept.append(arr)
        if op["via"] == "setter":
            gen.mode_no = arr
        else:
            gen.update(mode_no=arr)
    return r


def gen_history(rng, dim, n_ops, classes):
    """operations on one Fourier generator; model changes keep the class (in-place setters or a new object)"""
    ops = []
    for _ in range(n_ops):
        u0 = rng.random()
        if u0 < 0.3:
            ops.append(gen_api_op(rng, dim))
            continue
        if u0 < 0.5:
            o = gen_keep_op(rng, dim)
            ops.append(o)
            if o["op"] == "caller_edit" and rng.random() < 0.7:
                # the edit of the caller's array shows at the next model change, if the generator kept a view
                ops.append(dict(op="len_scale", len_scale=float(np.exp(rng.uniform(-0.5, 2)))) if (dim == 1 or rng.random() < 0.5)
                           else dict(op="anis", anis=[float(x) for x in np.exp(rng.uniform(-1.2, 1.2, dim - 1))]))
            continue
        u = rng.random()
        if u < 0.18:
            ops.append(dict(op="period", period=hexl(gen_period(rng, dim))))
        elif u < 0.34:
            mn = gen_mode_no(rng, dim, big=False)
            if rng.random() < 0.12:
                mn[int(rng.integers(len(mn)))] += 1          # odd: rejected
            ops.append(dict(op="mode_no", mode_no=mn))
        elif u < 0.5:
            ops.append(dict(op="anis", anis=[float(x) for x in np.exp(rng.uniform(-1.2, 1.2, dim - 1))]) if dim > 1
                       else dict(op="len_scale", len_scale=float(np.exp(rng.uniform(-0.5, 2)))))
        elif u < 0.58:
            ops.append(dict(op="len_scale", len_scale=float(np.exp(rng.uniform(-0.5, 2)))))
        elif u < 0.66:
            ops.append(dict(op="angles", angles=[float(x) for x in rng.uniform(-3, 3, n_angles(dim))]) if dim > 1
                       else dict(op="var", var=float(np.exp(rng.uniform(-1, 1)))))
        elif u < 0.74:
            ops.append(dict(op="new_model", model=gen_model_cfg(rng, dim, classes)))
        elif u < 0.84:
            kw = {}
            if rng.random() < 0.6:
                kw["period"] = hexl(gen_period(rng, dim))
            if rng.random() < 0.6:
                kw["mode_no"] = gen_mode_no(rng, dim, big=False)
            if rng.random() < 0.4:
                kw["seed"] = int(rng.integers(0, 1000))
            kw["with_model"] = bool(rng.random() < 0.5)
            if rng.random() < 0.5:
                # the model changed in place is passed TOGETHER with the other arguments, in one update() call
                kw["with_model"] = True
                kw["chg"] = gen_chg(rng, dim)
            ops.append(dict(op="update", **kw))
            if rng.random() < 0.3:
                # m = gen.model; <in-place edit>; gen.model = m  /  gen.update(model=m, ...): the stored copy itself comes back
                a = dict(op="alias_model", chg=gen_chg(rng, dim), how=str(rng.choice(["setter", "update"])))
                if a["how"] == "update":
                    if rng.random() < 0.5:
                        a["period"] = hexl(gen_period(rng, dim))
                    if rng.random() < 0.5:
                        a["mode_no"] = gen_mode_no(rng, dim, big=False)
                    if rng.random() < 0.4:
                        a["seed"] = int(rng.integers(0, 1000))
                ops.append(a)
        elif u < 0.9:
            ops.append(dict(op="seed", seed=int(rng.integers(0, 1000))))
        elif u < 0.93:
            ops.append(dict(op="nothing"))
        elif u < 0.96:
            ops.append(dict(op="same_model"))
        elif u < 0.97:
            ops.append(dict(op="tiny", rel=float(rng.choice([5e-6, -5e-6, 2e-5, 1e-9]))))   # around np.isclose's rtol
        elif u < 0.985:
            ops.append(dict(op="period", period=[]))                     # empty period: rejected
        else:
            ops.append(dict(op="mode_no", mode_no=[int(rng.choice([0, -2]))] + gen_mode_no(rng, dim, big=False)[:dim - 1]))
    return ops


def apply_op(gen, model, op, kept=None):
    """run one operation on the implementation; returns (model object now owned by the caller, update arguments
    as the model sees them, exception name or None)"""
    args = dict(model=None, seed=False, period=None, mode_no=None, edit_period=None, edit_mode_no=None)
    exc = None
    k = op["op"]
    if k in KEEP_OPS:
        args.update(do_keep_op(gen, op, kept if kept is not None else []))
        args["noop"] = (k == "caller_edit")
        return model, args, None
    if k in API_OPS:
        # expected values first (from copies), so that they are known even when the setter raises
        old_p = np.array(gen.period, dtype=float)
        old_m = [int(x) for x in gen.mode_no]
        try:
            r = do_api_op(gen, op)
        except ValueError:
            exc = "ValueError"
            r = dict(edit_period=None, edit_mode_no=None, period=None, mode_no=None)
            if k == "mode_no_edit":
                e = list(old_m)
                e[op["idx"] % len(e)] = int(op["value"])
                r["edit_mode_no"] = r["mode_no"] = e
            elif k == "mode_no_as":
                mn = [int(x) for x in op["mode_no"]]
                r["mode_no"] = mn if op["as"] != "scalar" else mn[:1]
        args.update(r)
        return model, args, exc
    try:
        if k == "period":
            args["period"] = unhex(op["period"])
            gen.period = args["period"]
        elif k == "mode_no":
            args["mode_no"] = list(op["mode_no"])
            gen.mode_no = args["mode_no"]
        elif k in ("anis", "len_scale", "angles", "var"):
            setattr(model, k, op[k])                # in-place change of the field's model, then what SRF.__call__ does
            args["model"] = model
            gen.update(model, np.nan)
        elif k == "tiny":
            if model.dim > 1:
                model.anis = [a * (1.0 + op["rel"]) for a in np.atleast_1d(model.anis)]
            else:
                model.len_scale = model.len_scale * (1.0 + op["rel"])
            args["model"] = model
            gen.update(model, np.nan)
        elif k == "new_model":
            model = make_model(op["model"])
            args["model"] = model
            gen.model = model
        elif k == "same_model":
            args["model"] = model
            gen.update(model)
        elif k == "seed":
            args["seed"] = True
            gen.update(seed=op["seed"])
        elif k == "nothing":
            gen.update()
        elif k == "update":
            kw = {}
            if "period" in op:
                args["period"] = kw["period"] = unhex(op["period"])
            if "mode_no" in op:
                args["mode_no"] = kw["mode_no"] = list(op["mode_no"])
            if "seed" in op:
                args["seed"] = True
                kw["seed"] = op["seed"]
            if op.get("chg"):
                apply_chg(model, op["chg"])
            if op.get("with_model"):
                args["model"] = model
                kw["model"] = model
            gen.update(**kw)
        elif k == "alias_model":
            m = gen.model                       # the generator's internal copy
            apply_chg(m, op["chg"])
            args["model"] = m
            args["same_obj"] = True
            if op["how"] == "setter":
                gen.model = m
            else:
                kw = dict(model=m)
                if "period" in op:
                    args["period"] = kw["period"] = unhex(op["period"])
                if "mode_no" in op:
                    args["mode_no"] = kw["mode_no"] = list(op["mode_no"])
                if "seed" in op:
                    args["seed"] = True
                    kw["seed"] = op["seed"]
                gen.update(**kw)
    except ValueError as e:
        exc = "ValueError"
    return model, args, exc


def state_matches(drv_state, gen, tags):
    ok, hm, d, tag, par, anis, hp, per, hn, mn, dk, modes = drv_state
    diffs = []
    md, mtag, mpar, manis = model_sig(gen.model, tags)
    if not hm or d != md or tag != mtag or not C.bit_equal(par, mpar) or not C.bit_equal(anis, manis):
        diffs.append("model copy")
    if not hp or not C.bit_equal(per, gen.period):
        diffs.append("period")
    if not hn or [int(x) for x in mn] != [int(x) for x in gen.mode_no]:
        diffs.append("mode_no")
    if not near(dk, gen._delta_k):
        diffs.append("delta_k")
    gm = np.asarray(gen._modes, dtype=float)
    mm = np.asarray(modes, dtype=float)
    if mm.size != gm.size or (gm.size and not near(mm.reshape(gm.shape), gm)):
        diffs.append("modes")
    return diffs


def corr_histories(ctx, drv, rng, tie_bad):
    from gstools.field.generator import Fourier
    n_hist = 1200 if ctx.tier == "thorough" else 300
    n_ops_total = 0
    tags = {}
    for h in range(n_hist):
        dim = pick_dim(rng)
        classes = ANALYTIC
        cfg = gen_model_cfg(rng, dim, classes)
        period = gen_period(rng, dim)
        mode_no = gen_mode_no(rng, dim, big=False)
        ops = gen_history(rng, dim, int(rng.integers(3, 10)), classes)
        case = dict(kind="history", model=cfg, period=hexl(period), mode_no=mode_no, ops=ops)
        model = make_model(cfg)
        kept = []
        if rng.random() < 0.5:
            # constructor arguments as ndarrays that the caller keeps (and edits later)
            kept += [np.array(fill(period, dim), dtype=float), np.array(fill(mode_no, dim), dtype=np.int64)]
            case["ctor_keep"] = True
            gen = Fourier(model, period=kept[0], mode_no=kept[1], seed=int(rng.integers(1000)))
        else:
            gen = Fourier(model, period=period, mode_no=mode_no, seed=int(rng.integers(1000)))
        drv.call("f_reset")
        md, mtag, mpar, manis = model_sig(model, tags)
        st = drv.call("f_update", True, ("n", md), ("z", mtag), mpar, manis, True, True, np.asarray(period, dtype=float),
                      True, iarr(mode_no))
        diffs = state_matches(st, gen, tags) if st[0] else ["constructor outcome"]
        step_no = -1
        for step_no, op in enumerate(ops):
            if diffs:
                break
            model, args, exc = apply_op(gen, model, op, kept)
            n_ops_total += 1
            if args.get("noop"):
                # the caller edited an array it passed earlier: the model state does not move, neither may the generator
                ctx.count(("hist", dim, op["op"], None), hist=dict(op="update:" + op["op"], dim=dim, outcome="ok"))
                diffs = state_matches(drv.call("f_state"), gen, tags)
                continue
            ctx.count(("hist", dim, op["op"], exc), hist=dict(op="update:" + op["op"], dim=dim, outcome=exc or "ok"))
            if args["model"] is not None:
                md, mtag, mpar, manis = model_sig(args["model"], tags)
            else:
                md, mtag, mpar, manis = 0, 0, np.zeros(0), np.zeros(0)
            if args.get("edit_period") is not None:
                drv.call("f_edit_period", np.asarray(args["edit_period"], dtype=float))
            if args.get("edit_mode_no") is not None:
                drv.call("f_edit_mode_no", iarr(args["edit_mode_no"]))
            if args.get("same_obj"):
                # the stored copy was edited in place and handed back: extracted edit_model, then step_gen true
                drv.call("f_edit_model", ("n", md), ("z", mtag), mpar, manis)
                st = drv.call("f_update_same_obj", ("n", md), ("z", mtag), mpar, manis, bool(args["seed"]),
                              args["period"] is not None,
                              np.asarray(args["period"] if args["period"] is not None else [], dtype=float),
                              args["mode_no"] is not None, iarr(args["mode_no"] if args["mode_no"] is not None else []))
            else:
                st = drv.call("f_update", args["model"] is not None, ("n", md), ("z", mtag), mpar, manis, bool(args["seed"]),
                              args["period"] is not None,
                              np.asarray(args["period"] if args["period"] is not None else [], dtype=float),
                              args["mode_no"] is not None, iarr(args["mode_no"] if args["mode_no"] is not None else []))
            if st[0] != (exc is None):
                diffs = ["outcome (model %s, implementation %s)" % ("ok" if st[0] else "error", exc or "ok")]
                break
            diffs = state_matches(st, gen, tags)
        if diffs:
            tie_bad.append("update state machine: " + ", ".join(diffs))
            ctx.violation("correspondence: Fourier.update state machine (%s) at step %d" % (", ".join(diffs), step_no),
                          "model step and Fourier.update disagree", case, key="corr:update", no_input=True)
            break
    ctx.notes.append("update histories: %d, operations compared: %d" % (n_hist, n_ops_total))


# ---- probes on the implementation ---------------------------------------------------------------------------

def run_probe_config(case):
    """one configuration probe; returns (worst ratio, detail)"""
    import gstools as gs
    cfg = case["model"]
    dim = cfg["dim"]
    model = make_model(cfg)
    srf = gs.SRF(model, generator="Fourier", period=list(unhex(case["period"])), mode_no=case["mode_no"], seed=case["seed"])
    pts = [unhex(p) for p in case["pts"]]
    worst, det = periodic_check(srf, pts, range(dim), case["qs"])
    # the same points in another container / memory layout, a deep copy of the object, and other objects created and
    # evaluated in between: the field is a function of the object's own parameters and of the point coordinates only
    if worst <= 1.0 and case.get("layout"):
        import copy
        base = np.asarray(srf(tuple(pts), store=False, post_process=False), dtype=float)
        arr = np.array(pts, dtype=float)
        lay = case["layout"]
        if lay == "array_c":
            alt = np.ascontiguousarray(arr)
        elif lay == "array_f":
            alt = np.asfortranarray(arr)
        elif lay == "strided":
            big = np.zeros((dim, 2 * arr.shape[1] + 1))
            big[:, ::2][:, : arr.shape[1]] = arr
            alt = big[:, ::2][:, : arr.shape[1]]
        elif lay == "transposed":
            alt = np.ascontiguousarray(arr.T).T
        else:
            alt = [list(map(float, p)) for p in pts]
        variants = [("positions as %s" % lay, np.asarray(srf(alt, store=False, post_process=False), dtype=float))]
        variants.append(("copy.deepcopy of the SRF", np.asarray(copy.deepcopy(srf)(tuple(pts), store=False, post_process=False), dtype=float)))
        other = gs.SRF(gs.Exponential(dim=2, len_scale=[2.0, 0.7], angles=0.3), generator="Fourier", period=[3.0, 5.0], mode_no=[4, 6], seed=9)
        other((np.array([0.1, 0.2]), np.array([0.3, 0.4])))
        other.generator.period = [4.0, 4.5]
        variants.append(("after another Fourier SRF was created, evaluated and changed", np.asarray(srf(tuple(pts), store=False, post_process=False), dtype=float)))
        for name, f in variants:
            if f.shape != base.shape or not C.bit_equal(f, base):
                worst = float("inf")
                det = dict(variant=name, base=hexl(base[:4]), got=hexl(np.ravel(f)[:4]))
                break
    if case.get("structured"):
        # structured mesh: the same statement on a grid of off-grid coordinates
        axes_pts = [p[:3] for p in pts]
        base = np.asarray(srf(tuple(axes_pts), mesh_type="structured", store=False, post_process=False), dtype=float)
        if all(a == 0 for a in cfg["angles"]):
            for ax in range(dim):
                moved = [a.copy() for a in axes_pts]
                moved[ax] = moved[ax] + srf.generator.period[ax]
                f2 = np.asarray(srf(tuple(moved), mesh_type="structured", store=False, post_process=False), dtype=float)
                r = float(np.max(np.abs(f2 - base))) / (RTOL_FIELD * amp_of(srf.generator))
                if r > worst:
                    worst, det = r, dict(axis=ax, q=1, mesh="structured", max_abs_diff=float(np.max(np.abs(f2 - base))))
    want = fill(case["mode_no"], dim)
    have = [int(x) for x in srf.generator.mode_no]
    if want != have:
        worst, det = float("inf"), dict(mode_no_requested=want, mode_no_stored=have)
    return worst, det


def probe_configs(ctx, rng):
    n = 4000 if ctx.tier == "thorough" else 900
    worst_seen = 0.0
    for i in range(n):
        dim = pick_dim(rng)
        classes = ANALYTIC + (NUMERIC if (ctx.tier == "thorough" and i % 5 == 0) else [])
        cfg = gen_model_cfg(rng, dim, classes)
        period = gen_period(rng, dim)
        mode_no = gen_mode_no(rng, dim, big=True)
        # point counts: 1, 2, exactly dim, dim + 1 (shape coincidences) and random
        npts = int(rng.choice([1, 2, dim, dim + 1, int(rng.integers(3, 9)), int(rng.integers(3, 9))]))
        pts = gen_points(rng, dim, period, npts)
        case = dict(kind="config", model=cfg, period=hexl(period), mode_no=mode_no, seed=int(rng.integers(0, 2 ** 31)),
                    pts=[hexl(p) for p in pts], qs=[1, -1, int(rng.integers(2, 6))], structured=bool(rng.random() < 0.3),
                    layout=(str(rng.choice(["array_c", "array_f", "strided", "transposed", "lists"])) if rng.random() < 0.4 else None))
        key = (cfg["cls"], dim, tuple(fill(mode_no, dim)), any(a != 0 for a in cfg["angles"]), tuple(a != 1 for a in cfg["anis"]))
        ctx.count(key if min(fill(mode_no, dim)) >= 2 else None,
                  hist=dict(op="probe:config", dim=dim, cls=cfg["cls"], rotated=any(a != 0 for a in cfg["angles"])))
        try:
            worst, det = run_probe_config(case)
        except Exception as e:  # unexpected exception of the implementation
            ctx.violation("probe: configuration", "implementation raised %s: %s" % (type(e).__name__, e), case,
                          key="probe:config:exception")
            continue
        worst_seen = max(worst_seen, worst if np.isfinite(worst) else 0.0)
        if worst > 1.0:
            ctx.violation("probe: f(x) vs f(x + q*period_i*main_axis_i)",
                          "field of SRF(generator='Fourier') is not periodic: %s" % json.dumps(det), dict(case, detail=det),
                          key="probe:config:" + ("mode-count" if det and "mode_no_stored" in det else "not-periodic"))
    ctx.notes.append("configuration probes: worst |f(x+p)-f(x)| / (1e-9*AMP) = %.3g" % worst_seen)


def run_probe_history(case):
    """an update history on an SRF; after every operation the field must be periodic with the CURRENT settings.
    returns (worst ratio, detail)"""
    import gstools as gs
    cfg = case["model"]
    dim = cfg["dim"]
    model = make_model(cfg)
    kept = []
    if case.get("ctor_keep"):
        kept += [np.array(fill(unhex(case["period"]), dim), dtype=float), np.array(fill(case["mode_no"], dim), dtype=np.int64)]
        srf = gs.SRF(model, generator="Fourier", period=kept[0], mode_no=kept[1], seed=case["seed"])
    else:
        srf = gs.SRF(model, generator="Fourier", period=list(unhex(case["period"])), mode_no=case["mode_no"], seed=case["seed"])
    want = fill(case["mode_no"], dim)
    want_period = np.array(fill(unhex(case["period"]), dim), dtype=float)      # last value ASSIGNED through the API
    worst, det = 0.0, None
    for step_no, op in enumerate([dict(op="start")] + case["ops"]):
        k = op["op"]
        try:
            if k == "period":
                srf.generator.period = list(unhex(op["period"]))
                want_period = np.array(fill(unhex(op["period"]), dim), dtype=float)
            elif k == "mode_no":
                srf.generator.mode_no = list(op["mode_no"])
                want = fill(op["mode_no"], dim)
            elif k in ("anis", "len_scale", "angles", "var"):
                setattr(srf.model, k, op[k])
            elif k == "new_model":
                srf.model = make_model(op["model"])
            elif k == "update":
                kw = {}
                if "period" in op:
                    kw["period"] = list(unhex(op["period"]))
                if "mode_no" in op:
                    kw["mode_no"] = list(op["mode_no"])
                if "seed" in op:
                    kw["seed"] = op["seed"]
                if op.get("with_model"):
                    kw["model"] = srf.model
                srf.generator.update(**kw)
                if "mode_no" in op:
                    want = fill(op["mode_no"], dim)
                if "period" in op:
                    want_period = np.array(fill(unhex(op["period"]), dim), dtype=float)
            elif k == "seed":
                srf.generator.update(seed=op["seed"])
            elif k in API_OPS or k in KEEP_OPS:
                # through srf.generator, as a user would
                r = do_api_op(srf.generator, op) if k in API_OPS else do_keep_op(srf.generator, op, kept)
                if r["mode_no"] is not None:
                    want = fill(r["mode_no"], dim)
                if r["period"] is not None:
                    want_period = np.array(fill(r["period"], dim), dtype=float)
        except ValueError:
            # a rejected operation (odd mode_no, nothing given): post-exception states are outside the property
            return worst, det
        gen = srf.generator
        # periodicity with the period last ASSIGNED through the API, which the generator must also REPORT
        pts = [unhex(p) for p in case["pts"]]
        pts = [p * want_period[d] for d, p in enumerate(pts)]
        w, d_ = periodic_check(srf, pts, range(dim), case["qs"], period=want_period)
        have = [int(x) for x in gen.mode_no]
        if have != want:
            w, d_ = float("inf"), dict(mode_no_requested=want, mode_no_stored=have)
        if not np.array_equal(np.asarray(gen.period, dtype=float), want_period):
            w, d_ = float("inf"), dict(d_ or {}, period_not_assigned=True, reported_period=hexl(gen.period),
                                        assigned_period=hexl(want_period))
        # the grid must be the one of a freshly built generator with (copies of) the assigned settings and the field's model
        from gstools.field.generator import Fourier
        fresh = Fourier(srf.model, period=[float(x) for x in want_period], mode_no=[int(x) for x in want], seed=1)
        if not (near(fresh._delta_k, gen._delta_k) and np.shape(fresh._modes) == np.shape(gen._modes)
                and near(fresh._modes, gen._modes)):
            w, d_ = float("inf"), dict(d_ or {}, stale_grid=True, reported_period=hexl(gen.period), reported_mode_no=have,
                                        delta_k=hexl(gen._delta_k), fresh_delta_k=hexl(fresh._delta_k))
        if w > worst:
            worst, det = w, dict(d_ or {}, after_step=step_no, op=k)
        if worst > 1.0:
            break
    return worst, det


def probe_histories(ctx, rng):
    n = 2500 if ctx.tier == "thorough" else 600
    hostile = hostile_arange(rng)
    ctx.notes.append("float-arange-hostile (count, period) pairs used in history probes: %d" % len(hostile))
    worst_seen = 0.0
    for i in range(n + len(hostile)):
        dim = pick_dim(rng)
        cfg = gen_model_cfg(rng, dim, ANALYTIC)
        period = gen_period(rng, dim)
        mode_no = gen_mode_no(rng, dim, big=False)
        ops = [o for o in gen_history(rng, dim, int(rng.integers(2, 7)), ANALYTIC)
               if o["op"] not in ("nothing", "same_model", "tiny", "alias_model") and not o.get("chg") and o.get("period", 1) != [] and min(o.get("mode_no", [2])) >= 0
               and not (o["op"] == "mode_no_edit" and o["value"] % 2)]
        tagk = "random"
        if i >= n:
            # a count/period pair on which a float-step arange has one entry too many, then a period / model change
            nmo, per = hostile[i - n]
            period = [per] + fill(period, dim)[1:]
            mode_no = [nmo] + fill(mode_no, dim)[1:]
            first = [dict(op="period", period=hexl(gen_period(rng, dim))),
                     dict(op="len_scale", len_scale=float(np.exp(rng.uniform(-0.5, 2))))][i % 2]
            ops = [first] + [o for o in ops if not o["op"].startswith("mode_no") and "mode_no" not in o]
            cfg["anis"] = [1.0] * (dim - 1)
            tagk = "arange-hostile"
        pts = [rng.uniform(-2.0, 2.0, 4) for _ in range(dim)]        # in units of the current period
        case = dict(kind="history_probe", model=cfg, period=hexl(period), mode_no=mode_no, seed=int(rng.integers(0, 2 ** 31)),
                    ops=ops, pts=[hexl(p) for p in pts], qs=[1, -2], ctor_keep=bool(rng.random() < 0.5))
        ctx.count(("hprobe", tagk, dim, tuple(o["op"] for o in ops)), hist=dict(op="probe:history:" + tagk, dim=dim))
        ctx.sample(dict(kind="history_probe", dim=dim, ops=[o["op"] for o in ops]), limit=8)
        try:
            worst, det = run_probe_history(case)
        except Exception as e:
            ctx.violation("probe: update history", "implementation raised %s: %s" % (type(e).__name__, e), case,
                          key="probe:history:exception")
            continue
        worst_seen = max(worst_seen, worst if np.isfinite(worst) else 0.0)
        if worst > 1.0:
            kind = "mode-count" if det and "mode_no_stored" in det else ("period-not-assigned" if det and det.get("period_not_assigned") else
                                                                            "stale-grid" if det and det.get("stale_grid") else "not-periodic")
            ctx.violation("probe: periodicity after an update history (%s)" % tagk,
                          ("after %s the generator reports a period that was never assigned through the API (it follows an array "
                           "the caller edited in place): %s" if kind == "period-not-assigned" else
                           "after %s the grid is not the one of a fresh generator with the assigned settings: %s" if kind == "stale-grid" else
                           "after %s the field is not periodic with the current settings: %s") % (det.get("op"), json.dumps(det)),
                          dict(case, detail=det), key="probe:history:%s:%s" % (tagk, kind))
    ctx.notes.append("cases skipped because model.spectrum was negative/non-finite: %d" % SKIPPED[0])
    ctx.notes.append("history probes: worst |f(x+p)-f(x)| / (1e-9*AMP) = %.3g" % worst_seen)


# ---- probes: the field is a function of the PRESENT (model, period, mode_no, seed) and is period-invariant --------------

def gen_present_history(rng, dim, n_ops, kind):
    """operation sequences on one SRF(generator="Fourier") (kind "srf") or one bare Fourier generator (kind "gen"):
    update() with every subset of {model, seed, period, mode_no} at once or the same through the attribute setters,
    in-place model changes (communicated in the same call, later, or never), new model objects, the generator's own
    model copy edited and handed back, calls on new / stored positions with or without a seed, structured and
    unstructured, plus the getter- and caller-array aliasing operations"""
    ops = []
    for _ in range(n_ops):
        u = rng.random()
        if u < 0.38:
            o = dict(op="upd", how=str(rng.choice(["update", "update", "setter"])))
            bits = [bool(rng.random() < 0.5) for _ in range(4)]
            if not any(bits):
                bits[int(rng.integers(4))] = True
            o["with_model"] = bits[0]
            if bits[1]:
                o["seed"] = int(rng.integers(0, 1000))
            if bits[2]:
                o["period"] = hexl(gen_period(rng, dim))
            if bits[3]:
                o["mode_no"] = gen_mode_no(rng, dim, big=False)
            v = rng.random()
            if v < 0.55:
                o["chg"] = gen_chg(rng, dim)
            elif v < 0.7:
                o["newmodel"] = gen_model_cfg(rng, dim, ANALYTIC)
            ops.append(o)
        elif u < 0.58:
            o = dict(op="call", pos=str(rng.choice(["new", "stored"])), mesh=str(rng.choice(["unstructured", "unstructured", "structured"])))
            if rng.random() < 0.4:
                o["seed"] = int(rng.integers(0, 1000))
            if o["pos"] == "new":
                o["pts"] = [hexl(rng.uniform(-2.0, 2.0, 3)) for _ in range(dim)]     # in units of the present period
            ops.append(o)
        elif u < 0.68:
            a = dict(op="alias_model", chg=gen_chg(rng, dim), how=str(rng.choice(["setter", "update"])))
            if a["how"] == "update":
                if rng.random() < 0.4:
                    a["period"] = hexl(gen_period(rng, dim))
                if rng.random() < 0.4:
                    a["mode_no"] = gen_mode_no(rng, dim, big=False)
                if rng.random() < 0.4:
                    a["seed"] = int(rng.integers(0, 1000))
            ops.append(a)
        elif u < 0.8:
            ops.append(gen_api_op(rng, dim, allow_odd=False))
        elif u < 0.9:
            ops.append(gen_keep_op(rng, dim))
        else:
            ops.append(dict(op="chg", chg=gen_chg(rng, dim)))
    return ops


def run_probe_present(case):
    """returns (worst ratio, detail).  After every step: reported period / mode counts / seed are the ones last assigned;
    the field at the current positions (given anew AND as stored positions, for an SRF) equals that of a FRESH object built
    from copies of the present parameters; the field is periodic along the main axes of the present model with the present
    period."""
    import copy
    import gstools as gs
    from gstools.field.generator import Fourier
    cfg = case["model"]
    dim = cfg["dim"]
    kind = case["obj"]
    user_model = make_model(cfg)
    kept = []
    period0 = list(unhex(case["period"]))
    if kind == "srf":
        srf = gs.SRF(user_model, generator="Fourier", period=period0, mode_no=case["mode_no"], seed=case["seed"])
        gen = srf.generator
    else:
        srf = None
        gen = Fourier(user_model, period=period0, mode_no=case["mode_no"], seed=case["seed"])
    want = fill(case["mode_no"], dim)
    want_period = np.array(fill(period0, dim), dtype=float)
    seed_now = case["seed"]
    cur_unit = [unhex(p) for p in case["pts"]]          # positions in units of the present period
    cur_mesh = "unstructured"
    worst, det = 0.0, None

    def present_model():
        return srf.model if kind == "srf" else gen.model

    def positions():
        return [u_ * want_period[d] for d, u_ in enumerate(cur_unit)]

    S = dict(pos=None, mesh=None, n=0)        # positions the history object has stored (copies), and a call counter

    def evaluate(obj_srf, obj_gen, model, pos, mesh, stored=False):
        if obj_srf is not None:
            if stored:
                # no positions given: __call__, or the structured() / unstructured() entry points
                if obj_srf is srf:
                    S["n"] += 1
                    if S["n"] % 3 == 1:
                        fn = obj_srf.structured if S["mesh"] == "structured" else obj_srf.unstructured
                        return np.asarray(fn(store=False, post_process=False), dtype=float)
                return np.asarray(obj_srf(store=False, post_process=False), dtype=float)
            if obj_srf is srf:
                S["pos"], S["mesh"] = [np.array(p) for p in pos], mesh
                S["n"] += 1
                if S["n"] % 3 == 2:
                    fn = obj_srf.structured if mesh == "structured" else obj_srf.unstructured
                    return np.asarray(fn(tuple(np.array(p) for p in pos), store=False, post_process=False), dtype=float)
            return np.asarray(obj_srf(tuple(np.array(p) for p in pos), mesh_type=mesh, store=False, post_process=False), dtype=float)
        if mesh == "structured":
            from gstools.tools.geometric import generate_grid
            arr = generate_grid([np.array(p) for p in pos])
        else:
            arr = np.array([np.array(p) for p in pos], dtype=float)
        return np.asarray(obj_gen(model.isometrize(arr), add_nugget=False), dtype=float).reshape(-1)

    for step_no, op in enumerate([dict(op="start")] + case["ops"]):
        k = op["op"]
        try:
            if k == "upd":
                if "newmodel" in op:
                    user_model = make_model(op["newmodel"])
                    if kind == "srf":
                        srf.model = user_model
                elif "chg" in op:
                    apply_chg(present_model() if kind == "srf" else user_model, op["chg"])
                m_arg = srf.model if kind == "srf" else user_model
                if op["how"] == "update":
                    kw = {}
                    if op["with_model"]:
                        kw["model"] = m_arg
                    if "seed" in op:
                        kw["seed"] = op["seed"]
                    if "period" in op:
                        kw["period"] = list(unhex(op["period"]))
                    if "mode_no" in op:
                        kw["mode_no"] = list(op["mode_no"])
                    gen.update(**kw)
                else:
                    if op["with_model"]:
                        gen.model = m_arg
                    if "seed" in op:
                        gen.seed = op["seed"]
                    if "period" in op:
                        gen.period = list(unhex(op["period"]))
                    if "mode_no" in op:
                        gen.mode_no = list(op["mode_no"])
                if "seed" in op:
                    seed_now = op["seed"]
                if "period" in op:
                    want_period = np.array(fill(unhex(op["period"]), dim), dtype=float)
                if "mode_no" in op:
                    want = fill(op["mode_no"], dim)
            elif k == "chg":
                apply_chg(present_model() if kind == "srf" else user_model, op["chg"])
            elif k == "alias_model":
                m = gen.model
                apply_chg(m, op["chg"])
                if op["how"] == "setter":
                    gen.model = m
                else:
                    kw = dict(model=m)
                    if "period" in op:
                        kw["period"] = list(unhex(op["period"]))
                        want_period = np.array(fill(unhex(op["period"]), dim), dtype=float)
                    if "mode_no" in op:
                        kw["mode_no"] = list(op["mode_no"])
                        want = fill(op["mode_no"], dim)
                    if "seed" in op:
                        kw["seed"] = seed_now = op["seed"]
                    gen.update(**kw)
            elif k == "call":
                if op["pos"] == "new":
                    cur_unit = [unhex(p) for p in op["pts"]]
                    cur_mesh = op["mesh"]
                if kind == "srf":
                    kw = dict(store=bool(step_no % 2), post_process=False)
                    if "seed" in op:
                        kw["seed"] = seed_now = op["seed"]
                    if op["pos"] == "new":
                        S["pos"], S["mesh"] = [np.array(p) for p in positions()], cur_mesh
                        srf(tuple(np.array(p) for p in positions()), mesh_type=cur_mesh, **kw)
                    else:
                        srf(**kw)                      # stored positions (those of the last evaluation)
                elif "seed" in op:
                    gen.seed = seed_now = op["seed"]
            elif k in API_OPS or k in KEEP_OPS:
                r = do_api_op(gen, op) if k in API_OPS else do_keep_op(gen, op, kept)
                if r["mode_no"] is not None:
                    want = fill(r["mode_no"], dim)
                if r["period"] is not None:
                    want_period = np.array(fill(r["period"], dim), dtype=float)
        except ValueError:
            return worst, det        # a rejected operation: post-exception states are outside the property
        pm = present_model()
        pos = positions()
        # fresh object from copies of the present parameters
        fm = copy.deepcopy(pm)
        if kind == "srf":
            f_srf = gs.SRF(fm, generator="Fourier", period=[float(x) for x in want_period], mode_no=list(want), seed=seed_now)
            f_gen = f_srf.generator
        else:
            f_srf, f_gen = None, Fourier(fm, period=[float(x) for x in want_period], mode_no=list(want), seed=seed_now)
        F_fresh = evaluate(f_srf, f_gen, fm, pos, cur_mesh)
        if not np.isfinite(f_gen._spectrum_factor).all():
            SKIPPED[0] += 1
            continue
        amp = amp_of(f_gen)
        w, d_ = 0.0, None

        def cmp(name, a, b):
            nonlocal w, d_
            r = (float(np.max(np.abs(a - b))) / (RTOL_FIELD * amp)) if a.shape == b.shape and a.size else (0.0 if a.shape == b.shape else float("inf"))
            if not np.isfinite(r):
                r = float("inf")
            if r > w:
                w, d_ = r, dict(what=name, max_abs_diff=float(np.max(np.abs(a - b))) if a.shape == b.shape else None, amp=amp,
                                history=hexl(a.ravel()[:4]), expected=hexl(b.ravel()[:4]))

        if kind == "srf" and S["pos"] is not None:
            # FIRST evaluation after the operation: no positions given, the object works on what it has stored
            sp, sm = [p.copy() for p in S["pos"]], S["mesh"]
            F0 = evaluate(srf, gen, pm, sp, sm, stored=True)
            cmp("first call after the operation WITHOUT positions (stored positions) vs fresh object with the present parameters "
                "on the same positions", F0, evaluate(f_srf, f_gen, fm, sp, sm))
        F1 = evaluate(srf, gen, pm, pos, cur_mesh)
        cmp("field at newly given positions vs fresh object with the present parameters", F1, F_fresh)
        if kind == "srf":
            F2 = evaluate(srf, gen, pm, pos, cur_mesh, stored=True)
            cmp("field on the STORED positions vs fresh object with the present parameters", F2, F_fresh)
            F2b = evaluate(srf, gen, pm, pos, cur_mesh, stored=True)
            cmp("second evaluation on the stored positions vs fresh object", F2b, F_fresh)
        # periodicity along the main axes of the present model with the present period
        axes = np.asarray(pm.main_axes(), dtype=float)
        rotated = bool(np.any(np.asarray(np.atleast_1d(pm.angles), dtype=float) != 0))
        if not (cur_mesh == "structured" and rotated):
            for ax in range(dim):
                for q in case["qs"]:
                    if cur_mesh == "structured":
                        moved = [p.copy() for p in pos]
                        moved[ax] = moved[ax] + q * want_period[ax]
                    else:
                        sh = q * want_period[ax] * axes[ax, :]
                        moved = [pos[d] + sh[d] for d in range(dim)]
                    cmp("f(x + %d*period_%d*main_axis_%d) vs f(x)" % (q, ax, ax), evaluate(srf, gen, pm, moved, cur_mesh), F1)
        if kind == "srf":
            evaluate(srf, gen, pm, pos, cur_mesh)        # leave the current positions stored for the next operation
        # reported settings are the assigned ones
        if [int(x) for x in gen.mode_no] != want:
            w, d_ = float("inf"), dict(what="mode counts", requested=want, stored=[int(x) for x in gen.mode_no])
        if not np.array_equal(np.asarray(gen.period, dtype=float), want_period):
            w, d_ = float("inf"), dict(what="reported period is not the assigned one", reported=hexl(gen.period), assigned=hexl(want_period))
        if gen.seed != seed_now:
            w, d_ = float("inf"), dict(what="reported seed is not the assigned one", reported=gen.seed, assigned=seed_now)
        if w > worst:
            worst, det = w, dict(d_ or {}, after_step=step_no, op=k)
        if worst > 1.0:
            break
    return worst, det


def probe_present(ctx, rng):
    n = 2500 if ctx.tier == "thorough" else 500
    worst_seen = 0.0
    for i in range(n):
        dim = pick_dim(rng)
        kind = "srf" if rng.random() < 0.65 else "gen"
        cfg = gen_model_cfg(rng, dim, ANALYTIC)
        ops = gen_present_history(rng, dim, int(rng.integers(3, 8)), kind)
        case = dict(kind="present", obj=kind, model=cfg, period=hexl(gen_period(rng, dim)), mode_no=gen_mode_no(rng, dim, big=False),
                    seed=int(rng.integers(0, 1000)), ops=ops, pts=[hexl(rng.uniform(-2.0, 2.0, 3)) for _ in range(dim)], qs=[1, -2])
        ctx.count(("present", kind, dim, tuple(o["op"] for o in ops)), hist=dict(op="probe:present:" + kind, dim=dim))
        for o in ops:
            ctx.count(None, n=0, hist=dict(present_op=o["op"] + (":" + o["how"] if "how" in o and o["op"] != "caller_edit" else "")))
        ctx.sample(dict(kind="present", obj=kind, dim=dim, ops=[o["op"] for o in ops]), limit=10)
        try:
            worst, det = run_probe_present(case)
        except Exception as e:
            ctx.violation("probe: present-parameter history", "implementation raised %s: %s" % (type(e).__name__, e), case,
                          key="probe:present:exception")
            continue
        worst_seen = max(worst_seen, worst if np.isfinite(worst) else 0.0)
        if worst > 1.0:
            ctx.violation("probe: field is a function of the present parameters and period-invariant (%s history)" % kind,
                          "after %s: %s" % (det.get("op"), json.dumps(det)), dict(case, detail=det),
                          key="probe:present:%s:%s" % (kind, "periodicity" if str(det.get("what", "")).startswith("f(x +") else "fresh"))
    ctx.notes.append("present-parameter histories: %d, worst deviation / (1e-9*AMP) = %.3g" % (n, worst_seen))


def run_probe_bare_edit(case):
    from gstools.field.generator import Fourier
    model = make_model(case["model"])
    gen = Fourier(model, period=list(unhex(case["period"])), mode_no=case["mode_no"], seed=case["seed"])
    gen.model.anis = case["new_anis"]               # the generator's own copy, edited through the getter; nothing assigned
    pm = gen.model
    pts = np.array([unhex(p) for p in case["pts"]], dtype=float)
    base = gen(pm.isometrize(pts.copy()), add_nugget=False)
    amp = amp_of(gen)
    axes = np.asarray(pm.main_axes(), dtype=float)
    worst, det = 0.0, None
    for ax in range(1, pm.dim):
        moved = pts + (np.asarray(gen.period, dtype=float)[ax] * axes[ax, :])[:, None]
        f2 = gen(pm.isometrize(moved), add_nugget=False)
        r = float(np.max(np.abs(f2 - base))) / (RTOL_FIELD * amp)
        if r > worst:
            worst, det = r, dict(axis=ax, max_abs_diff=float(np.max(np.abs(f2 - base))), amp=amp)
    return worst, det


def probe_bare_edit(ctx, rng):
    """bare generator: gen.model.anis = x without assigning anything: the generator cannot notice"""
    cfg = gen_model_cfg(rng, 2, ["Gaussian"], rotated=False)
    cfg["anis"] = [1.0]
    pts = gen_points(rng, 2, [10.0, 8.0], 5)
    case = dict(kind="bare_edit", model=cfg, period=hexl([10.0, 8.0]), mode_no=[8, 8], seed=5, pts=[hexl(p) for p in pts], new_anis=[0.7])
    ctx.count(("bare_edit", 2), hist=dict(op="probe:bare generator, gen.model edited in place"))
    worst, det = run_probe_bare_edit(case)
    if worst > 1.0:
        ctx.violation("probe: bare Fourier generator, gen.model.anis = x (edit of the internal copy, nothing assigned)",
                      "the generator keeps the grid of the old anisotropy while gen.model reports the new one: %s" % json.dumps(det),
                      dict(case, detail=det), key="bare-generator:gen.model-edited-in-place-without-assignment")


# ---- near-identity geometry: anis -> 1 and angles -> 0 geometrically ------------------------------------------------
# Tolerance from rounding, not from "quiet enough": every term is amp_j * cos/sin(phase_j), phase_j = sum_d k_dj * x_d with
# x the isometrized position (a matrix product with entries of size <= 1/ratio) — the absolute error of a phase is
# <= c * eps * P, P = max over points of sum_d max_j|k_dj| * |x_d| (rounding of k, of the isometrize product, of the dot
# product), plus a few ulp of cos/sin (numpy SIMD vs exact).  |f(x+qp) - f(x)| <= AMP * eps * (4 P + 16) bounds both
# evaluations; calibrated on 1728 configurations of the unchanged tree: worst observed defect = 0.15 of this bound.
EPS = 2.0 ** -52


def tight_tol(gen, model, pts_list):
    kmax = np.max(np.abs(np.asarray(gen._modes, dtype=float)), axis=1) if np.asarray(gen._modes).size else np.zeros(model.dim)
    P = 0.0
    for pts in pts_list:
        iso = np.abs(np.asarray(model.isometrize(np.array(pts, dtype=float)), dtype=float))
        P = max(P, float(np.max(kmax @ iso)) if iso.size else 0.0)
    return amp_of(gen) * EPS * (4.0 * P + 16.0), P


def near_identity_cfgs(rng, tier):
    """anis = 1 +- 10^-j and angles = +-10^-j, j = 1..12 (also through a len_scale list such as [250, 250.002]),
    dims 2 and 3; the thresholds of any 'is it isotropic / unrotated' shortcut lie on this ladder"""
    out = []
    reps = 3 if tier == "thorough" else 1
    for rep in range(reps):
        for j in range(1, 13):
            for sgn in (1.0, -1.0):
                for dim in (2, 3):
                    d = sgn * 10.0 ** -j
                    how = ["anis", "len_scale_list", "angles", "both"][int(rng.integers(4))]
                    cfg = dict(cls=str(rng.choice(["Gaussian", "Exponential", "Matern"])), dim=dim, var=1.0,
                               len_scale=float(rng.choice([1.0, 3.0, 250.0])), anis=[1.0] * (dim - 1), angles=[0.0] * n_angles(dim), opt={})
                    if cfg["cls"] == "Matern":
                        cfg["opt"]["nu"] = 1.5
                    if how in ("anis", "both", "len_scale_list"):
                        cfg["anis"] = [1.0 + d if (k == 0 or rng.random() < 0.5) else 1.0 for k in range(dim - 1)]
                    if how == "len_scale_list":
                        cfg["len_scale_list"] = [cfg["len_scale"]] + [cfg["len_scale"] * a for a in cfg["anis"]]
                    if how in ("angles", "both"):
                        cfg["angles"] = [d * float(rng.choice([1.0, -1.0, 0.5])) if (k == 0 or rng.random() < 0.5) else 0.0
                                         for k in range(n_angles(dim))]
                    if how == "angles":
                        cfg["anis"] = [float(rng.choice([1.0, 0.5, 2.0])) for _ in range(dim - 1)]
                    period = [float(x) for x in rng.choice([1.0, 8.0, 10.0, 2 * math.pi, 33.3], dim)]
                    mode_no = [int(2 * rng.integers(2, 9)) for _ in range(dim)] if dim == 2 else [int(2 * rng.integers(1, 5)) for _ in range(dim)]
                    out.append(dict(kind="near_identity", j=j, how=how, model=cfg, period=hexl(period), mode_no=mode_no,
                                    seed=int(rng.integers(0, 1000)), pts=[hexl(rng.uniform(-1.0, 1.0, 4)) for _ in range(dim)],
                                    qs=[1, 10, 100]))
    return out


def make_model_ni(cfg):
    import gstools as gs
    if "len_scale_list" in cfg:
        kw = dict(dim=cfg["dim"], var=cfg["var"], len_scale=list(cfg["len_scale_list"]), angles=list(cfg["angles"]))
        kw.update(cfg.get("opt", {}))
        return getattr(gs, cfg["cls"])(**kw)
    return make_model(cfg)


def run_probe_near_identity(case):
    """periodicity defect after 1, 10 and 100 periods, relative to the rounding-justified tolerance"""
    import gstools as gs
    model = make_model_ni(case["model"])
    dim = model.dim
    period = unhex(case["period"])
    srf = gs.SRF(model, generator="Fourier", period=list(period), mode_no=case["mode_no"], seed=case["seed"])
    pts = [unhex(p) * period[d] for d, p in enumerate(case["pts"])]
    base = np.asarray(srf(tuple(pts), store=False, post_process=False), dtype=float)
    axes = np.asarray(model.main_axes(), dtype=float)
    worst, det = 0.0, None
    for ax in range(dim):
        for q in case["qs"]:
            sh = q * period[ax] * axes[ax, :]
            moved = [pts[d] + sh[d] for d in range(dim)]
            tol, P = tight_tol(srf.generator, model, [pts, moved])
            f2 = np.asarray(srf(tuple(moved), store=False, post_process=False), dtype=float)
            r = float(np.max(np.abs(f2 - base))) / tol
            if not np.isfinite(r):
                r = float("inf")
            if r > worst:
                worst, det = r, dict(axis=ax, periods=q, max_abs_diff=float(np.max(np.abs(f2 - base))), tol=tol, phase_bound=P,
                                     amp=amp_of(srf.generator), anis=hexl(np.atleast_1d(model.anis)), angles=hexl(np.atleast_1d(model.angles)))
    return worst, det


def probe_near_identity(ctx, rng):
    worst_seen = 0.0
    cases = near_identity_cfgs(rng, ctx.tier)
    for case in cases:
        ctx.count(("near_identity", case["j"], case["how"], case["model"]["dim"]), hist=dict(op="probe:near-identity", j=case["j"], how=case["how"]))
        try:
            worst, det = run_probe_near_identity(case)
        except Exception as e:
            ctx.violation("probe: near-identity geometry", "implementation raised %s: %s" % (type(e).__name__, e), case,
                          key="probe:near-identity:exception")
            continue
        worst_seen = max(worst_seen, worst if np.isfinite(worst) else 0.0)
        if worst > 1.0:
            ctx.violation("probe: periodicity for anis -> 1 / angles -> 0 (|delta| = 1e-%d, %s)" % (case["j"], case["how"]),
                          "periodicity defect %.3g after %d period(s) along main axis %d exceeds the rounding bound %.3g: %s" % (
                              det["max_abs_diff"], det["periods"], det["axis"], det["tol"], json.dumps(det)),
                          dict(case, detail=det), key="probe:near-identity:not-periodic")
    ctx.notes.append("near-identity probes: %d, worst defect / rounding bound = %.3g" % (len(cases), worst_seen))


def corr_isometrize(ctx, drv, rng, tie_bad):
    """CovModel.isometrize / main_axes vs the extracted exact map (C12's model) on the same ladder and on random models;
    tolerance 64 eps * sum of |M||x| (a 2- or 3-term product of entries that are products of <= 3 cos/sin values and 1/ratio)"""
    cases = near_identity_cfgs(rng, "quick")
    for i in range(60):
        dim = pick_dim(rng)
        cases.append(dict(kind="iso", j=0, how="random", model=gen_model_cfg(rng, dim, ["Gaussian"]),
                          pts=[hexl(rng.uniform(-1.0, 1.0, 4)) for _ in range(dim)]))
    for case in cases:
        model = make_model_ni(case["model"])
        dim = model.dim
        pts = np.array([unhex(p) for p in case["pts"]], dtype=float) * 37.0
        ctx.count(("isometrize", case["j"], case["how"], dim), hist=dict(op="isometrize", j=case["j"]))
        anis = np.asarray(np.atleast_1d(model.anis), dtype=float)[: dim - 1] if dim > 1 else np.zeros(0)
        angles = np.asarray(np.atleast_1d(model.angles), dtype=float)
        got = np.asarray(model.isometrize(pts.copy()), dtype=float)
        ref = np.asarray(drv.call("isometrize", ("n", dim), angles, anis, pts), dtype=float).reshape(got.shape)
        ratios = np.concatenate(([1.0], anis))
        scale = (np.sum(np.abs(pts), axis=0)[None, :] / ratios[:, None])
        if not (np.abs(got - ref) <= 64 * EPS * scale).all():
            tie_bad.append("isometrize")
            ctx.violation("correspondence: CovModel.isometrize vs extracted exact map",
                          "isometrize differs from derotation followed by division by the ratios beyond rounding "
                          "(max |diff| / scale = %.3g)" % float(np.max(np.abs(got - ref) / scale)),
                          dict(case, impl=hexl(got), model_out=hexl(ref)), key="corr:isometrize", no_input=True)
            break
        axes_i = np.asarray(model.main_axes(), dtype=float)
        axes_m = np.asarray(drv.call("main_axes", ("n", dim), angles), dtype=float).reshape(axes_i.shape)
        if not (np.abs(axes_i - axes_m) <= 64 * EPS).all():
            tie_bad.append("main_axes")
            ctx.violation("correspondence: CovModel.main_axes vs extracted model", "main axes differ", dict(case),
                          key="corr:main_axes", no_input=True)
            break


# ---- SRF.mesh: meshio meshes, points / centroids, direction strings in every order and index lists -------------------

def mesh_directions(dim):
    """every ordered selection of `dim` mesh axes, as a string and as an index list (plus longer strings: truncated)"""
    import itertools
    out = []
    for sel in itertools.permutations(range(3), dim):
        out.append(("".join("xyz"[i] for i in sel), list(sel)))
        out.append((list(sel), list(sel)))
    if dim < 3:
        for sel in itertools.permutations(range(3), 3):
            out.append(("".join("xyz"[i] for i in sel), list(sel)[:dim]))      # more directions than needed: the first dim count
    if dim == 3:
        out.append(("all", [0, 1, 2]))
    return out


def run_probe_mesh(case):
    """field generated on a meshio mesh = field of a fresh SRF at the selected coordinates (direction order!), and it is
    unchanged when the mesh is moved by q periods along a main axis of the model (expressed in mesh coordinates)"""
    import meshio
    import gstools as gs
    cfg = case["model"]
    dim = cfg["dim"]
    period = list(unhex(case["period"]))
    sel = case["select"]
    direction = case["direction"]
    pts3 = np.array([unhex(p) for p in case["points3"]], dtype=float).T          # (n, 3)
    cells = [(c["type"], np.array(c["data"], dtype=int)) for c in case["cells"]]

    def make_srf():
        return gs.SRF(make_model(cfg), generator="Fourier", period=period, mode_no=case["mode_no"], seed=case["seed"])

    def locations(p3):
        if case["points"] == "points":
            return p3
        return np.vstack([np.mean(p3[d], axis=1) for _, d in cells])

    def on_mesh(srf, p3):
        mesh = meshio.Mesh(p3.copy(), [(t, d.copy()) for t, d in cells])
        out = np.asarray(srf.mesh(mesh, points=case["points"], direction=direction, name="f", store=False, post_process=False), dtype=float)
        data = mesh.point_data["f"] if case["points"] == "points" else np.concatenate(mesh.cell_data["f"])
        return out, np.asarray(data, dtype=float)

    srf = make_srf()
    F, stored = on_mesh(srf, pts3)
    amp = amp_of(srf.generator)
    worst, det = 0.0, None

    def cmp(name, a, b):
        nonlocal worst, det
        r = float(np.max(np.abs(a - b))) / (RTOL_FIELD * amp) if a.shape == b.shape else float("inf")
        if not np.isfinite(r):
            r = float("inf")
        if r > worst:
            worst, det = r, dict(what=name, max_abs_diff=float(np.max(np.abs(a - b))) if a.shape == b.shape else None, amp=amp,
                                 on_mesh=hexl(a.ravel()[:4]), expected=hexl(b.ravel()[:4]))

    loc = locations(pts3)
    pos = tuple(loc[:, i].copy() for i in sel)                # model axis d <- mesh axis sel[d]
    cmp("mesh(direction=%r) vs a fresh SRF at the selected coordinates (model axis d <- mesh axis select[d])" % (direction,),
        F, np.asarray(make_srf()(pos, store=False, post_process=False), dtype=float))
    cmp("field stored in the mesh vs returned field", stored, F)
    axes = np.asarray(srf.model.main_axes(), dtype=float)
    for ax in range(dim):
        for q in case["qs"]:
            v = np.zeros(3)
            for d in range(dim):
                v[sel[d]] = q * period[ax] * axes[ax, d]
            F2, _ = on_mesh(srf, pts3 + v[None, :])
            cmp("mesh moved by %d period(s) along main axis %d of the model" % (q, ax), F2, F)
    return worst, det


def probe_mesh(ctx, rng):
    try:
        import meshio  # noqa: F401
    except Exception as e:      # pragma: no cover
        ctx.notes.append("meshio not importable, SRF.mesh probes skipped: %r" % (e,))
        return
    reps = 4 if ctx.tier == "thorough" else 1
    worst_seen, n = 0.0, 0
    for rep in range(reps):
        for dim in (1, 2, 3):
            for direction, sel in mesh_directions(dim):
                cfg = gen_model_cfg(rng, dim, ANALYTIC)
                period = [float(x) for x in rng.permutation([7.0, 10.0, 13.5])[:dim] * float(np.exp(rng.uniform(-0.5, 0.5)))]
                npt = int(rng.choice([3, 4, dim + 3, 9]))
                p3 = rng.uniform(-15.0, 15.0, (npt, 3))
                cells = [dict(type="triangle", data=[[int(x) for x in rng.choice(npt, 3, replace=False)] for _ in range(int(rng.integers(1, 5)))])]
                if rng.random() < 0.5:
                    cells.append(dict(type="line", data=[[int(x) for x in rng.choice(npt, 2, replace=False)] for _ in range(int(rng.integers(1, 4)))]))
                case = dict(kind="mesh", model=cfg, period=hexl(period), mode_no=gen_mode_no(rng, dim, big=False), seed=int(rng.integers(1000)),
                            direction=direction, select=sel, points=str(rng.choice(["points", "centroids"])),
                            points3=[hexl(p3[:, i]) for i in range(3)], cells=cells, qs=[1, -2])
                n += 1
                ctx.count(("mesh", dim, str(direction), case["points"]), hist=dict(op="probe:mesh", dim=dim, direction=str(direction), points=case["points"]))
                try:
                    worst, det = run_probe_mesh(case)
                except Exception as e:
                    ctx.violation("probe: SRF.mesh", "implementation raised %s: %s" % (type(e).__name__, e), case, key="probe:mesh:exception")
                    continue
                worst_seen = max(worst_seen, worst if np.isfinite(worst) else 0.0)
                if worst > 1.0:
                    ctx.violation("probe: SRF(generator='Fourier').mesh(meshio mesh, points=%s, direction=%r)" % (case["points"], direction),
                                  "%s: %s" % (det["what"], json.dumps(det)), dict(case, detail=det),
                                  key="probe:mesh:%s" % ("periodicity" if "moved by" in det["what"] else "selected-coordinates"))
    ctx.notes.append("SRF.mesh probes: %d, worst deviation / (1e-9*AMP) = %.3g" % (n, worst_seen))


def run_probe_subtle(case):
    import gstools as gs
    model = make_model(case["model"])
    srf = gs.SRF(model, generator="Fourier", period=list(unhex(case["period"])), mode_no=case["mode_no"], seed=case["seed"])
    pts = [unhex(p) for p in case["pts"]]
    srf(tuple(pts), store=False)
    srf.model.anis = [a * (1.0 + case["rel"]) for a in case["model"]["anis"]]
    return periodic_check(srf, pts, range(1, model.dim), [1])


def probe_subtle(ctx, rng):
    """in-place anisotropy change below np.isclose's tolerance (CovModel.__eq__): the generator keeps its grid"""
    for dim in (2, 3):
        cfg = gen_model_cfg(rng, dim, ["Gaussian"], rotated=False)
        cfg["anis"] = [0.5] * (dim - 1)
        period = [10.0, 8.0, 6.0][:dim]
        pts = gen_points(rng, dim, period, 5)
        case = dict(kind="subtle", model=cfg, period=hexl(period), mode_no=[8] * dim, seed=5, pts=[hexl(p) for p in pts], rel=5e-6)
        ctx.count(("subtle", dim), hist=dict(op="probe:isclose-sized change", dim=dim))
        worst, det = run_probe_subtle(case)
        if worst > 1.0:
            ctx.violation("probe: in-place anis change of relative size 5e-6 (below np.isclose)",
                          "SRF keeps the old mode grid because CovModel.__eq__ (np.isclose) calls the models equal; the field is "
                          "then not periodic along the transversal main axes: %s" % json.dumps(det), dict(case, detail=det),
                          key="update:isclose-sized-anis-change")


# ---- entry points -------------------------------------------------------------------------------------------

def setup_ctx(ctx):
    # known_findings.json is assembled from known_findings.d/*.json by the coordinator; honour our own fragment directly
    import os
    frag = os.path.join(C.VERIF, "known_findings.d", "C17.json")
    if os.path.exists(frag):
        have = {k.get("key") for k in ctx.kf}
        for e in json.load(open(frag)):
            if e.get("property") == "C17" and e.get("key") not in have:
                ctx.kf.append(e)
    ctx.rule = ("cases = (model class, dim 1-3, mode counts per axis, rotated?, anisotropic?) configurations and update histories "
                "(sequence of operation kinds); non-trivial when every axis has >= 2 modes; distinct = distinct keys")
    ctx.trusted = [
        "Coq 8.16.1 kernel (coqc); no native_compute",
        "translators tools/pyx2py.py, tools/pyx2coq.py (summate_fourier is translated from summator.pyx on every run)",
        "hand model coq/c17/C17_Model.v of generator.py class Fourier, tied by executing its extraction against the implementation",
        "C12's model of CovModel.isometrize (coq/c12/C12_Model.v; its own tie is checked by ./check C12)",
        "extraction (ExtrOcamlBasic), OCaml 4.13, ocaml/proto.ml float instance, ocaml/drv_c17.ml (holds the state between f_update calls)",
        "theorems at R ignore rounding; cos/sin are the real functions",
    ]
    ctx.not_proved = [
        "floating-point rounding: periodicity is exact over the reals; at floats it is probed within 1e-9 of the amplitude",
        "the nugget (white noise added per call) and post-processing (mean/trend/normalizer) are outside the statement",
        "post-exception states (a rejected update may leave period/delta_k changed and the grid unchanged)",
        "updates passing a model np.isclose cannot tell from the generator's copy although anis differs are excluded by hypothesis "
        "no_subtle (known finding update:isclose-sized-anis-change)",
        "model.spectrum (spectral density of the covariance model) is an input of the model, not modelled",
    ]
    ctx.tie["summator.pyx summate_fourier"] = "translated (pyx2coq) + proved equal to summate_fourier_spec for any schedule (c15)"
    for f in ("Fourier._fill_to_dim", "Fourier delta_k", "Fourier._set_modes / generate_grid", "k_norm / spectrum factor",
              "Fourier.update (period, mode_no, model setters, SRF.__call__)", "SRF pipeline (isometrize + grid + kernel)"):
        ctx.tie[f] = "hand model + correspondence"


def run(ctx):
    rng = C.Rng(ctx.seed, "C17")
    setup_ctx(ctx)
    tie_bad = []
    gen = C.regenerate(which=["Summator_gen.v"])
    for k, v in gen.items():
        if v:
            tie_bad.append("translation of %s failed: %s" % (k, v))
            ctx.tie[k] = "TRANSLATION FAILED: " + v
    proofs_ok = (not tie_bad) and ctx.proofs("props/C17.v")
    drv = None
    if not tie_bad:
        ok, out = C.build_driver("c17")
        if ok:
            drv = C.Driver("c17")
        else:
            tie_bad.append("extraction/driver build: " + out[-400:])
    import time
    t_build = time.time() - ctx.t0
    try:
        # probes first: they provide the failing input when something is broken
        t1 = time.time()
        probe_configs(ctx, C.Rng(ctx.seed, "C17/configs"))
        probe_histories(ctx, C.Rng(ctx.seed, "C17/histories"))
        probe_present(ctx, C.Rng(ctx.seed, "C17/present"))
        probe_near_identity(ctx, C.Rng(ctx.seed, "C17/near"))
        probe_mesh(ctx, C.Rng(ctx.seed, "C17/mesh"))
        probe_subtle(ctx, C.Rng(ctx.seed, "C17/subtle"))
        probe_bare_edit(ctx, C.Rng(ctx.seed, "C17/bare"))
        t2 = time.time()
        if drv is not None:
            corr_functions(ctx, drv, C.Rng(ctx.seed, "C17/corr"), tie_bad)
            corr_isometrize(ctx, drv, C.Rng(ctx.seed, "C17/iso"), tie_bad)
            corr_histories(ctx, drv, C.Rng(ctx.seed, "C17/corrh"), tie_bad)
        ctx.notes.append("wall: translate+coq+driver build (incl. waiting for the shared build lock) %.0fs, probes %.0fs, "
                         "correspondence %.0fs" % (t_build, t2 - t1, time.time() - t2))
    finally:
        if drv:
            drv.close()
    if (tie_bad or not proofs_ok) and not [v for v in ctx.violations]:
        ctx.violation("proof/tie", "proof obligations or the model/code tie of C17 no longer check: %s" % (
            tie_bad or getattr(ctx, "proof_failure", {}).get("output_tail", "")[-600:]),
            dict(tie_broken=tie_bad, proof=getattr(ctx, "proof_failure", None)), no_input=True)


def replay(ctx, path):
    rec = json.load(open(path))
    print(json.dumps({k: rec[k] for k in ("stage", "what")}, indent=1))
    case = rec.get("case", {})
    kind = case.get("kind")
    setup_ctx(ctx)
    fn = dict(config=run_probe_config, history_probe=run_probe_history, subtle=run_probe_subtle, present=run_probe_present, bare_edit=run_probe_bare_edit,
              near_identity=run_probe_near_identity, mesh=run_probe_mesh).get(kind)
    if fn is None:
        run(ctx)
        return ctx.finish()
    ctx.count(("replay", kind))
    worst, det = fn(case)
    print("replayed %s case: |f(x+p)-f(x)| / (1e-9*AMP) = %.3g  %s" % (kind, worst, json.dumps(det)))
    if worst > 1.0:
        ctx.violation("replay: " + rec["stage"], rec["what"], dict(case, detail=det), key=rec.get("key"))
    ctx.obligations = ctx.discharged = ["(replay of a probe case: proofs not re-checked)"]
    return ctx.finish()
