"""C05 — kriging estimates and variances solve the kriging equations.

stages: regenerate gen/Krigesum_gen.v from krigesum.pyx (tie 1) ; theorems props/C05.v ; extraction + driver ;
        correspondence of the hand model coq/c05/C05_Model.v with gstools.krige internals (tie 2) ;
        probes of the property statement on the implementation (independent numpy.linalg.solve of the
        textbook system, linearity, constants / drifts, chunking, permutations, mesh types)."""
import json

import numpy as np

import common as C
import krige_common as KC

PID = "C05"


def specs(rng, tier, count):
    out = []
    combos = [(v, g) for v in KC.VARIANTS for g in ("plain", "time", "latlon", "latlon_time")]
    for i in range(count):
        v, g = combos[i % len(combos)]
        j = i // len(combos)
        dim = 1 + j % 3 if g == "plain" else None
        # anisotropy / rotation combinations are cycled (rotation-only first: isotropic models with angles)
        gm = [1, 0, 2, 3][(j // 3) % 4] if g == "plain" else [1, 0, 2, 3][j % 4]
        out.append(KC.gen_spec(rng, variant=v, geo=g, dim=dim, tier=tier, mean_nonzero=(v == "Simple" and i % 2 == 0), geom_mode=gm, drift_mode=(j + 3), norm_class=KC.NORM_CLASSES[i % 6], classes=(KC.TPL_CLASSES if i % 5 == 4 else None),
                           n_eq_dim=(i % 11 == 5 and v in ("Simple", "Ordinary", "Detrended")),
                           var_scale=([1e-10, 1e8, 1e-13][(i // 7) % 3] if i % 7 == 3 else None)))
    # option cells of the base class: functional drift kind x number of external drifts x unbiased, cycled over
    # geometries, exact / cond_err kinds, inverse routines, chunk sizes and mesh types (random inside gen_spec)
    cells = [(d_, e_, u_) for d_ in range(4) for e_ in range(3) for u_ in (True, False)]
    geos = ["plain", "plain", "time", "latlon", "plain", "latlon_time"]
    for r_ in range(1 if tier == "quick" else 6):
        for c_, cell in enumerate(cells):
            g = geos[(c_ + r_) % len(geos)]
            out.append(KC.gen_spec(rng, variant="Krige", geo=g, dim=(1 + (c_ + r_) % 3 if g == "plain" else None), tier=tier, cell=cell,
                                   geom_mode=[1, 0, 2, 3][(c_ + r_) % 4]))
    return out


def one_case(ctx, drv, rng, spec, stats, corr=True, probes=True):
    ctx.count(KC.spec_key(spec), hist=KC.spec_hist(spec))
    ctx.sample(dict(spec={k: spec[k] for k in ("variant", "model", "exact", "cond_err", "pseudo_inv", "pseudo_inv_type",
                                                  "normalizer", "mesh_type", "chunk_size")}, n_cond=len(spec["cond_val"])))
    try:
        if corr and drv is not None:
            KC.correspond_case(ctx, drv, spec, stats)
        if probes:
            tb = KC.probe_textbook(ctx, spec, stats)
            KC.probe_metamorphic(ctx, rng, spec, stats, tb)
            KC.probe_update_sequence(ctx, rng, spec, stats)
            KC.probe_mean(ctx, spec, stats)
    except Exception as e:  # an exception of the implementation on a valid input is reported with the input
        import traceback
        KC._viol(ctx, "exception", "unexpected exception %r" % (e,), spec, "exception:" + type(e).__name__,
                 traceback=traceback.format_exc()[-1500:])


def run(ctx, only=None):
    rng = C.Rng(ctx.seed, PID)
    ctx.rule = ("case = one Krige object + target set; key = (variant, model class, geometry, dim, #cond, exact, nugget?, cond_err kind, "
                "inverse routine, normalizer, mesh type, chunk size); every generated case has >= 2 conditioning points and is non-trivial; "
                "metamorphic sub-probes of a case are counted as evaluations without a key")
    ctx.trusted = list(KC.TRUSTED)
    ctx.not_proved = [
        "LAPACK's (pseudo-)inverse: theorems assume K*Kinv = I (and Kinv*K = I for uniqueness / cond_perm); checked numerically per case",
        "floating-point rounding (theorems over R); chunk independence, target locality and mesh expansion are proved for every number type",
        "covariance / distance / drift VALUES are model inputs (geometry and covariance functions belong to C02, C03, C12, C13); "
        "the probes rebuild them independently from cov_spatial / cov_yadrenko",
        "NaN filtering of conditioning values (krige/tools.set_condition) is probed, not modelled",
        "update histories of one Krige object (set_condition with new values, in-place model changes + set_condition()) are probed against a "
        "freshly built object, not modelled as a state machine",
        "C05_cond_perm_invariant is stated for index-related systems; that reordering the points produces such systems is checked by the probes",
    ]
    gen = C.regenerate(which=["Krigesum_gen.v"])
    tie_broken = [k + ": " + v for k, v in gen.items() if v]
    ctx.tie["krigesum.pyx (calc_field_krige, calc_field_krige_and_variance)"] = (
        "translated (pyx2coq), refinement to the defining sums proved in coq/c15" if not tie_broken else "TRANSLATION FAILED")
    for f in ("_get_krige_mat", "_get_krige_vecs", "_krige_cond", "__call__ (chunks, clipping, post-processing)", "get_mean", "only_mean"):
        ctx.tie["Krige." + f] = "hand model + correspondence"
    proofs_ok = (not tie_broken) and ctx.proofs("props/%s.v" % PID)
    drv = None
    if not tie_broken:
        ok, out = C.build_driver("c05")
        if ok:
            drv = C.Driver("c05")
        else:
            tie_broken.append("extraction/driver build: " + out[-400:])
    stats = {}
    try:
        if only is not None:
            one_case(ctx, drv, rng, only, stats)
        else:
            n = 140 if ctx.tier == "quick" else 2400
            for spec in specs(rng, ctx.tier, n):
                one_case(ctx, drv, rng, spec, stats)
            # memory layouts / containers of every array argument (structured with unequal axes and unstructured)
            lay = [("ExtDrift", "plain", 2, "structured"), ("Krige", "plain", 3, "structured"), ("ExtDrift", "time", None, "unstructured"),
                   ("Universal", "plain", 2, "structured"), ("Krige", "latlon", None, "structured"), ("Ordinary", "plain", 3, "unstructured")]
            for r_ in range(1 if ctx.tier == "quick" else 4):
                for v_, g_, d_, mt_ in lay:
                    sp_ = KC.gen_spec(rng, variant=v_, geo=g_, dim=d_, tier="quick", allow_norm=False, n=7, m=5,
                                      cell=((1, 1 + r_ % 2, True) if v_ == "Krige" else None))
                    sp_["mesh_type"] = mt_
                    if mt_ == "unstructured" and len(sp_["pos"]) and len(set(map(len, sp_["pos"]))) != 1:
                        sp_["pos"] = KC.gen_points(rng, sp_["geo"], len(sp_["cond_pos"]), 5)
                    KC.probe_layouts(ctx, rng, sp_, stats)
            # cross-object interference (shared default instances, registries written at run time)
            for r_ in range(1 if ctx.tier == "quick" else 3):
                KC.probe_interference(ctx, rng, stats, ctx.tier)
            # the cond_err guard (exact=True excludes explicit measurement errors) on every route / value class
            for v_ in (("Simple", "ExtDrift") if ctx.tier == "quick" else KC.VARIANTS + ["Krige"]):
                KC.probe_cond_err_guard(ctx, drv, rng, KC.gen_spec(rng, variant=v_, geo="plain", dim=2, tier="quick", allow_norm=False, n=6, m=3), stats)
            # single-point / few-point targets ON conditioning points, rotated + anisotropic models at UTM-scale coordinates
            for r_ in range(1 if ctx.tier == "quick" else 4):
                for v_ in ("Ordinary", "Universal"):
                    KC.probe_single_targets(ctx, drv, KC.gen_utm(rng, v_), stats)
            # auto-fitted models: the object must solve the system of its FINAL model
            k = 0
            for rep in range(1 if ctx.tier == "quick" else 5):
                for geo in ("plain", "time", "latlon"):
                    for gm in (0, 2, 3):
                        if geo == "latlon" and gm != 3:
                            continue
                        for v_ in (("Ordinary", "Simple") if k % 2 == 0 else ("Universal", "Detrended")):
                            if v_ == "Detrended":
                                continue
                            KC.probe_fit_variogram(ctx, rng, stats, geo, gm, v_, via_set_condition=bool(k % 3 == 1))
                            k += 1
    finally:
        if drv:
            drv.close()
    ctx.notes.append("statistics: " + json.dumps({k: (float(v) if isinstance(v, (float, np.floating)) else v) for k, v in stats.items()}))
    KC.finish_tie(ctx, PID, proofs_ok, tie_broken)


def replay(ctx, path):
    rec = json.load(open(path))
    print(json.dumps({k: rec[k] for k in ("stage", "what")}, indent=1))
    spec = (rec.get("case") or {}).get("spec")
    if rec.get("key") in ("dup:replicates", "fit_variogram") or not spec or "pos" not in spec:
        spec = None          # generated probe families (replicates, auto-fit): re-run the whole check with the recorded seed
    run(ctx, only=spec)
    return ctx.finish()
