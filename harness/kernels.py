"""Access to the three kernel families in their four incarnations:
   model   — Gallina translated from the .pyx on this run, extracted, run at OCaml floats
   so      — the compiled extension modules found in /repo (what users run)
   src     — the .pyx executed as plain Python (pyx2py): "plain interpretation of its own source"
   omp     — an OpenMP build of the generated C found in /repo, in a temp dir (thread counts)
"""
import importlib.util
import os
import shutil
import subprocess
import sys
import sysconfig
import tempfile

import numpy as np

import common as C
import pyx2py

MODS = {
    "summator": ("field/summator", "c"),
    "krigesum": ("krige/krigesum", "c"),
    "estimator": ("variogram/estimator", "cpp"),
}


def load_so():
    import gstools.field.summator as s
    import gstools.krige.krigesum as k
    import gstools.variogram.estimator as e
    return dict(summator=s, krigesum=k, estimator=e)


def load_src():
    out = {}
    for name, (rel, _) in MODS.items():
        out[name] = pyx2py.load_module(os.path.join(C.REPO, "src/gstools", rel + ".pyx"), "src_" + name)
    return out


class OmpBuild:
    def __init__(self):
        self.dir = tempfile.mkdtemp(prefix="gs_omp_")
        self.mods = {}
        self.errors = {}

    def build(self):
        inc = sysconfig.get_paths()["include"]
        npinc = np.get_include()
        procs = {}
        for name, (rel, ext) in MODS.items():
            src = os.path.join(C.REPO, "src/gstools", rel + "." + ext)
            if not os.path.exists(src):
                self.errors[name] = "generated C source missing: " + src
                continue
            cc = "gcc" if ext == "c" else "g++"
            out = os.path.join(self.dir, name + sysconfig.get_config_var("EXT_SUFFIX"))
            cmd = [cc, "-O2", "-fPIC", "-shared", "-fopenmp", "-w", "-DNPY_NO_DEPRECATED_API=NPY_1_7_API_VERSION",
                   "-I" + inc, "-I" + npinc, src, "-o", out]
            procs[name] = (subprocess.Popen(cmd, stdout=subprocess.PIPE, stderr=subprocess.STDOUT, text=True), out)
        for name, (p, out) in procs.items():
            o, _ = p.communicate(timeout=600)
            if p.returncode != 0:
                self.errors[name] = o[-500:]
                continue
            spec = importlib.util.spec_from_file_location(name, out)
            m = importlib.util.module_from_spec(spec)
            try:
                spec.loader.exec_module(m)
                self.mods[name] = m
            except Exception as e:
                self.errors[name] = repr(e)
        return self.mods

    def cleanup(self):
        shutil.rmtree(self.dir, ignore_errors=True)
